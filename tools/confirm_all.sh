#!/bin/bash
# Confirm every delivered seed against /repo HEAD (scratch worktrees).
# usage: confirm_all.sh <log> [jobs]
log=$1; jobs=${2:-5}
( for d in $(ls -d /tmp/seeds/C*/m* | sort); do P=$(basename $(dirname $d)); m=$(basename $d); [ "$P/$m" = "C16/m3" ] && continue; echo "$d f-seeds-$P-$m"; done
  for d in $(ls -d /tmp/seeds3/C*/m* /tmp/seeds3/C10/extra_m4 | sort -u); do P=$(basename $(dirname $d)); m=$(basename $d); [ "$P/$m" = "C16/m3" ] && continue; echo "$d f-seeds3-$P-$m"; done
  for d in $(ls -d /tmp/seeds4/C*/m? /tmp/seeds4/C03/extra_m4 /tmp/seeds4/C01/spare_array /tmp/seeds4/C20/extra_alias_lock | sort -u); do P=$(basename $(dirname $d)); m=$(basename $d); echo "$d f-seeds4-$P-$m"; done
) | xargs -P "$jobs" -L 1 bash /verif/tools/confirm_seed.sh > "$log" 2>&1
echo finished >> "$log"
