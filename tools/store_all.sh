#!/bin/bash
# Regenerate /verif/seeded from the four batches of sub-agent deliveries.
# usage: store_all.sh <confirm log> [jobs]
# Each seed is re-based on /repo HEAD and evaluated in its own scratch worktree
# (tools/store_seed.py), so the loop is parallel and never touches /repo.
log=$1; jobs=${2:-6}
list=$(mktemp)
emit() { # dir id prop confirm-name
  r=$(grep "^$4 " "$log" | tail -1 | cut -d' ' -f2-)
  printf '%s\t%s\t%s\t%s\n' "$1" "$2" "$3" "$r" >> "$list"
}
for d in $(ls -d /tmp/seeds/C*/m* | sort); do
  P=$(basename $(dirname $d)); m=$(basename $d)
  [ "$P/$m" = "C16/m3" ] && continue   # not a regression since the D23 repair
  emit $d $P-agent1-$m $P f-seeds-$P-$m
done
for d in $(ls -d /tmp/seeds3/C*/m* /tmp/seeds3/C10/extra_m4 | sort -u); do
  P=$(basename $(dirname $d)); m=$(basename $d)
  [ "$P/$m" = "C16/m3" ] && continue
  id=$m; [ "$m" = "extra_m4" ] && id=m4; [ "$m" = "m4_bonus" ] && id=m4
  emit $d $P-agent2-$id $P f-seeds3-$P-$m
done
for d in $(ls -d /tmp/seeds4/C*/m? /tmp/seeds4/C03/extra_m4 /tmp/seeds4/C01/spare_array /tmp/seeds4/C20/extra_alias_lock | sort -u); do
  P=$(basename $(dirname $d)); m=$(basename $d)
  id=$m; [ "$m" = "extra_m4" ] && id=m4; [ "$m" = "spare_array" ] && id=m4; [ "$m" = "extra_alias_lock" ] && id=m4
  emit $d $P-agent3-$id $P f-seeds4-$P-$m
done
wc -l < "$list"
cat "$list" | tr '\t' '\n' | xargs -d '\n' -n 4 -P "$jobs" /venv/bin/python /verif/tools/store_seed.py
rm -f "$list"
