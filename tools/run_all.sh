#!/bin/bash
# Run every registered quick check against /repo and refresh MANIFEST + evidence.
cd /verif
/venv/bin/python -m sa.manifest_gen
rc=0
for p in $(/venv/bin/python -c "import json;print(' '.join(c['property_id'] for c in json.load(open('MANIFEST.json'))['checks']))"); do
  out=$(/venv/bin/python -m sa.run $p --tier ${1:-quick} 2>&1); r=$?
  echo "$out" | tail -1
  if [ $r -ne 0 ]; then rc=$r; echo "$out" | grep -E "VIOLATION|ANALYSIS-ERROR|KNOWN" | head; fi
done
exit $rc
