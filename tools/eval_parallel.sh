#!/bin/bash
# usage: eval_parallel.sh <outdir> <jobs> <dir-with-patch.diff>...
# Evaluates candidate changes without touching /repo: each gets its own scratch
# worktree of /repo HEAD (removed straight afterwards), the patch is applied
# there and every quick check is run with --repo <worktree>.
out=$1; jobs=$2; shift 2
mkdir -p "$out"
# the checks run from a private snapshot of /verif/sa, so that rules may be
# edited while an evaluation is in progress without contaminating it
SNAP=$(mktemp -d /tmp/sasnap.XXXXXX)
cp -r /verif/sa /verif/known_findings.json "$SNAP"/; mkdir -p "$SNAP/.cache"; cp /verif/.cache/* "$SNAP/.cache/" 2>/dev/null
export SNAP
one() {
  d=$1; out=$2
  tag=$(echo "$d" | sed 's#/*$##' | awk -F/ '{print $(NF-2)"-"$(NF-1)"-"$NF}')
  wt=/tmp/evwt/$tag
  rm -rf "$wt"; mkdir -p /tmp/evwt
  git -C /repo worktree add -f --detach "$wt" HEAD -q >/dev/null 2>&1 || { echo "WT-FAILED" > "$out/$tag.log"; return; }
  ( cd "$wt" && { git apply --3way "$d/patch.diff" 2>"$out/$tag.apply" || git apply "$d/patch.diff" 2>>"$out/$tag.apply"; } ) || { echo "APPLY-FAILED" > "$out/$tag.log"; git -C /repo worktree remove --force "$wt"; return; }
  : > "$out/$tag.log"
  cd "$SNAP"
  for p in C01 C02 C03 C04 C05 C06 C07 C08 C09 C10 C11 C12 C13 C14 C15 C16 C18 C19 C20; do
    /venv/bin/python -m sa.run $p --no-evidence --repo "$wt" 2>&1 | grep -E "^  C[0-9]+\.|ANALYSIS-ERROR|Traceback|Error" | cut -c1-300 | sed "s/^/[$p] /" >> "$out/$tag.log"
  done
  git -C /repo worktree remove --force "$wt"
  echo "done $tag $(wc -l < $out/$tag.log)"
}
export -f one
printf "%s\n" "$@" | xargs -P "$jobs" -I{} bash -c 'one {} '"$out"
git -C /repo worktree prune
rm -rf "$SNAP"
