#!/bin/bash
# evaluate every candidate under /tmp/seeds/<P>/m* with the quick checks of a set of properties
for d in ${@:-/tmp/seeds/C*/m*}; do
  [ -f $d/patch.diff ] || continue
  P=$(basename $(dirname $d)); m=$(basename $d)
  out=$(/verif/tools/eval_seed.sh $d/patch.diff 2>&1)
  n=$(echo "$out" | grep -c "^\[")
  echo "== $P/$m fired=$n"
  echo "$out" | cut -c1-200 | sort -u -k2 | head -4
done
