#!/bin/bash
# usage: eval_seed.sh <patch.diff> [props...]   -- apply a candidate change to /repo,
# run the quick checks, print what fires, and undo the change straight afterwards.
patch=$1; shift
props=${@:-C01 C02 C03 C04 C05 C06 C07 C08 C09 C10 C11 C12 C13 C14 C15 C16 C18 C19 C20}
cd /repo || exit 2
if ! git diff --quiet; then echo "repo not clean"; exit 2; fi
if ! git apply --3way "$patch" 2>/tmp/apply.err && ! git apply "$patch" 2>>/tmp/apply.err; then echo "APPLY-FAILED"; cat /tmp/apply.err | head -5; git checkout -- . ; exit 3; fi
git reset -q 2>/dev/null
cd /verif
for p in $props; do
  out=$(/venv/bin/python -m sa.run $p --no-evidence 2>&1)
  echo "$out" | grep -E "^  C[0-9]+\.|^  [a-z]+\.|ANALYSIS-ERROR" | cut -c1-260 | sed "s/^/[$p] /"
done
cd /repo && git checkout -- . && git status --short | grep -v '^??' | head -3
