#!/usr/bin/env python3
"""refresh_seeded.py [jobs] [id-substring]: re-evaluate every kept change under
/verif/seeded against the *current* rules.  Each change gets its own scratch
worktree of /repo HEAD (removed straight afterwards; /repo itself is never
touched), the patch is applied there, every quick check is run with
`--repo <worktree>` and `detected_by` / `detected` of meta.json are rewritten.
The confirmation record is left alone."""
import json, os, re, subprocess, sys
from concurrent.futures import ThreadPoolExecutor

PROPS = ("C01 C02 C03 C04 C05 C06 C07 C08 C09 C10 C11 C12 C13 C14 C15 C16 "
         "C18 C19 C20").split()
jobs = int(sys.argv[1]) if len(sys.argv) > 1 else 8
# run from a private snapshot of /verif/sa so that later edits of the rules do
# not contaminate an evaluation in progress
import tempfile, shutil
SNAP = tempfile.mkdtemp(prefix="sasnap.", dir="/tmp")
shutil.copytree("/verif/sa", f"{SNAP}/sa")
shutil.copy("/verif/known_findings.json", SNAP)
os.makedirs(f"{SNAP}/.cache", exist_ok=True)
for f in os.listdir("/verif/.cache") if os.path.isdir("/verif/.cache") else []:
    shutil.copy(f"/verif/.cache/{f}", f"{SNAP}/.cache/{f}")
sub = sys.argv[2] if len(sys.argv) > 2 else ""


def one(sid):
    d = f"/verif/seeded/{sid}"
    wt = f"/tmp/evwt/refresh-{sid}"
    subprocess.run(["rm", "-rf", wt])
    os.makedirs("/tmp/evwt", exist_ok=True)
    subprocess.run(["git", "-C", "/repo", "worktree", "add", "-f", "-q", "--detach", wt, "HEAD"],
                   check=True, capture_output=True)
    try:
        r = subprocess.run(["git", "-C", wt, "apply", f"{d}/patch.diff"], capture_output=True)
        if r.returncode:
            r = subprocess.run(["git", "-C", wt, "apply", "--3way", f"{d}/patch.diff"], capture_output=True)
            if r.returncode:
                return sid, "APPLY-FAILED", []
        caught = []
        for p_ in PROPS:
            o = subprocess.run(["/venv/bin/python", "-m", "sa.run", p_, "--no-evidence", "--repo", wt],
                               capture_output=True, text=True, cwd=SNAP)
            for line in (o.stdout + o.stderr).splitlines():
                m = re.match(r"^\s+(C\d+\.\S+|obs\.\S+) (.+?) @ (\S+?):", line)
                if m:
                    caught.append({"property": p_, "rule": m.group(1), "key": m.group(2)[:200], "loc": m.group(3)})
                elif "ANALYSIS-ERROR" in line or "Traceback" in line:
                    caught.append({"property": p_, "analysis_error": line[:200]})
    finally:
        subprocess.run(["git", "-C", "/repo", "worktree", "remove", "--force", wt], capture_output=True)
    mp = f"{d}/meta.json"
    meta = json.load(open(mp))
    meta["detected_by"] = caught
    meta["detected"] = bool([c for c in caught if "rule" in c])
    meta["evaluated_at_head"] = subprocess.run(["git", "-C", "/repo", "rev-parse", "--short", "HEAD"],
                                                capture_output=True, text=True).stdout.strip()
    json.dump(meta, open(mp, "w"), indent=1)
    own = [c for c in caught if c.get("property") == meta["breaks_property"] and "rule" in c]
    return sid, ("detected" if own else ("detected-other-only" if meta["detected"] else "MISSED")), \
        sorted({c.get("rule", "ERR") for c in caught})


ids = sorted(s for s in os.listdir("/verif/seeded") if sub in s and os.path.exists(f"/verif/seeded/{s}/patch.diff"))
with ThreadPoolExecutor(jobs) as ex:
    for sid, st, rules in ex.map(one, ids):
        print(sid, st, rules, flush=True)
subprocess.run(["git", "-C", "/repo", "worktree", "prune"])
shutil.rmtree(SNAP, ignore_errors=True)
