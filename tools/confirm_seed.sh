#!/bin/bash
# usage: confirm_seed.sh <dir with patch.diff + demo.py> <name>
# Confirms in a scratch worktree (removed afterwards): demo passes on the clean
# tree, fails with the patch, and the unedited test suite passes with the patch.
src=$1; name=$2
wt=/tmp/confirm/$name
mkdir -p /tmp/confirm; rm -rf $wt
cd /repo && git worktree add -q --detach $wt HEAD || exit 2
cp /repo/traits/ctraits.cpython-312-x86_64-linux-gnu.so $wt/traits/
cd $wt
res=""
/venv/bin/python $src/demo.py >/tmp/confirm/$name.clean.log 2>&1; c=$?
if ! git apply $src/patch.diff 2>/tmp/confirm/$name.apply.log; then
  if ! git apply --3way $src/patch.diff 2>>/tmp/confirm/$name.apply.log; then echo "$name APPLY-FAILED"; cd /repo; git worktree remove --force $wt; exit 3; fi
  git reset -q   # a 3-way apply stages the change: unstage it so that `git diff` sees it
fi
if git diff --name-only | grep -q ctraits.c; then gcc -shared -fPIC -O2 -DNDEBUG -fno-strict-overflow -I$(/venv/bin/python -c "import sysconfig;print(sysconfig.get_paths()[\"include\"])") traits/ctraits.c -o traits/ctraits.cpython-312-x86_64-linux-gnu.so >/tmp/confirm/$name.build.log 2>&1 || { echo "$name BUILD-FAILED"; cd /repo; git worktree remove --force $wt; exit 4; }; fi
/venv/bin/python $src/demo.py >/tmp/confirm/$name.patched.log 2>&1; p=$?
t=$(/venv/bin/python -m pytest -q -p no:cacheprovider --timeout=900 2>&1 | tail -1)
cd /repo; git worktree remove --force $wt
echo "$name demo_clean_exit=$c demo_patched_exit=$p tests: $t"
