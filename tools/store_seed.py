#!/usr/bin/env python3
"""store_seed.py <seed dir> <id> <property>: regenerate the patch against the
current /repo HEAD in a scratch worktree, evaluate it with every quick check
(applied to /repo and undone straight afterwards) and write
/verif/seeded/<id>/{patch.diff,demo.py,notes.md,meta.json}."""
import json, os, re, shutil, subprocess, sys
src, sid, prop = sys.argv[1:4]
confirmed = sys.argv[4] if len(sys.argv) > 4 else ""
out = f"/verif/seeded/{sid}"
os.makedirs(out, exist_ok=True)
wt = f"/tmp/confirm/store-{sid}"
subprocess.run(["rm", "-rf", wt])
subprocess.run(["git", "-C", "/repo", "worktree", "add", "-q", "--detach", wt, "HEAD"], check=True)
try:
    r = subprocess.run(["git", "-C", wt, "apply", f"{src}/patch.diff"])
    if r.returncode:
        subprocess.run(["git", "-C", wt, "apply", "--3way", f"{src}/patch.diff"], check=True)
        subprocess.run(["git", "-C", wt, "reset", "-q"])
    diff = subprocess.run(["git", "-C", wt, "diff"], capture_output=True, text=True).stdout
finally:
    subprocess.run(["git", "-C", "/repo", "worktree", "remove", "--force", wt])
open(f"{out}/patch.diff", "w").write(diff)
shutil.copy(f"{src}/demo.py", f"{out}/demo.py")
if os.path.exists(f"{src}/notes.md"):
    shutil.copy(f"{src}/notes.md", f"{out}/notes.md")
ev = subprocess.run(["/verif/tools/eval_seed.sh", f"{out}/patch.diff"], capture_output=True, text=True).stdout
caught = []
for line in ev.splitlines():
    m = re.match(r"\[(C\d+)\]\s+(\S+) (.+?) @ (\S+?):", line)
    if m:
        caught.append({"property": m.group(1), "rule": m.group(2), "key": m.group(3), "loc": m.group(4)})
    elif "ANALYSIS-ERROR" in line:
        caught.append({"analysis_error": line[:200]})
notes = open(f"{out}/notes.md").read() if os.path.exists(f"{out}/notes.md") else ""
meta = {
    "id": sid, "breaks_property": prop,
    "origin": "independent sub-agent given only the property text and a scratch worktree",
    "files": sorted(set(re.findall(r"^\+\+\+ b/(\S+)", diff, re.M))),
    "needs_to_manifest": notes.strip().split("\n\n")[0][:1200],
    "confirmed": {
        "how": "tools/confirm_seed.sh in a scratch worktree of /repo HEAD: demo.py exits 0 on the clean tree, non-zero with the patch, and the unedited test suite passes with the patch",
        "result": confirmed,
    },
    "detected_by": caught,
    "detected": bool([c for c in caught if "rule" in c]),
}
json.dump(meta, open(f"{out}/meta.json", "w"), indent=1)
print(sid, "detected" if meta["detected"] else "MISSED", sorted({c.get("rule", "ERR") for c in caught}))
