#!/usr/bin/env python3
"""store_seed.py <seed dir> <id> <property> [confirmation text]: regenerate
the patch against the current /repo HEAD in a scratch worktree (removed
straight afterwards), evaluate it there with every quick check (`--repo
<worktree>`: /repo itself is not touched, so several can run in parallel) and
write /verif/seeded/<id>/{patch.diff,demo.py,notes.md,meta.json}."""
import json, os, re, shutil, subprocess, sys
src, sid, prop = sys.argv[1:4]
confirmed = sys.argv[4] if len(sys.argv) > 4 else ""
out = f"/verif/seeded/{sid}"
os.makedirs(out, exist_ok=True)
wt = f"/tmp/confirm/store-{sid}"
subprocess.run(["rm", "-rf", wt])
subprocess.run(["git", "-C", "/repo", "worktree", "add", "-q", "--detach", wt, "HEAD"], check=True)
PROPS = ("C01 C02 C03 C04 C05 C06 C07 C08 C09 C10 C11 C12 C13 C14 C15 C16 "
         "C18 C19 C20").split()
try:
    r = subprocess.run(["git", "-C", wt, "apply", f"{src}/patch.diff"])
    if r.returncode:
        subprocess.run(["git", "-C", wt, "apply", "--3way", f"{src}/patch.diff"], check=True)
        subprocess.run(["git", "-C", wt, "reset", "-q"])
    diff = subprocess.run(["git", "-C", wt, "diff"], capture_output=True, text=True).stdout
    ev = ""
    for p_ in PROPS:
        o = subprocess.run(["/venv/bin/python", "-m", "sa.run", p_, "--no-evidence",
                            "--repo", wt], capture_output=True, text=True,
                           cwd="/verif")
        for line in (o.stdout + o.stderr).splitlines():
            if re.match(r"^  C\d+\.", line) or "ANALYSIS-ERROR" in line:
                ev += f"[{p_}] {line[:260]}\n"
finally:
    subprocess.run(["git", "-C", "/repo", "worktree", "remove", "--force", wt])
open(f"{out}/patch.diff", "w").write(diff)
shutil.copy(f"{src}/demo.py", f"{out}/demo.py")
if os.path.exists(f"{src}/notes.md"):
    shutil.copy(f"{src}/notes.md", f"{out}/notes.md")
caught = []
for line in ev.splitlines():
    m = re.match(r"\[(C\d+)\]\s+(\S+) (.+?) @ (\S+?):", line)
    if m:
        caught.append({"property": m.group(1), "rule": m.group(2), "key": m.group(3), "loc": m.group(4)})
    elif "ANALYSIS-ERROR" in line:
        caught.append({"analysis_error": line[:200]})
notes = open(f"{out}/notes.md").read() if os.path.exists(f"{out}/notes.md") else ""
meta = {
    "id": sid, "breaks_property": prop,
    "origin": "independent sub-agent given only the property text and a scratch worktree",
    "files": sorted(set(re.findall(r"^\+\+\+ b/(\S+)", diff, re.M))),
    "needs_to_manifest": notes.strip().split("\n\n")[0][:1200],
    "confirmed": {
        "how": "tools/confirm_seed.sh in a scratch worktree of /repo HEAD: demo.py exits 0 on the clean tree, non-zero with the patch, and the unedited test suite passes with the patch",
        "head": subprocess.run(["git", "-C", "/repo", "rev-parse", "--short", "HEAD"], capture_output=True, text=True).stdout.strip(),
        "result": confirmed,
    },
    "checks_run": "every registered quick check (/venv/bin/python -m sa.run <Cxx> --repo <scratch worktree with the patch applied>)",
    "detected_by": caught,
    "detected": bool([c for c in caught if "rule" in c]),
}
json.dump(meta, open(f"{out}/meta.json", "w"), indent=1)
print(sid, "detected" if meta["detected"] else "MISSED", sorted({c.get("rule", "ERR") for c in caught}))
