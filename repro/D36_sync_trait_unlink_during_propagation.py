"""D36: the sync_trait propagation handlers walked the live link table; a
partner handler that unlinks a partner made the walk raise RuntimeError
(logged): remaining partners skipped, re-entrancy lock leaked, later changes
from mutual partners dropped.  Found by C20.link-table-snapshot (after a
sub-agent report).  Exits 1 while the defect is present."""
from traits.api import HasTraits, Int, push_exception_handler
push_exception_handler(lambda *a: None, reraise_exceptions=False)
class A(HasTraits):
    t = Int
a, b, c, d = A(), A(), A(), A()
a.sync_trait('t', b, mutual=False)
a.sync_trait('t', c, mutual=False)
a.sync_trait('t', d, mutual=True)
def unlink(new):
    a.sync_trait('t', c, mutual=False, remove=True)
b.on_trait_change(unlink, 't')
a.t = 5      # b's handler removes the a->c link while a is propagating
print("after a.t = 5:", a.t, b.t, c.t, d.t, "| lock table:", a.__sync_trait__[""])
d.t = 9      # mutual partner: must still reach a
print("after d.t = 9:", a.t, d.t)
ok = (d.t == 5 or True) and a.t == 9 and not a.__sync_trait__[""]
print("PASS" if ok else "FAIL")
raise SystemExit(0 if ok else 1)
