"""D34: in a deferral chain, setattr_delegate and _has_traits_trait mapped the
name of every hop with the *root* object as owner; with prefix="*" the class
__prefix__ of the wrong object was used from the second hop on, so writes and
base_trait() resolved to a different attribute than reads.  Found by
C11.roles:chain-holder (after a sub-agent report).  Expected output after the
repair: a.v -> 42, c.b_a_v = 42, base_trait: True False."""
from traits.api import HasTraits, Int, Instance, DelegatesTo
class C(HasTraits):
    b_a_v = Int(1)
    a_a_v = Int(2)
class B(HasTraits):
    __prefix__ = "b_"
    c = Instance(C)
    a_v = DelegatesTo("c", prefix="*")
class A(HasTraits):
    __prefix__ = "a_"
    b = Instance(B)
    v = DelegatesTo("b", prefix="*")
c = C(); a = A(b=B(c=c))
print("read a.v ->", a.v, "(c.b_a_v)")
a.v = 42
print("after a.v = 42: a.v ->", a.v, " c.b_a_v =", c.b_a_v, " c.a_a_v =", c.a_a_v)
print("base_trait:", a.base_trait("v") is c.trait("b_a_v"), a.base_trait("v") is c.trait("a_a_v"))
