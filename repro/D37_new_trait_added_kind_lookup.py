"""D37: ListenerItem._new_trait_added looked the listener kind up with
`handler.default_value_` (a misspelling of `default_value_type`, which reads as
None): a List/Dict/Set trait added with add_trait and matched by a wildcard
link ("child.+meta.v") was treated as a simple link - AttributeError logged,
items never hooked.  Found by C16.kind-dispatch-agrees (after a sub-agent
report).  Exits 1 while the defect is present."""
from traits.api import HasTraits, Instance, Int, List, push_exception_handler
errors = []
push_exception_handler(lambda *a: errors.append(a), reraise_exceptions=False)
class Leaf(HasTraits):
    v = Int
class Child(HasTraits):
    pass
class Root(HasTraits):
    child = Instance(Child, ())
calls = []
r = Root()
r.on_trait_change(lambda: calls.append(1), "child.+meta.v")
r.child.add_trait("z", List(Instance(Leaf), meta=True))
l = Leaf()
r.child.z = [l]
before = len(calls)
l.v = 3
ok = len(calls) == before + 1 and not errors
print("calls for l.v = 3:", len(calls) - before, "| handler errors logged:", len(errors))
print("PASS" if ok else "FAIL")
raise SystemExit(0 if ok else 1)
