import os, sys; sys.path.insert(0, os.getcwd())
from traits.api import HasTraits, Instance, Int, PrototypedFrom
class P(HasTraits):
    v = Int(1)
class Q(HasTraits):
    p = Instance(P, ())
q = Q()
q.add_trait('w', PrototypedFrom('p', prefix='v'))
print("read through prototype:", q.w)
try:
    q.w = 10
    print("assigned:", q.w)
    ok = q.w == 10 and q.p.v == 1
except Exception as e:
    print("assignment raised", type(e).__name__, e, "| value now", q.__dict__.get('w'))
    ok = False
print("PASS" if ok else "FAIL"); sys.exit(0 if ok else 1)
