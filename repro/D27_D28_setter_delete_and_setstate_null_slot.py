import os, sys; sys.path.insert(0, os.getcwd())
import subprocess, textwrap
cases = {
 "del ctrait.is_mapped": "from traits.api import Int\nt = Int().as_ctrait()\ntry:\n    del t.is_mapped\nexcept (TypeError, AttributeError) as e:\n    print('ok', type(e).__name__)",
 "del ctrait.__dict__": "from traits.api import Int\nt = Int().as_ctrait()\ntry:\n    del t.__dict__\nexcept (TypeError, AttributeError) as e:\n    print('ok', type(e).__name__)",
 "setstate NULL getattr slot": "from traits.api import Int, HasTraits\nt = Int().as_ctrait()\nst = list(t.__getstate__())\nst[0] = 13\ntry:\n    t.__setstate__(tuple(st))\n    o = HasTraits(); o.add_trait('x', t); o.x\n    print('ok no crash')\nexcept (ValueError, TypeError, AttributeError) as e:\n    print('ok', type(e).__name__)",
}
bad = []
for name, code in cases.items():
    r = subprocess.run([sys.executable, "-c", "import os,sys; sys.path.insert(0, os.getcwd())\n" + code], capture_output=True, text=True)
    ok = r.returncode == 0 and "ok" in r.stdout
    print(name, "->", "exit", r.returncode, r.stdout.strip()[:40])
    if not ok:
        bad.append(name)
print("FAIL" if bad else "PASS", bad)
sys.exit(1 if bad else 0)
