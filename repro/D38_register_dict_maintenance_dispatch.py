"""D38: ListenerItem._register_dict installed its link-maintenance handlers
(handle_dict, handle_dict_items) with dispatch=self.dispatch, while
_register_simple and _register_list use dispatch="extended".  With the user's
dispatch the (Uninitialized -> default) event is filtered out, so a deferred
listener through a Dict link never hooked the values of a non-empty default
(the same set-up through a List link works, and so does observe()).  Found by
C16.maintenance-dispatch (after a sub-agent report).  Exits 1 while present."""
from traits.api import HasTraits, Dict, List, Str, Instance, Int
class Child(HasTraits):
    x = Int
class R(HasTraits):
    d = Dict(Str, Instance(Child))
    l = List(Instance(Child))
    def _d_default(self):
        return {"a": Child()}
    def _l_default(self):
        return [Child()]
calls = {"d": 0, "l": 0}
r = R()
r.on_trait_change(lambda: calls.__setitem__("d", calls["d"] + 1), "d.x", deferred=True)
r.on_trait_change(lambda: calls.__setitem__("l", calls["l"] + 1), "l.x", deferred=True)
r.d["a"].x = 1
r.l[0].x = 1
print(calls)
ok = calls == {"d": 1, "l": 1}
print("PASS" if ok else "FAIL")
raise SystemExit(0 if ok else 1)
