"""D33: `del obj.x` with a notifier attached computes the value the attribute
reverts to *after* deleting the stored value; when that computation raised (a
_x_default method, a factory) the exception reached the caller but the value
was gone.  Found by C19.undo-on-failure (after a sub-agent report).  Expected
after the repair: raised, x still in __dict__, a.x now 7."""
from traits.api import HasTraits, Int
class A(HasTraits):
    x = Int
    fail = False
    def _x_default(self):
        if self.fail:
            raise RuntimeError("no default now")
        return 3
a = A()
a.x = 7
a.on_trait_change(lambda: None, "x")
a.fail = True
try:
    del a.x
    print("deleted without error")
except RuntimeError as e:
    print("raised:", e, "| 'x' in __dict__:", 'x' in a.__dict__)
a.fail = False
print("a.x now", a.x)
