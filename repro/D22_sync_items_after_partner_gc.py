import os, sys; sys.path.insert(0, os.getcwd())
import gc
from traits.api import HasTraits, List, Int, push_exception_handler

class A(HasTraits):
    l = List(Int)

push_exception_handler(reraise_exceptions=True)
a, b = A(l=[1]), A()
a.sync_trait("l", b)
del b
gc.collect()
try:
    a.l.append(2)          # in-place mutation after the partner died
    print("PASS no error")
except Exception as e:
    print("FAIL", type(e).__name__, e)
    sys.exit(1)
a.l = [5]
print("assignment ok")
