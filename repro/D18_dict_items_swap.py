from traits.api import HasTraits, Dict, Str, Instance, Int

class Leaf(HasTraits):
    name = Str()

class Root(HasTraits):
    d = Dict(Str, Instance(Leaf))

def run(api):
    r = Root()
    a, b = Leaf(name="a"), Leaf(name="b")
    r.d = {"k1": a, "k2": b}
    got = []
    if api == "legacy":
        r.on_trait_change(lambda obj, name, old, new: got.append(new), "d:name")
    else:
        r.observe(lambda e: got.append(e.new), "d:items:name")
    # swap the two values in one update: graph stays unshared before and after
    r.d.update({"k1": b, "k2": a})
    a.name = "a2"
    b.name = "b2"
    return got

print("legacy ", run("legacy"))
print("observe", run("observe"))
