import os, sys; sys.path.insert(0, os.getcwd())
from traits.api import HasTraits, List, Instance, Int, on_trait_change, observe

class Child(HasTraits):
    value = Int()

class PLegacy(HasTraits):
    children = List(Instance(Child))
    calls = List()
    @on_trait_change("children.value", post_init=True)
    def _h(self, obj, name, old, new):
        self.calls.append(new)

class PObserve(HasTraits):
    children = List(Instance(Child))
    calls = List()
    @observe("children.items.value", post_init=True)
    def _h(self, event):
        self.calls.append(event.new)

for cls in (PLegacy, PObserve):
    c = Child()
    p = cls(children=[c])
    c.value = 5
    print(cls.__name__, "post_init=True, item given to constructor:", p.calls)

class PLegacy2(HasTraits):
    children = List(Instance(Child))
    calls = List()
    @on_trait_change("children.value")
    def _h(self, obj, name, old, new):
        self.calls.append(new)
c = Child(); p = PLegacy2(children=[c]); c.value = 5
print("PLegacy2 (no post_init):", p.calls)
