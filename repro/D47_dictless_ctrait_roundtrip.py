"""D47 (C14): _trait_getstate writes None for a CTrait without an attribute
dictionary and _trait_setstate stored that None (or any other object) into
`obj_dict`, the field registered as tp_dictoffset: every later attribute
access on the unpickled / deep-copied trait raised SystemError.
Exits 0 when the copies behave like the original."""
import os, sys; sys.path.insert(0, os.getcwd())
import copy, pickle
from traits.ctrait import CTrait
bad = []
for mk in (lambda: pickle.loads(pickle.dumps(CTrait(0))),
           lambda: copy.deepcopy(CTrait(0))):
    u = mk()
    try:
        u.is_trait_type
        u.foo = 1
        if u.__dict__ != {"foo": 1}:
            bad.append(("dict", u.__dict__))
    except SystemError as e:
        bad.append(("SystemError", str(e)[:60]))
s = list(CTrait(0).__getstate__()); s[14] = 5
try:
    CTrait(0).__setstate__(tuple(s)); bad.append("non-dict accepted")
except TypeError:
    pass
print(bad)
sys.exit(1 if bad else 0)
