import os, sys; sys.path.insert(0, os.getcwd())
from traits.trait_list_object import TraitList
class I:
    def __init__(self, i): self.i = i
    def __index__(self): return self.i
bad = []
for op in ("insert", "pop"):
    ref = [1, 2, 3]; tl = TraitList([1, 2, 3])
    events = []
    tl.notifiers.append(lambda l, index, removed, added: events.append((index, removed, added)))
    try:
        r1 = ref.insert(I(-1), 9) if op == "insert" else ref.pop(I(0))
    except Exception as e:
        r1 = type(e).__name__
    try:
        r2 = tl.insert(I(-1), 9) if op == "insert" else tl.pop(I(0))
    except Exception as e:
        r2 = type(e).__name__
    print(op, "list:", r1, ref, "TraitList:", r2, list(tl), events)
    if r1 != r2 or ref != list(tl):
        bad.append(op)
print("FAIL" if bad else "PASS", bad)
sys.exit(1 if bad else 0)
