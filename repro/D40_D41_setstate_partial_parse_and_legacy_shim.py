"""D40/D41 (C18, C14): CTrait.__setstate__ (1) let PyArg_ParseTuple write borrowed
references straight into the owning fields - a later item failing to convert
left them un-owned (refcount under-flow, crash at deallocation) - (2) leaked the
previous field contents when applied to an initialised trait, and (3) ignored a
failing handler.validate / handler.post_setattr lookup in the pre-6.0 pickle
shim (SystemError, NULL py_validate)."""
import os, sys; sys.path.insert(0, os.getcwd())
import gc
from traits.api import Int
from traits.ctrait import CTrait

class M: pass
bad=[]
# 1. failed parse must not leave borrowed references
m = M(); s = list(Int(3).as_ctrait().__getstate__()); s[3] = m; s[4] = "not an int"
t = CTrait(0); before = sys.getrefcount(m)
try: t.__setstate__(tuple(s))
except TypeError: pass
del t; gc.collect(); d = sys.getrefcount(m) - before
print("failed parse delta", d)
if d != 0: bad.append("parse")
# 2. setstate twice must not leak
m2 = M(); s = list(Int(3).as_ctrait().__getstate__()); s[7] = m2
t = CTrait(0); before = sys.getrefcount(m2)
for i in range(10): t.__setstate__(tuple(s))
del t; gc.collect(); d = sys.getrefcount(m2) - before
print("repeated setstate delta", d)
if d != 0: bad.append("twice")
# 3. legacy pickle with handler lacking validate
class H: pass
s = list(Int(3).as_ctrait().__getstate__()); s[5] = -1; s[13] = H()
t = CTrait(0)
try:
    t.__setstate__(tuple(s)); print("no error"); bad.append("legacy")
except AttributeError as e: print("ok AttributeError")
except SystemError as e: print("SystemError", e); bad.append("legacy")
# 4. roundtrip still works
import pickle
t = Int(3).as_ctrait(); t2 = pickle.loads(pickle.dumps(t)); assert t2.__getstate__()[:12] == t.__getstate__()[:12]
print("FAIL" if bad else "PASS", bad); sys.exit(1 if bad else 0)
