"""D32: TraitInstance.resolve_class installed the TraitInstance's compiled
validator on a CTrait whose handler is a different object (a TraitCompound,
or the compound item trait of a List): after the first value that resolved the
class name, the other alternatives were rejected for every object of the class.
Found by C03.fast-path-owner.  Run with /venv/bin/python; exits 1 when the
defect is present."""
import sys
from traits.api import HasTraits, List, Trait, Str, TraitError
from traits.trait_handlers import TraitInstance


class Foo:
    pass


class A(HasTraits):
    x = Trait("", Str, TraitInstance("Foo", module=__name__))
    xs = List(Trait("", Str, TraitInstance("Foo", module=__name__)))


bad = 0
a = A()
a.x = "a"
a.x = Foo()
try:
    a.x = "c"
except TraitError as e:
    bad += 1
    print("DEFECT (compound):", str(e)[:120])
a.xs = ["a"]
a.xs = [Foo()]
try:
    a.xs = ["c"]
    A().xs.append("zz")
except TraitError as e:
    bad += 1
    print("DEFECT (list of compound):", str(e)[:120])
print("FAIL" if bad else "PASS")
sys.exit(1 if bad else 0)
