"""D46 (C18/C13): get_prefix_trait threw away the status of PyDict_SetItem.
With a name that is a str subclass which cannot be hashed the resolved prefix
trait was not cached, the `trait_added` event was fired with an exception
pending, and `get_trait(obj, name, 0)` then answered None, which was handed to
the callers as a `trait_object *` (SIGSEGV in has_traits_setattro when
notifications are off; a bogus AttributeError otherwise).
Run from a checkout: exits 0 when every call raises TypeError."""
import os, subprocess, sys

CHILD = r'''
import os, sys; sys.path.insert(0, os.getcwd())
from traits.api import HasTraits
class S(str):
    __hash__ = None
class A(HasTraits):
    pass
ok = 0
for quiet in (True, False):
    a = A()
    a._trait_change_notify(not quiet)
    for call in (lambda: setattr(a, S("foo"), 1),
                 lambda: a.trait_property_changed(S("foo"), 1, 2)):
        try:
            call()
        except TypeError as e:
            ok += "unhashable" in str(e)
print(ok)
sys.exit(0 if ok == 4 else 1)
'''
r = subprocess.run([sys.executable, "-X", "faulthandler", "-c", CHILD],
                   capture_output=True, text=True)
print(r.stdout.strip(), r.stderr.strip()[-300:])
sys.exit(0 if r.returncode == 0 else 1)
