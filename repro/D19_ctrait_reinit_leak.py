"""D19: CTrait methods that overwrite object-typed fields without releasing the
old value leak a reference each time they are applied to an initialised
trait (delegate(), property_fields setter, clone()).

Expected (property C18): after re-initialisation the reference counts of the
values passed in earlier are back to what they were before they were passed.
"""
import os
import sys
sys.path.insert(0, os.getcwd())
from traits.ctrait import CTrait

bad = []

# delegate() twice
t = CTrait(0)
a, b = "".join(["na", "me"]), "".join(["pre", "fix"])
ra, rb = sys.getrefcount(a), sys.getrefcount(b)
t.delegate(a, b, 0, False)
t.delegate("other", "other2", 0, False)
if (sys.getrefcount(a), sys.getrefcount(b)) != (ra, rb):
    bad.append(("delegate", sys.getrefcount(a) - ra, sys.getrefcount(b) - rb))

# property_fields twice
def g(): pass
def s(): pass
def g2(): pass
def s2(): pass
t = CTrait(0)
rg, rs = sys.getrefcount(g), sys.getrefcount(s)
t.property_fields = (g, s, None)
t.property_fields = (g2, s2, None)
if (sys.getrefcount(g), sys.getrefcount(s)) != (rg, rs):
    bad.append(("property_fields", sys.getrefcount(g) - rg,
                sys.getrefcount(s) - rs))

# clone() onto an initialised trait
class H: pass
h = H()
t = CTrait(0)
t.handler = h
rh = sys.getrefcount(h)
t.clone(CTrait(0))
if sys.getrefcount(h) != rh - 1:
    bad.append(("clone", sys.getrefcount(h) - (rh - 1)))

# clone() onto itself keeps counts unchanged
t = CTrait(0)
t.handler = h
rh = sys.getrefcount(h)
t.clone(t)
if sys.getrefcount(h) != rh:
    bad.append(("self-clone", sys.getrefcount(h) - rh))

print("FAIL" if bad else "PASS", bad)
sys.exit(1 if bad else 0)
