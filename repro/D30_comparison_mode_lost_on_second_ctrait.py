import os, sys; sys.path.insert(0, os.getcwd())
from traits.api import HasTraits, Any, ComparisonMode
t = Any(comparison_mode=ComparisonMode.none)
class C(HasTraits):
    p = t
    q = t
c = C()
modes = (c.trait('p').comparison_mode, c.trait('q').comparison_mode)
print(modes)
calls = []
c.on_trait_change(lambda: calls.append(1), 'q')
c.q = 7; c.q = 7
print("q notified", len(calls), "times (expected 2 with comparison_mode none)")
ok = modes[0] == modes[1] == ComparisonMode.none and len(calls) == 2
print("PASS" if ok else "FAIL"); sys.exit(0 if ok else 1)
