"""D35: _sync_trait_items_modified did arithmetic on event.index, which is a
slice for extended-slice assignments/deletions: the handler raised TypeError
(logged) and the synchronised lists diverged.  Found by C20.items-index-kinds
(after a sub-agent report).  Exits 1 while the defect is present."""
from traits.api import HasTraits, List, Int, push_exception_handler
push_exception_handler(lambda *a: None, reraise_exceptions=False)
class A(HasTraits):
    l = List(Int)
a, b = A(), A()
a.sync_trait('l', b)
a.l = [1, 2, 3, 4, 5, 6]
ok = True
a.l[::2] = [7, 8, 9]
print("after a.l[::2] = [7,8,9]:", a.l, b.l); ok &= a.l == b.l
del a.l[::2]
print("after del a.l[::2]:", a.l, b.l); ok &= a.l == b.l
b.l[1:3] = [0]
print("after b.l[1:3] = [0]:", a.l, b.l); ok &= a.l == b.l
print("PASS" if ok else "FAIL")
raise SystemExit(0 if ok else 1)
