"""D39 (C18): has_traits_setattro / has_traits_getattro / _has_traits_items_event /
setattr_delegate handed a trait that is only *borrowed* from the trait
dictionaries to its setter/getter.  A validator (or callable default) that
removes the instance trait frees the CTrait while the C handler still uses it
(traitd->flags, ->post_setattr, ->notifiers): SIGSEGV."""
import os, sys; sys.path.insert(0, os.getcwd())
import subprocess
PRE = "import os,sys; sys.path.insert(0, os.getcwd())\nfrom traits.api import *\n"
EVIL = '''
class Evil(TraitType):
    default_value = 0
    def validate(self, obj, name, value):
        obj.remove_trait(name)
        junk = [bytearray(200) for _ in range(2000)]
        return value
    def post_setattr(self, obj, name, value): pass
class A(HasTraits): pass
'''
cases = {
 "assignment (has_traits_setattro)": EVIL + '''
for i in range(50):
    a = A(); a.add_trait('x', Evil()); a.on_trait_change(lambda *a: None, 'x'); a.x = i
print('ok')''',
 "default (has_traits_getattro)": '''
class Evil(TraitType):
    def get_default_value(self): return (8, self._mk)
    def _mk(self, obj):
        obj.remove_trait('x'); junk = [bytearray(200) for _ in range(2000)]; return 7
    def post_setattr(self, obj, name, value): pass
class A(HasTraits): pass
for i in range(50):
    a = A(); a.add_trait('x', Evil()); a.on_trait_change(lambda *a: None, 'x'); a.x
print('ok')''',
 "delegated assignment (setattr_delegate)": EVIL + '''
class D(HasTraits):
    t = Instance(A)
    x = DelegatesTo('t')
for i in range(50):
    a = A(); a.add_trait('x', Evil()); a.on_trait_change(lambda *a: None, 'x')
    d = D(t=a); d.x = i
print('ok')''',
 "items event (_has_traits_items_event)": EVIL + '''
for i in range(50):
    a = A(); a.add_trait('l_items', Event(Evil())); a.on_trait_change(lambda *a: None, 'l_items')
    a.trait_items_event('l_items', i, Event().as_ctrait())
print('ok')''',
}
bad = []
for name, code in cases.items():
    env = dict(os.environ, PYTHONMALLOC="debug")
    r = subprocess.run([sys.executable, "-c", PRE + code], capture_output=True, text=True, env=env)
    ok = r.returncode == 0 and "ok" in r.stdout
    print(name, "->", "exit", r.returncode, r.stdout.strip()[:40], r.stderr.strip().splitlines()[-1:] if not ok else "")
    if not ok:
        bad.append(name)
print("FAIL" if bad else "PASS", bad)
sys.exit(1 if bad else 0)
