import os, sys; sys.path.insert(0, os.getcwd())
from traits.api import HasTraits, Instance, DelegatesTo, Int

class A(HasTraits):
    other = Instance(HasTraits)
    value = DelegatesTo("other")

a, b = A(), A()
a.other = b
b.other = a
try:
    print(a.value)
except Exception as e:
    print("getattr raised", type(e).__name__, str(e)[:80])
try:
    a.value = 3
except Exception as e:
    print("setattr raised", type(e).__name__, str(e)[:80])
try:
    a.copy_traits(b, traits=["value"])
except Exception as e:
    print("copy_traits raised", type(e).__name__, str(e)[:80])
print("alive")
