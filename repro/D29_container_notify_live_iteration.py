import os, sys; sys.path.insert(0, os.getcwd())
from traits.api import HasTraits, List, Int
class B(HasTraits):
    values = List(Int)
b = B(values=[1])
calls = []
def one_shot(event):
    calls.append("one_shot")
    b.observe(one_shot, "values.items", remove=True)
def other(event):
    calls.append("other")
b.observe(one_shot, "values.items")
b.observe(other, "values.items")
b.values.append(2)
print(calls)
ok = calls == ["one_shot", "other"]
print("PASS" if ok else "FAIL")
sys.exit(0 if ok else 1)
