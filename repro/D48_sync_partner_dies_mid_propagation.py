"""D48 (C20): the propagation handlers walk a snapshot of the links (D36) and
dereference each weakly held partner without testing for None.  A partner
that is garbage collected while an earlier partner's handler runs is still
in the snapshot: `None._get_sync_trait_info()` raises AttributeError inside
the handler, `del locked[name]` is skipped and the name stays locked - every
later update coming from another partner is dropped for good.
Exits 0 when propagation still works afterwards."""
import os, sys; sys.path.insert(0, os.getcwd())
import gc, logging
from traits.api import HasTraits, Int, List, push_exception_handler
push_exception_handler(lambda *a: None, reraise_exceptions=False)
logging.disable(logging.CRITICAL)

class A(HasTraits):
    x = Int()
    l = List(Int)

bad = []
for attr, v1, v2 in (("x", 1, 2), ("l", [1], [2])):
    hub, first, back = A(), A(), A()
    holder = {"victim": A()}
    hub.sync_trait(attr, first, mutual=False)
    hub.sync_trait(attr, holder["victim"], mutual=False)
    back.sync_trait(attr, hub, mutual=True)       # hub <-> back
    def killer(*args):
        holder.pop("victim", None); gc.collect()
    first.on_trait_change(killer, attr)
    setattr(hub, attr, v1)                        # victim dies mid-propagation
    lock = hub.__sync_trait__[""]
    if attr in lock:
        bad.append((attr, "lock leaked", dict(lock)))
    setattr(back, attr, v2)                       # must still reach the hub
    if getattr(hub, attr) != v2:
        bad.append((attr, "update from partner dropped", getattr(hub, attr)))
    if attr == "l":
        hub, first = A(), A()
        holder = {"victim": A()}
        hub.sync_trait("l", first, mutual=False)
        hub.sync_trait("l", holder["victim"], mutual=False)
        first.on_trait_change(killer, "l_items")
        hub.l.append(5)
        if "l" in hub.__sync_trait__[""]:
            bad.append(("l_items", "lock leaked"))
print(bad)
sys.exit(1 if bad else 0)
