import os, sys; sys.path.insert(0, os.getcwd())
from traits.api import HasTraits, List, Int
from traits.trait_list_object import TraitList
class I:
    def __init__(self, n): self.n = n
    def __index__(self): return self.n
bad = []
for n in (0, 1, 2, 3):
    ref = [1, 2]; ref *= I(n)
    tl = TraitList([1, 2]); ev = []
    tl.notifiers.append(lambda *a: ev.append(a[1:]))
    try:
        tl *= I(n)
    except TypeError as e:
        bad.append(("TraitList", n, "TypeError")); continue
    if list(tl) != ref: bad.append(("TraitList", n, list(tl)))
class A(HasTraits):
    l = List(Int, maxlen=4)
a = A(l=[1, 2])
try:
    a.l *= I(2)
    if a.l != [1, 2, 1, 2]: bad.append(("TraitListObject", a.l))
except TypeError: bad.append(("TraitListObject", "TypeError"))
# non-integers still rejected with TypeError and untouched
for v in (2.5, 0.5, "5", None):
    tl = TraitList([1, 2])
    try:
        tl *= v; bad.append(("accepted", v))
    except TypeError: pass
    if list(tl) != [1, 2]: bad.append(("touched", v, list(tl)))
print("FAIL" if bad else "PASS", bad); sys.exit(1 if bad else 0)
