import os, sys; sys.path.insert(0, os.getcwd())
from traits.api import HasTraits, Instance, Int

class Child(HasTraits):
    v = Int()

class P(HasTraits):
    child = Instance(Child, ())

calls = []
p = P()
first = p.child
p.observe(lambda e: calls.append((e.object, e.new)), "child.v")
del p.child
c2 = p.child            # re-materialised default
print("c2 is first:", c2 is first)
p.child = Child()       # c2 detached
c2.v = 7
print("calls on detached default:", [c for c in calls if c[0] is c2])
import traits; print(traits.__file__)
