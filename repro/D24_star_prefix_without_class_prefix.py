import os, sys; sys.path.insert(0, os.getcwd())
from traits.api import HasTraits, Instance, DelegatesTo, Int
class T(HasTraits):
    x = Int(3)
class D(HasTraits):
    t = Instance(T, ())
    x = DelegatesTo("t", prefix="*")
try:
    d = D()
    print(d.x)
except Exception as e:
    print(type(e).__name__, e)
calls = []
d.on_trait_change(lambda new: calls.append(new), "x")
d.t.x = 9
print("notified through the delegate:", calls)
sys.exit(0 if calls == [9] else 1)
