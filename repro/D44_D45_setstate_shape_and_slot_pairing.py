import os, sys; sys.path.insert(0, os.getcwd())
import subprocess
cases = {
"setstate post_setattr index 0 on a plain trait": '''
from traits.api import Int, HasTraits; from traits.ctrait import CTrait
s = list(Int(3).as_ctrait().__getstate__()); s[2] = 0
t = CTrait(0)
try:
    t.__setstate__(tuple(s))
except ValueError:
    print("ok rejected"); raise SystemExit
class A(HasTraits): pass
a = A(); a.add_trait('x', t); a.x = 5
print("ok")''',
"setstate validated property with python post_setattr index": '''
from traits.api import Int, HasTraits, Property; from traits.ctrait import CTrait
class P(HasTraits):
    p = Property(Int)
    def _get_p(self): return 1
    def _set_p(self, v): self.__dict__['_p'] = v
t0 = P().trait('p')
s = list(t0.__getstate__()); s[2] = 4
t = CTrait(0)
try:
    t.__setstate__(tuple(s))
except ValueError:
    print("ok rejected"); raise SystemExit
class A(HasTraits): pass
a = A(); a.add_trait('x', t); a.x = 5
print("ok")''',
"post_setattr assigned on a validated property trait": '''
from traits.api import Int, HasTraits, Property
class P(HasTraits):
    p = Property(Int)
    def _get_p(self): return 1
    def _set_p(self, v): self.__dict__['_p'] = v
t = P().trait('p')
try:
    t.post_setattr = lambda *a: None
except (ValueError, TypeError, AttributeError) as e:
    print("ok rejected", type(e).__name__); raise SystemExit
class A(HasTraits): pass
a = A(); a.add_trait('x', t); a.x = 5
print("ok")''',
"setstate default_value_type 7 with empty tuple": '''
from traits.api import Int, HasTraits; from traits.ctrait import CTrait
s = list(Int(3).as_ctrait().__getstate__()); s[6] = 7; s[7] = ()
t = CTrait(0)
try:
    t.__setstate__(tuple(s))
except ValueError:
    print("ok rejected"); raise SystemExit
class A(HasTraits): pass
a = A(); a.add_trait('x', t); a.x
print("ok")''',
"setstate default_value_type 99": '''
from traits.api import Int, HasTraits; from traits.ctrait import CTrait
s = list(Int(3).as_ctrait().__getstate__()); s[6] = 99
t = CTrait(0)
try:
    t.__setstate__(tuple(s))
except ValueError:
    print("ok rejected"); raise SystemExit
class A(HasTraits): pass
a = A(); a.add_trait('x', t)
try:
    a.x
except SystemError as e:
    print("SystemError"); raise SystemExit(3)
print("ok")''',
}
bad=[]
for name, code in cases.items():
    r = subprocess.run([sys.executable, "-c", "import os,sys; sys.path.insert(0, os.getcwd())\n"+code], capture_output=True, text=True, env=dict(os.environ, PYTHONMALLOC="debug"))
    ok = r.returncode == 0 and "ok" in r.stdout
    print(name, "->", "exit", r.returncode, r.stdout.strip()[:40])
    if not ok: bad.append(name)
print("FAIL" if bad else "PASS", bad); sys.exit(1 if bad else 0)
