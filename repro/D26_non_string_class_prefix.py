import os, sys; sys.path.insert(0, os.getcwd())
from traits.api import HasTraits, Instance, DelegatesTo, Int
class T(HasTraits):
    x = Int(3)
class D(HasTraits):
    __prefix__ = 5
    t = Instance(T, ())
    x = DelegatesTo("t", prefix="*", listenable=False)
d = D()
try:
    print(d.x)
except Exception as e:
    print("getattr:", type(e).__name__, e)
try:
    d.x = 4
except Exception as e:
    print("setattr:", type(e).__name__, e)
print("alive")
