import os, sys; sys.path.insert(0, os.getcwd())
from traits.api import HasTraits, Set, Int
from traits.trait_set_object import TraitSet
class A(HasTraits):
    s = Set(Int)
bad=[]
a = A(); a.s = {1, 2, 3}
ev=[]
a.observe(lambda e: ev.append((set(e.removed), set(e.added))), "s:items")
a.s.intersection_update({1.0, 2.0})
print(a.s, ev)
if not all(type(x) is int for x in a.s) or a.s != {1,2} or ev != [({3}, set())]: bad.append("intersection_update")
a.s = {1, 2, 3}; ev.clear()
try:
    a.s &= {1.0, 2.0}
except Exception as e:
    print("ERR", type(e).__name__); bad.append("iand raised")
print(a.s, ev)
if not all(type(x) is int for x in a.s) or a.s != {1,2}: bad.append("__iand__")
# non-set operand of &= : TypeError, untouched, like set
ts = TraitSet({1,2}); 
try:
    ts &= [1]; bad.append("iand list accepted")
except TypeError: pass
assert ts == {1,2}
# failing operand leaves the set untouched and silent
ts = TraitSet({1,2,3}); log=[]; ts.notifiers.append(lambda *a: log.append(a))
try: ts.intersection_update([1], 5)
except TypeError: pass
if ts != {1,2,3} or log: bad.append("failing intersection_update not atomic")
ts.intersection_update(); assert ts == {1,2,3} and not log
ts.intersection_update([1,2],[2,3]); assert ts == {2} and log[-1][1] == {1,3}, (ts, log)
print("FAIL" if bad else "PASS", bad); sys.exit(1 if bad else 0)
