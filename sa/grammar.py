"""E-GR: grammar facts.  The tables embedded in the generated stand-alone
parser are read with ``ast`` (never imported); the .lark source is read with
lark's grammar loader (used as a grammar reader only)."""
from __future__ import annotations

import ast
import glob
import os
import sys

from .core import AnalysisError

GEN = "traits/observation/_generated_parser.py"
LARK = "traits/observation/_dsl_grammar.lark"
END = "$END"


class Rule:
    __slots__ = ("origin", "expansion", "alias", "expand1", "keep_all",
                 "filter_out", "order", "rid")

    def __init__(self, origin, expansion, alias, expand1, keep_all,
                 filter_out, order=0, rid=None):
        self.origin = origin
        self.expansion = tuple(expansion)      # symbol names
        self.alias = alias
        self.expand1 = expand1
        self.keep_all = keep_all
        self.filter_out = tuple(filter_out)    # parallel to expansion (bool)
        self.order = order
        self.rid = rid

    def key(self):
        return (self.origin, self.expansion, self.alias, self.expand1,
                self.keep_all, self.filter_out)

    def kept(self):
        return [s for s, f in zip(self.expansion, self.filter_out)
                if not f or self.keep_all]

    def __repr__(self):
        return f"{self.origin} -> {' '.join(self.expansion) or 'ε'}"


class Grammar:
    def __init__(self, rules, terminals, start, ignore=()):
        self.rules = rules
        self.terminals = terminals      # name -> pattern string
        self.start = start
        self.ignore = tuple(ignore)
        self.nonterminals = sorted({r.origin for r in rules})

    def token_alphabet(self):
        return sorted(t for t in self.terminals if t not in self.ignore)

    # -- classic analyses ---------------------------------------------------

    def nullable(self):
        nul = set()
        changed = True
        while changed:
            changed = False
            for r in self.rules:
                if r.origin not in nul and all(s in nul for s in r.expansion):
                    nul.add(r.origin)
                    changed = True
        return nul

    def first(self):
        nul = self.nullable()
        first = {n: set() for n in self.nonterminals}
        changed = True
        while changed:
            changed = False
            for r in self.rules:
                for s in r.expansion:
                    add = first[s] if s in first else {s}
                    if not add <= first[r.origin]:
                        first[r.origin] |= add
                        changed = True
                    if s not in nul:
                        break
        return first

    def follow(self):
        nul, first = self.nullable(), self.first()
        follow = {n: set() for n in self.nonterminals}
        follow[self.start].add(END)
        changed = True
        while changed:
            changed = False
            for r in self.rules:
                for i, s in enumerate(r.expansion):
                    if s not in follow:
                        continue
                    add = set()
                    rest_nullable = True
                    for t in r.expansion[i + 1:]:
                        add |= first[t] if t in first else {t}
                        if t not in nul:
                            rest_nullable = False
                            break
                    if rest_nullable:
                        add |= follow[r.origin]
                    if not add <= follow[s]:
                        follow[s] |= add
                        changed = True
        return follow

    def reachable(self):
        seen, todo = {self.start}, [self.start]
        while todo:
            a = todo.pop()
            for r in self.rules:
                if r.origin == a:
                    for s in r.expansion:
                        if s not in seen:
                            seen.add(s)
                            todo.append(s)
        return seen

    def language(self, n):
        """All terminal strings (tuples of terminal names) of length <= n
        derivable from the start symbol (bottom-up fixpoint over strings in
        which every terminal is one character)."""
        terms = sorted({s for r in self.rules for s in r.expansion
                        if s not in self.nonterminals})
        code = {t: chr(65 + i) for i, t in enumerate(terms)}
        back = {v: k for k, v in code.items()}
        lang = {a: set() for a in self.nonterminals}
        changed = True
        while changed:
            changed = False
            for r in self.rules:
                parts = {""}
                for s in r.expansion:
                    opts = lang[s] if s in lang else (code[s],)
                    new = set()
                    for p in parts:
                        room = n - len(p)
                        for o in opts:
                            if len(o) <= room:
                                new.add(p + o)
                    parts = new
                    if not parts:
                        break
                if not parts <= lang[r.origin]:
                    lang[r.origin] |= parts
                    changed = True
        return {tuple(back[c] for c in w) for w in lang[self.start]}


# ---------------------------------------------------------------------------
# embedded tables

def _lit(node):
    """Restricted literal evaluator: Token(a, b) -> b."""
    if isinstance(node, ast.Constant):
        return node.value
    if isinstance(node, ast.Dict):
        return {_lit(k): _lit(v) for k, v in zip(node.keys, node.values)}
    if isinstance(node, (ast.List, ast.Tuple)):
        return [_lit(e) for e in node.elts]
    if isinstance(node, ast.Set):
        return {_lit(e) for e in node.elts}
    if isinstance(node, ast.Call) and isinstance(node.func, ast.Name) \
            and node.func.id == "Token" and len(node.args) == 2:
        return _lit(node.args[1])
    if isinstance(node, ast.UnaryOp) and isinstance(node.op, ast.USub):
        return -_lit(node.operand)
    raise AnalysisError(f"unexpected construct in parser tables: "
                        f"{ast.dump(node)[:80]}")


class Embedded:
    """Rules, terminals and LALR table of the generated parser."""

    def __init__(self, ctx):
        src = ctx.read(GEN)
        tree = ast.parse(src)
        data = memo = None
        for s in tree.body:
            if isinstance(s, ast.Assign) and len(s.targets) == 1 \
                    and isinstance(s.targets[0], ast.Name):
                if s.targets[0].id == "DATA":
                    data = _lit(s.value)
                elif s.targets[0].id == "MEMO":
                    memo = _lit(s.value)
        if data is None or memo is None:
            raise AnalysisError("DATA/MEMO not found in the generated parser")
        self.data, self.memo = data, memo

        def deref(x):
            return memo[x["@"]] if isinstance(x, dict) and "@" in x else x
        p = data["parser"]
        terminals = {}
        for t in p["lexer_conf"]["terminals"]:
            t = deref(t)
            terminals[t["name"]] = (t["pattern"]["value"],
                                    t["pattern"]["__type__"])
        rules = []
        self.rule_by_id = {}
        for ref in p["parser_conf"]["rules"]:
            r = deref(ref)
            opts = r.get("options") or {}
            exp = [s["name"] for s in r["expansion"]]
            fo = [bool(s.get("filter_out")) for s in r["expansion"]]
            rule = Rule(r["origin"]["name"], exp, r.get("alias"),
                        bool(opts.get("expand1")),
                        bool(opts.get("keep_all_tokens")), fo,
                        r.get("order", 0), ref["@"])
            rules.append(rule)
            self.rule_by_id[ref["@"]] = rule
        start = p["parser_conf"]["start"]
        self.grammar = Grammar(rules, {k: v[0] for k, v in terminals.items()},
                               start[0], p["lexer_conf"].get("ignore", ()))
        self.terminal_types = {k: v[1] for k, v in terminals.items()}
        tab = p["parser"]
        self.tokens = tab["tokens"]                 # id -> name
        self.tok_id = {v: k for k, v in self.tokens.items()}
        self.states = tab["states"]
        self.bad_reductions = {}
        self.start_state = tab["start_states"][start[0]]
        self.end_state = tab["end_states"][start[0]]

    def accepts(self, toks):
        try:
            return self._accepts(toks)
        except (IndexError, KeyError, TypeError):
            return None          # the table itself is inconsistent

    def _accepts(self, toks):
        """Run the LALR table on a token-name sequence (table interpreter
        written here; the shipped parser code is not executed)."""
        stack = [self.start_state]
        syms = []                # grammar symbols shifted / reduced so far
        seq = list(toks) + [END]
        i = 0
        steps = 0
        while True:
            steps += 1
            if steps > 10000:
                raise AnalysisError("LALR table interpreter does not halt")
            st = stack[-1]
            tok = seq[i]
            tid = self.tok_id.get(tok)
            act = self.states.get(st, {}).get(tid)
            if act is None:
                return False
            kind, arg = act
            if kind == 0:            # shift
                stack.append(arg)
                syms.append(tok)
                i += 1
                if tok == END:
                    return st != self.end_state or True
            else:                    # reduce
                rule = self.rule_by_id[arg["@"]]
                n = len(rule.expansion)
                # a reduction is only meaningful when the symbols on the
                # stack are the rule's right-hand side: otherwise the table
                # builds a different tree than the rules describe
                if (syms[-n:] if n else []) != list(rule.expansion):
                    self.bad_reductions.setdefault(
                        (st, tok, arg["@"]),
                        (tuple(syms[-n:] if n else ()), tuple(toks)))
                if n:
                    del stack[-n:]
                    del syms[-n:]
                syms.append(rule.origin)
                goto = self.states.get(stack[-1], {}).get(
                    self.tok_id.get(rule.origin))
                if goto is None:
                    return False
                stack.append(goto[1])
                if rule.origin == self.grammar.start and tok == END \
                        and stack[-1] == self.end_state:
                    return True


def get_embedded(ctx):
    return ctx.memo("embedded-grammar", lambda: Embedded(ctx))


# ---------------------------------------------------------------------------
# .lark source through lark's loader

def _import_lark():
    try:
        import lark  # noqa: F401
        return lark
    except ImportError:
        pass
    wheels = sorted(glob.glob("/opt/veriftools/wheels/lark-*.whl"))
    if not wheels:
        raise AnalysisError("lark wheel not found in the wheelhouse")
    sys.path.insert(0, wheels[-1])
    import lark
    return lark


def load_lark_grammar(ctx):
    def compute():
        lark = _import_lark()
        text = ctx.read(LARK)
        try:
            # earley: only the grammar is compiled, no LALR table is built
            # (so that an ambiguous edit of the source is still *read*)
            L = lark.Lark(text, parser="earley", lexer="basic",
                          start="start")
        except Exception as e:
            raise AnalysisError(f"lark cannot load {LARK}: {e}")
        rules = []
        for r in L.rules:
            exp = [s.name for s in r.expansion]
            fo = [bool(getattr(s, "filter_out", False)) for s in r.expansion]
            o = r.options
            rules.append(Rule(str(r.origin.name), exp, r.alias,
                              bool(o.expand1), bool(o.keep_all_tokens), fo,
                              r.order))
        terms = {t.name: t.pattern.value for t in L.terminals}
        return Grammar(rules, terms, "start", L.ignore_tokens)
    return ctx.memo("lark-grammar", compute)
