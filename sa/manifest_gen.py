"""Regenerate /verif/MANIFEST.json from the rule registry and propmeta."""
from __future__ import annotations

import json
import os

from . import core
from .propmeta import META
from .run import PROPS, load_rules

PY = "/venv/bin/python"

NOT_APPLICABLE = {
    "C17": ("completeness and minimality of a priority-queue search over "
            "adaptation offers registered at run time: the offer graph, MRO "
            "and factory results exist only at run time, and any rule tied to "
            "the current shape of the 40-line loop would also fire on a "
            "correct re-implementation; no structural clause is a genuine "
            "necessary condition (static analysis family only)"),
}

LEVEL_TEXT = {
    "other": "static analysis of /repo's current source: {what} Chosen "
             "because the property quantifies over all inputs/histories, which "
             "no execution samples; the structural clauses hold for every "
             "path at once. The behavioural statement as a whole is NOT "
             "decided (partial claim; see DESIGN.md).",
}


def main():
    load_rules()
    checks, na = [], []
    for p in PROPS:
        rules = core.rules_for(p)
        if p in NOT_APPLICABLE or not rules:
            na.append({"property_id": p,
                       "reason": NOT_APPLICABLE.get(
                           p, "no sound static rule built for this property "
                              "(see DESIGN.md)")})
            continue
        m = META[p]
        level = m.get("level", "other")
        what = m["explanation"].split("Decided", 1)[-1]
        what = "Decided" + what
        checks.append({
            "property_id": p,
            "quick_cmd": f"{PY} -m sa.run {p} --tier quick",
            "thorough_cmd": f"{PY} -m sa.run {p} --tier thorough",
            "evidence_file": f"/verif/evidence/{p}.json",
            "replay_cmd_template": f"{PY} -m sa.run --replay {{path}}",
            "engine": "sa",
            "level_claimed": {
                "category": level,
                "text": LEVEL_TEXT["other"].format(what=what),
                "design_ref": f"DESIGN.md section 2, {p}",
            },
            "level_note": "trusted base: " + "; ".join(m["trusted_base"])
                          + ". Rules: " + ", ".join(r for r, _, _ in rules),
            "technique": m.get("technique",
                               "static analysis: custom AST/CFG dataflow, "
                               "typestate and table-agreement checkers"),
        })
    man = {
        "version": 1,
        "setup_cmd": f"{PY} -m sa.setup",
        "hooks": {
            "guard": "ENTHOUGHT_TRAITS_VERIF",
            "enable": "no hooks: the checks only read source files under "
                      "/repo, nothing is executed or instrumented",
            "baseline_off_cmd": "cd /repo && /venv/bin/python -m pytest -ra -q "
                                "-p no:cacheprovider --timeout=900 "
                                "--continue-on-collection-errors",
            "source_commits": [],
            "add_only": True,
        },
        "engines": [{
            "name": "sa",
            "path": "/verif/sa",
            "serves_properties": [c["property_id"] for c in checks],
            "kind_free_text": "repository-specific static analyser: Python "
                              "ast + CFG + path-sensitive dataflow; clang JSON "
                              "AST + CFG + decision tables for ctraits.c; "
                              "grammar-table analyses",
        }],
        "checks": checks,
        "not_applicable": na,
        "notes": "All checks are static (source is read, never imported or "
                 "run). Exit 2 + ANALYSIS-ERROR means the analysis could not "
                 "be carried out (vanished anchor / idiom), never a pass. "
                 "Known findings: /verif/known_findings.json.",
    }
    core.write_json(os.path.join(core.VERIF, "MANIFEST.json"), man)
    print(f"MANIFEST.json: {len(checks)} checks, {len(na)} not applicable")


if __name__ == "__main__":
    main()
