"""Path-sensitive event flow over a C CFG (counterpart of pyflow.PyFlow)."""
from __future__ import annotations

from . import cfg as cfgmod
from .cexpr import strip
from .cfacts import CREL


def eval_order(n):
    """Sub-expressions in evaluation order (operands before operators,
    arguments before the call)."""
    for c in n.ch:
        yield from eval_order(c)
    yield n


class CFlow:
    def __init__(self, facts, cfg, fname):
        self.facts, self.cfg, self.fname = facts, cfg, fname
        self.flags = []
        self._cur = None

    # -- to override -----------------------------------------------------

    def step(self, state, e, node):
        """called for every sub-expression of a node, in evaluation order"""
        return state

    def assume(self, cond, truth, state):
        return state

    def on_return(self, node, state):
        return state

    def on_exit(self, state):
        pass

    # -- machinery ---------------------------------------------------------

    def flag(self, key, msg):
        self.flags.append((self._cur[0], self._cur[1], key, msg))

    def transfer(self, node, state):
        self._cur = (node.id, state)
        st = state
        if node.ast is not None:
            for e in eval_order(node.ast):
                st = self.step(st, e, node)
                if st is None:
                    return []
        if node.kind == "cond":
            outs = []
            for lab in ("T", "F"):
                r = self.assume(node.ast, lab == "T", st)
                if r is not None:
                    outs.append((lab, r))
            return outs
        if node.kind == "switch":
            outs = []
            for lab, tgt in self.cfg.succ[node.id]:
                r = self.assume_case(node.ast, lab, st)
                if r is not None:
                    outs.append((lab, r))
            return outs
        if node.kind == "return":
            st = self.on_return(node, st)
            if st is None:
                return []
        return [(None, st)]

    def assume_case(self, expr, label, state):
        return state

    def run(self, init):
        self.states, self.parent = cfgmod.propagate(
            self.cfg, init, self.transfer)
        for st in self.states[self.cfg.exit.id]:
            self._cur = (self.cfg.exit.id, st)
            self.on_exit(st)
        return self.states

    def findings(self):
        seen = {}
        for nid, st, key, msg in self.flags:
            if key in seen:
                continue
            p = cfgmod.witness(self.cfg, self.parent, nid, st)
            lines = cfgmod.path_lines(self.cfg, p, CREL)
            line = self.cfg.nodes[nid].line
            if not line and lines:
                line = int(lines[-1].rsplit(":", 1)[1])
            seen[key] = (key, msg, f"{CREL}:{line}", lines)
        return list(seen.values())
