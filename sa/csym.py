"""Symbolic path enumeration over a C CFG: along each acyclic path (loops
0/1) locals are replaced by the expression last assigned to them, so that
conditions and call arguments are expressed over the function's inputs."""
from __future__ import annotations

from .cexpr import callee, cnorm, strip, var
from .core import AnalysisError


class Sym:
    GLOBALS = frozenset()      # names of file-scope variables (set by cfacts)

    def __init__(self, seed=None):
        self.env = dict(seed or {})

    def text(self, n):
        n = strip(n)
        if n is None:
            return "?"
        k = n.kind
        T = self.text
        if k == "DeclRefExpr":
            nm = n.ref or "?"
            if n.refkind in ("VarDecl", "ParmVarDecl") and nm in self.env:
                return self.env[nm]
            return nm
        if k == "BinaryOperator" and n.op == "=":
            v = var(n.ch[0])
            rhs = T(n.ch[1])
            if v:
                self.env[v] = rhs
                return rhs
            lhs = strip(n.ch[0])
            if lhs.kind == "MemberExpr":
                lt = f"{T(lhs.ch[0])}{'->' if lhs.arrow else '.'}{lhs.name}"
                self.env[lt] = rhs
                return rhs
            return f"({T(n.ch[0])} = {rhs})"
        if k == "UnaryOperator" and n.op in ("++", "--"):
            v = var(n.ch[0])
            if v:
                old = self.env.get(v, v)
                self.env[v] = f"({old}{n.op[0]}1)"
                return old if (n.extra or {}).get("postfix") else self.env[v]
        if k == "MemberExpr":
            t = f"{T(n.ch[0])}{'->' if n.arrow else '.'}{n.name}"
            return self.env.get(t, t)
        if k == "IntegerLiteral":
            return str(n.value)
        if k in ("FloatingLiteral", "CharacterLiteral", "StringLiteral"):
            return str(n.value)
        if k == "CallExpr":
            c = callee(n)
            f = c if c != "?" and not c.startswith("->") else T(n.ch[0])
            txt = f"{f}({', '.join(T(a) for a in n.ch[1:])})"
            # out-parameters: `&local` passed to a call is overwritten by it
            for a in n.ch[1:]:
                sa = strip(a)
                if sa is not None and sa.kind == "UnaryOperator" \
                        and sa.op == "&":
                    v = var(sa.ch[0])
                    tgt = strip(sa.ch[0])
                    # only function-local variables are out-parameters;
                    # `&global` (e.g. Py_None) is just an address
                    if v and v not in Sym.GLOBALS and not v.startswith("_Py_") \
                            and tgt.refkind in ("VarDecl", "ParmVarDecl"):
                        k = self.env.get("#out:" + v, 0) + 1
                        self.env["#out:" + v] = k
                        self.env[v] = f"out{k}({v})"
            return txt
        if k in ("BinaryOperator", "CompoundAssignOperator"):
            l, r = T(n.ch[0]), T(n.ch[1])
            if k == "CompoundAssignOperator":
                v = var(n.ch[0])
                if v:
                    self.env[v] = f"({l} {n.op[:-1]} {r})"
                    return self.env[v]
                lhs = strip(n.ch[0])
                if lhs.kind == "MemberExpr":
                    lt = f"{T(lhs.ch[0])}{'->' if lhs.arrow else '.'}{lhs.name}"
                    self.env[lt] = f"({l} {n.op[:-1]} {r})"
                    return self.env[lt]
            if n.op in ("==", "!=", "+", "*", "&", "|") and r < l:
                l, r = r, l
            return f"({l} {n.op} {r})"
        if k == "UnaryOperator":
            return f"{n.op}{T(n.ch[0])}"
        if k == "ArraySubscriptExpr":
            return f"{T(n.ch[0])}[{T(n.ch[1])}]"
        if k == "ConditionalOperator":
            return f"({T(n.ch[0])} ? {T(n.ch[1])} : {T(n.ch[2])})"
        if k == "VarDecl":
            init = [c for c in n.ch if c.kind != "UnusedAttr"]
            if init:
                self.env[n.name] = T(init[-1])
                return self.env[n.name]
            return n.name
        return cnorm(n)


# calls whose result changes between two evaluations with the same arguments
STATEFUL = ("PyDict_Next(",)
# dictionary lookups: their result reflects the heap at the time of the call
LOOKUPS = {"PyDict_GetItem", "PyDict_GetItemWithError", "dict_getitem"}
LOOKUP_TEXTS = ("dict_getitem(", "PyDict_GetItem(", "PyDict_GetItemWithError(")
# in-file helpers inferred to be lookups (set by cfacts for the current source)
EXTRA_LOOKUPS = frozenset()


class SymPath:
    """trace: ordered list of
         ('atom', text, truth, node_id)
         ('call', callee, [arg texts], full text, line, stmt_level)
         ('store', field text, value text, line)"""
    __slots__ = ("trace", "outcome", "lines", "nodes", "env")

    def __init__(self, trace, outcome, lines, nodes, env=None):
        self.trace = trace
        self.outcome = outcome    # ('RETURN', text) | ('STOP', tag) | ('END',)
        self.lines = lines
        self.nodes = nodes
        self.env = env or {}      # symbolic values of locals/fields at the end

    @property
    def atoms(self):
        return [(t[1], t[2], t[3]) for t in self.trace if t[0] == "atom"]

    @property
    def events(self):
        return [t[1:] for t in self.trace if t[0] == "call"]

    def feasible(self):
        """no atom text with contradictory truth values, constant atoms
        folded.  A dictionary lookup that is *evaluated again* after a call
        that runs Python code may give a different answer (`retry` after
        add_trait): atoms are keyed by their text and by the epoch in which
        each lookup they contain was last evaluated, so a value kept in a
        local stays consistent while a repeated lookup may flip."""
        from .capi import API
        seen = {}
        epoch = 0
        eval_epoch = {}
        for it in self.trace:
            if it[0] == "call":
                c = it[1]
                if c in LOOKUPS or c in EXTRA_LOOKUPS:
                    eval_epoch[it[3]] = epoch
                elif (c in API and API[c]["python"]) or c.startswith("->"):
                    epoch += 1
                continue
            if it[0] != "atom":
                continue
            text, truth = it[1], it[2]
            if not isinstance(truth, bool):
                continue
            # one spelling per comparison: `(a != b)` is `(a == b)` negated
            if text.startswith("(") and " != " in text:
                sp_ = _split_top(text, " != ")
                if sp_ is not None:
                    text, truth = f"({sp_[0]} == {sp_[1]})", not truth
            c = _fold(text)
            if c is not None and c != truth:
                return False
            if any(f in text for f in STATEFUL):
                continue        # iterator-like call: may legitimately flip
            key = text
            if eval_epoch and (any(l in text for l in LOOKUP_TEXTS) or any(
                    (x + "(") in text for x in EXTRA_LOOKUPS)):
                key = (text, tuple(sorted((L, e) for L, e in eval_epoch.items()
                                          if L in text)))
            if seen.setdefault(key, truth) != truth:
                return False
        return True


def _split_top(text, op):
    """operands of a parenthesised binary expression `(a <op> b)` whose
    operator is at nesting depth 1; None otherwise"""
    if not (text.startswith("(") and text.endswith(")")):
        return None
    d = 0
    for i, ch in enumerate(text):
        if ch == "(":
            d += 1
        elif ch == ")":
            d -= 1
            if d == 0 and i != len(text) - 1:
                return None
        elif d == 1 and text.startswith(op, i):
            return text[1:i], text[i + len(op):-1]
    return None


def _fold(text):
    import re
    m = re.fullmatch(r"\((-?\d+) (==|!=|<|<=|>|>=) (-?\d+)\)", text)
    if m:
        a, op, b = int(m.group(1)), m.group(2), int(m.group(3))
        return {"==": a == b, "!=": a != b, "<": a < b, "<=": a <= b,
                ">": a > b, ">=": a >= b}[op]
    if re.fullmatch(r"-?\d+", text):
        return int(text) != 0
    return None


def _calls_in_order(n, out):
    for c in n.ch:
        _calls_in_order(c, out)
    if n.kind == "CallExpr":
        out.append(n)


def _stores_in_order(n, out):
    """assignments whose target is a struct field or array element"""
    for c in n.ch:
        _stores_in_order(c, out)
    if n.kind == "BinaryOperator" and n.op == "=":
        lhs = strip(n.ch[0])
        if lhs is not None and (lhs.kind in ("MemberExpr",
                                             "ArraySubscriptExpr")
                                or (lhs.kind == "UnaryOperator"
                                    and lhs.op == "*")):
            out.append(n)


# ---------------------------------------------------------------------------
# transparent single-use helpers
#
# A static function that is called from exactly one place in the file and
# whose address is never taken is the result of "extract function": for the
# path rules it is part of its caller.  Its symbolic paths are spliced into
# the caller's path at the call (`x = h(..)`, `return h(..)`, `h(..);`), the
# call itself leaves no trace item.  The context (facts, CFG factory) is set
# by cfacts when the C facts are loaded.

_INLINE = {"ctx": None, "facts": None, "targets": None, "stack": []}
# single-use functions that stay opaque, with the reason
NO_INLINE = {
    "trait_clear": "tp_clear slot body, called from trait_dealloc only",
    "has_traits_clear": "tp_clear slot body, called from the dealloc only",
}


def set_inline_context(ctx, facts):
    if _INLINE["facts"] is not facts:
        _INLINE.update(ctx=ctx, facts=facts, targets=None, stack=[],
                       preds=None)


def inline_targets(facts):
    """{function name: [parameter names]} of the transparent helpers"""
    defined = set(facts.defined_functions())
    call_sites, refs = {}, {}
    for d in facts.decls:
        owner = d.name if d.kind == "FunctionDecl" else None
        callee_nodes = set()
        for x in d.walk():
            if x.kind == "CallExpr":
                c = callee(x)
                if c in defined:
                    call_sites.setdefault(c, []).append(owner)
                    f0 = strip(x.ch[0])
                    if f0 is not None:
                        callee_nodes.add(id(f0))
        for x in d.walk():
            if x.kind == "DeclRefExpr" and x.refkind == "FunctionDecl" \
                    and x.ref in defined and id(x) not in callee_nodes:
                refs[x.ref] = refs.get(x.ref, 0) + 1
    out = {}
    for f, sites in call_sites.items():
        if len(sites) != 1 or sites[0] is None or sites[0] == f \
                or f in refs or f in NO_INLINE:
            continue
        t = facts.func(f).type or ""
        ps = [p_.name for p_ in facts.params(f)]
        if any(not n for n in ps):
            continue
        out[f] = ps
    return out


def predicate_targets(facts):
    """{name: [params]} of small in-file predicates: int functions all of
    whose returns are integer literals, never address-taken.  A condition
    `if (pred(x))` is analysed as the helper's own tests (a repeated test
    factored into a static inline function or used in place of a macro)."""
    from .cexpr import int_value
    defined = set(facts.defined_functions())
    refs = set()
    for d in facts.decls:
        callee_nodes = set()
        for x in d.walk():
            if x.kind == "CallExpr":
                f0 = strip(x.ch[0])
                if f0 is not None:
                    callee_nodes.add(id(f0))
        for x in d.walk():
            if x.kind == "DeclRefExpr" and x.refkind == "FunctionDecl" \
                    and x.ref in defined and id(x) not in callee_nodes:
                refs.add(x.ref)
    out = {}
    for f in defined:
        if f in refs or f in NO_INLINE:
            continue
        fn = facts.func(f)
        t = (fn.type or "").split("(")[0].strip()
        if t not in ("int", "static int", "long"):
            continue
        rets = [x for x in fn.walk() if x.kind == "ReturnStmt"]
        if not rets or len(rets) > 6 or sum(1 for _ in fn.walk()) > 400:
            continue

        def _boolish(e):
            e = strip(e)
            return e is not None and (
                (e.kind == "BinaryOperator" and e.op in (
                    "&&", "||", "==", "!=", "<", "<=", ">", ">="))
                or (e.kind == "UnaryOperator" and e.op == "!"))
        # a predicate answers 0 or 1 (a tri-state -1/0/1 status is not one)
        if any(not x.ch or (int_value(x.ch[0]) not in (0, 1)
                            and not _boolish(x.ch[0])) for x in rets):
            continue
        # no loops, no calls that run Python code
        if any(x.kind in ("ForStmt", "WhileStmt", "DoStmt", "GotoStmt")
               for x in fn.walk()):
            continue
        ps = [p_.name for p_ in facts.params(f)]
        if any(not n for n in ps):
            continue
        out[f] = ps
    return out


def _inline_cond_site(node):
    """the call node when a condition is exactly `pred(args)` for a small
    in-file predicate"""
    if _INLINE["facts"] is None or node.ast is None or node.kind != "cond":
        return None
    if _INLINE.get("preds") is None:
        _INLINE["preds"] = predicate_targets(_INLINE["facts"])
    e = strip(node.ast)
    if e is None or e.kind != "CallExpr":
        return None
    f = callee(e)
    pr = _INLINE["preds"]
    if f not in pr or f in _INLINE["stack"] or len(e.ch) - 1 != len(pr[f]):
        return None
    return e, f


def _inline_site(node):
    """(kind, target local, call node) when the node is `x = h(..)`,
    `T x = h(..)`, `return h(..)` or `h(..);` with h a transparent helper"""
    if _INLINE["facts"] is None or node.ast is None:
        return None
    if _INLINE["targets"] is None:
        _INLINE["targets"] = inline_targets(_INLINE["facts"])
    tg = _INLINE["targets"]
    if not tg:
        return None
    a = node.ast
    kind = lhs = call = None
    if node.kind == "return":
        e = strip(a.ch[0]) if a.ch else None
        if e is not None and e.kind == "CallExpr":
            kind, call = "return", e
    elif node.kind == "stmt":
        top = strip(a) if a.kind != "VarDecl" else a
        if top is None:
            return None
        if top.kind == "VarDecl":
            init = [c for c in top.ch if c.kind != "UnusedAttr"]
            e = strip(init[-1]) if init else None
            if e is not None and e.kind == "CallExpr":
                kind, lhs, call = "assign", top.name, e
        elif top.kind == "BinaryOperator" and top.op == "=" and var(top.ch[0]):
            e = strip(top.ch[1])
            if e is not None and e.kind == "CallExpr":
                kind, lhs, call = "assign", var(top.ch[0]), e
        elif top.kind == "CallExpr":
            kind, call = "expr", top
    if call is None:
        return None
    f = callee(call)
    if f not in tg or f in _INLINE["stack"] \
            or len(call.ch) - 1 != len(tg[f]):
        return None
    return kind, lhs, call, f


def inlined_helpers(ctx, facts):
    """names of the transparent helpers whose (only) call site has a form
    that sym_paths splices in: their body is analysed in the caller's
    context, with the caller's knowledge about the arguments"""
    from .ccfg import get_ccfg
    set_inline_context(ctx, facts)
    out = set()
    for f in facts.defined_functions():
        g = get_ccfg(ctx, facts, f)
        for node in g.nodes:
            if node.kind in ("stmt", "return"):
                site = _inline_site(node)
                if site is not None:
                    out.add(site[3])
    return out


def sym_paths(g, start=None, seed=None, stops=None, max_paths=60000,
              name=""):
    """Enumerate symbolic paths.  ``stops``: node id -> tag ends a path."""
    stops = stops or {}
    start = g.entry.id if start is None else start
    out = []

    def go(nid, env, trace, lines, nodes, counts):
        if len(out) > max_paths:
            raise AnalysisError(f"{name or g.name}: too many paths")
        node = g.nodes[nid]
        if nid in stops:
            out.append(SymPath(trace, ("STOP", stops[nid]), lines,
                               nodes + [nid], dict(env)))
            return
        csite = _inline_cond_site(node) if node.kind == "cond" else None
        if csite is not None:
            call, fn_ = csite
            from .ccfg import get_ccfg
            pre = Sym(dict(env))
            ev0 = list(trace)
            inner = []
            for a_ in call.ch[1:]:
                _calls_in_order(a_, inner)
            for c_ in inner:
                ev0.append(("call", callee(c_),
                            [pre.text(x) for x in c_.ch[1:]], pre.text(c_),
                            c_.line or node.line, False))
            argt = [pre.text(a_) for a_ in call.ch[1:]]
            seed2 = {k: v for k, v in pre.env.items()
                     if "->" in k or k.startswith("#")}
            seed2.update(zip(_INLINE["preds"][fn_], argt))
            g2 = get_ccfg(_INLINE["ctx"], _INLINE["facts"], fn_)
            _INLINE["stack"].append(fn_)
            try:
                subs = sym_paths(g2, seed=seed2, max_paths=200, name=fn_)
            finally:
                _INLINE["stack"].pop()
            for sp in subs:
                if sp.outcome[0] != "RETURN":
                    continue
                try:
                    truth = int(sp.outcome[1]) != 0
                except ValueError:
                    continue
                env2 = dict(pre.env)
                for k, v in sp.env.items():
                    if "->" in k:
                        env2[k] = v
                tr2 = ev0 + [((t[0], t[1], t[2], -1) if t[0] == "atom" else t)
                             for t in sp.trace]
                ln2 = lines + [node.line] + list(sp.lines)
                for lab, tgt in g.succ[nid]:
                    if (lab == "T") != truth:
                        continue
                    cnt = counts.get(tgt, 0)
                    if cnt >= 2:
                        continue
                    counts[tgt] = cnt + 1
                    go(tgt, dict(env2), tr2, ln2, nodes + [nid], counts)
                    counts[tgt] = cnt
            return
        site = _inline_site(node) if node.kind in ("stmt", "return") \
            else None
        if site is not None:
            kind, lhs, call, fn_ = site
            from .ccfg import get_ccfg
            pre = Sym(dict(env))
            # nested calls in the arguments are evaluated (and traced) first
            ev0 = list(trace)
            inner = []
            for a_ in call.ch[1:]:
                _calls_in_order(a_, inner)
            for c_ in inner:
                ev0.append(("call", callee(c_),
                            [pre.text(x) for x in c_.ch[1:]], pre.text(c_),
                            c_.line or node.line, False))
            argt = [pre.text(a_) for a_ in call.ch[1:]]
            seed2 = {k: v for k, v in pre.env.items()
                     if "->" in k or k.startswith("#")}
            seed2.update(zip(_INLINE["targets"][fn_], argt))
            g2 = get_ccfg(_INLINE["ctx"], _INLINE["facts"], fn_)
            _INLINE["stack"].append(fn_)
            try:
                subs = sym_paths(g2, seed=seed2, max_paths=2000, name=fn_)
            finally:
                _INLINE["stack"].pop()
            for sp in subs:
                if sp.outcome[0] not in ("RETURN", "END"):
                    continue
                rv = sp.outcome[1] if sp.outcome[0] == "RETURN" else ""
                env2 = dict(pre.env)
                for k, v in sp.env.items():
                    if "->" in k:
                        env2[k] = v
                tr2 = ev0 + [((t[0], t[1], t[2], -1) if t[0] == "atom" else t)
                             for t in sp.trace]
                ln2 = lines + [node.line] + list(sp.lines)
                if kind == "return":
                    out.append(SymPath(tr2, ("RETURN", rv), ln2 + [node.line],
                                       nodes + [nid], env2))
                    continue
                if kind == "assign":
                    env2[lhs] = rv
                succ_ = g.succ[nid]
                if not succ_:
                    out.append(SymPath(tr2, ("END",), ln2, nodes + [nid],
                                       env2))
                    continue
                for lab, tgt in succ_:
                    cnt = counts.get(tgt, 0)
                    if cnt >= 2:
                        continue
                    counts[tgt] = cnt + 1
                    go(tgt, dict(env2), tr2, ln2, nodes + [nid], counts)
                    counts[tgt] = cnt
            return
        sym = Sym(env)
        ev2 = trace
        if node.ast is not None and node.kind in ("stmt", "cond", "return",
                                                  "switch"):
            calls = []
            _calls_in_order(node.ast, calls)
            # texts must be computed with the environment *before* the node's
            # own assignments take effect for arguments, which evaluation
            # order guarantees for the idioms in this file (x = f(x))
            pre = Sym(dict(env))
            if calls:
                ev2 = list(trace)
                top = strip(node.ast)
                for c in calls:
                    ev2.append(("call", callee(c),
                                [pre.text(a) for a in c.ch[1:]],
                                pre.text(c), c.line or node.line,
                                c is top and node.kind == "stmt"))
            stores = []
            _stores_in_order(node.ast, stores)
            if stores:
                if ev2 is trace:
                    ev2 = list(trace)
                for st in stores:
                    s2 = Sym(dict(env))
                    lhs = strip(st.ch[0])
                    if lhs.kind == "MemberExpr":
                        lt = f"{s2.text(lhs.ch[0])}{'->' if lhs.arrow else '.'}{lhs.name}"
                    else:
                        lt = s2.text(lhs)
                    ev2.append(("store", lt, Sym(dict(env)).text(st.ch[1]),
                                st.line or node.line))
        if node.kind == "return":
            rv = sym.text(node.ast.ch[0]) if node.ast.ch else ""
            out.append(SymPath(ev2, ("RETURN", rv),
                               lines + [node.line], nodes + [nid],
                               dict(sym.env)))
            return
        ctext = None
        if node.kind == "stmt":
            sym.text(node.ast)
        elif node.kind in ("cond", "switch"):
            ctext = sym.text(node.ast)
        succ = g.succ[nid]
        if not succ:
            out.append(SymPath(ev2, ("END",), lines, nodes + [nid],
                               dict(sym.env)))
            return
        for lab, tgt in succ:
            cnt = counts.get(tgt, 0)
            if cnt >= 2:
                continue
            a2 = ev2
            if node.kind == "cond":
                ct, flip = _norm_mask_test(ctext)
                a2 = ev2 + [("atom", ct, (lab == "T") != flip, nid)]
            elif node.kind == "switch":
                a2 = ev2 + [("atom", ctext, lab, nid)]
            counts[tgt] = cnt + 1
            go(tgt, dict(sym.env), a2,
               lines + ([node.line] if node.line else []), nodes + [nid],
               counts)
            counts[tgt] = cnt
    go(start, dict(seed or {}), [], [], [], {start: 1})
    return out


_MASK_RE = None


def _norm_mask_test(text):
    """`((K & x) != 0)` and `((K & x) == 0)` are the flag test `(K & x)`
    (the latter negated): one spelling for every rule"""
    global _MASK_RE
    import re
    if _MASK_RE is None:
        _MASK_RE = (re.compile(r"^\(0 (!=|==) (\(\d+ & .+\))\)$"),
                    re.compile(r"^\((\(\d+ & .+\)) (!=|==) 0\)$"))
    m = _MASK_RE[0].match(text)
    if m and _balanced(m.group(2)):
        return m.group(2), m.group(1) == "=="
    m = _MASK_RE[1].match(text)
    if m and _balanced(m.group(1)):
        return m.group(1), m.group(2) == "=="
    return text, False


def _balanced(t):
    d = 0
    for i, ch in enumerate(t):
        if ch == "(":
            d += 1
        elif ch == ")":
            d -= 1
            if d == 0 and i != len(t) - 1:
                return False
    return d == 0


def feasible_paths(g, **kw):
    return [p for p in sym_paths(g, **kw) if p.feasible()]


# ---------------------------------------------------------------------------
# per-source cache of feasible paths (shared by many rules)

def cached_paths(ctx, facts, fname, max_paths=40000):
    """feasible_paths of a function, memoised per context and on disk keyed
    by the digest of the C source.  Returns None when the function has more
    than ``max_paths`` paths."""
    import hashlib
    import os
    import pickle
    from .ccfg import get_ccfg
    from .core import VERIF
    store = ctx._cache.setdefault("sympath-store", {})
    if "loaded" not in store:
        eng = ""
        here = os.path.dirname(os.path.abspath(__file__))
        for m in ("csym.py", "ccfg.py", "cexpr.py", "cfacts.py", "cfg.py"):
            with open(os.path.join(here, m)) as f:
                eng += f.read()
        digest = hashlib.sha256((eng + facts.src).encode()).hexdigest()[:24]
        store["file"] = os.path.join(VERIF, ".cache", f"paths-{digest}.pkl")
        store["data"] = {}
        store["dirty"] = False
        try:
            with open(store["file"], "rb") as f:
                store["data"] = pickle.load(f)
        except Exception:
            pass
        store["loaded"] = True
    key = (fname, max_paths)
    if key not in store["data"]:
        g = get_ccfg(ctx, facts, fname)
        try:
            store["data"][key] = feasible_paths(g, name=fname,
                                                max_paths=max_paths)
        except AnalysisError:
            store["data"][key] = None
        store["dirty"] = True
    return store["data"][key]


def flush_paths(ctx):
    import os
    import pickle
    store = ctx._cache.get("sympath-store")
    if not store or not store.get("dirty"):
        return
    try:
        os.makedirs(os.path.dirname(store["file"]), exist_ok=True)
        tmp = store["file"] + f".{os.getpid()}.tmp"
        with open(tmp, "wb") as f:
            pickle.dump(store["data"], f, protocol=pickle.HIGHEST_PROTOCOL)
        os.replace(tmp, store["file"])
        store["dirty"] = False
        d = os.path.dirname(store["file"])
        files = sorted((os.path.getmtime(os.path.join(d, x)), x)
                       for x in os.listdir(d) if x.startswith("paths-"))
        for _, x in files[:-20]:
            os.remove(os.path.join(d, x))
    except OSError:
        pass
