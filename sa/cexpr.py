"""Helpers over reduced clang expression trees."""
from __future__ import annotations

from .cfacts import CNode

TRANSPARENT = {"ParenExpr", "ImplicitCastExpr", "CStyleCastExpr",
               "ConstantExpr"}


def strip(n):
    while n is not None:
        if n.kind in TRANSPARENT and n.ch:
            n = n.ch[-1] if n.kind == "CStyleCastExpr" else n.ch[0]
        elif n.kind == "BinaryOperator" and n.op == "," and len(n.ch) == 2 \
                and _is_void_zero(n.ch[0]):
            # `((void)0, x)`: what asserts expand to under NDEBUG
            n = n.ch[1]
        else:
            break
    return n


def _is_void_zero(n):
    while n is not None and n.kind in TRANSPARENT and n.ch:
        n = n.ch[-1] if n.kind == "CStyleCastExpr" else n.ch[0]
    return n is not None and n.kind == "IntegerLiteral" and n.value == "0"


def callee(call):
    """Name of the function called: a plain name for direct calls,
    '->field' for calls through a struct's function pointer, '?' otherwise."""
    f = strip(call.ch[0])
    if f.kind == "DeclRefExpr":
        return f.ref
    if f.kind == "MemberExpr":
        return "->" + (f.name or "?")
    if f.kind == "UnaryOperator" and f.op == "*":
        g = strip(f.ch[0])
        if g.kind == "DeclRefExpr":
            return g.ref
        if g.kind == "MemberExpr":
            return "->" + (g.name or "?")
    if f.kind == "ArraySubscriptExpr":
        base = strip(f.ch[0])
        if base.kind == "DeclRefExpr":
            return base.ref + "[]"
    return "?"


def call_args(call):
    return call.ch[1:]


def calls_in(n):
    """CallExprs inside ``n`` in evaluation order (arguments before the
    call)."""
    out = []

    def go(x):
        for c in x.ch:
            go(c)
        if x.kind == "CallExpr":
            out.append(x)
    go(n)
    return out


def is_null(n):
    n = strip(n)
    if n is None:
        return False
    if n.kind == "IntegerLiteral" and n.value == "0":
        return True
    if n.kind == "GNUNullExpr":
        return True
    return False


def int_value(n):
    n = strip(n)
    if n is None:
        return None
    if n.kind == "IntegerLiteral":
        try:
            return int(n.value)
        except (TypeError, ValueError):
            return None
    if n.kind == "UnaryOperator" and n.op == "-":
        v = int_value(n.ch[0])
        return None if v is None else -v
    if n.kind == "CharacterLiteral":
        try:
            return int(n.value)
        except (TypeError, ValueError):
            return None
    return None


def var(n):
    """Name of the variable a (stripped) expression denotes, or None."""
    n = strip(n)
    if n is not None and n.kind == "DeclRefExpr" \
            and n.refkind in ("VarDecl", "ParmVarDecl"):
        return n.ref
    return None


def cnorm(n, rename=None):
    """Canonical text of an expression: casts and parentheses removed,
    variables optionally renamed."""
    n = strip(n)
    if n is None:
        return "?"
    k = n.kind
    R = lambda x: cnorm(x, rename)  # noqa: E731
    if k == "DeclRefExpr":
        nm = n.ref or "?"
        if rename and nm in rename:
            return rename[nm]
        return nm
    if k == "IntegerLiteral":
        return str(n.value)
    if k in ("FloatingLiteral", "CharacterLiteral"):
        return str(n.value)
    if k == "StringLiteral":
        return str(n.value)
    if k == "MemberExpr":
        return f"{R(n.ch[0])}{'->' if n.arrow else '.'}{n.name}"
    if k == "CallExpr":
        return f"{callee(n) if callee(n) != '?' else R(n.ch[0])}" \
               f"({', '.join(R(a) for a in n.ch[1:])})" \
            if not callee(n).startswith("->") else \
            f"{R(n.ch[0])}({', '.join(R(a) for a in n.ch[1:])})"
    if k in ("BinaryOperator", "CompoundAssignOperator"):
        return f"({R(n.ch[0])} {n.op} {R(n.ch[1])})"
    if k == "UnaryOperator":
        if n.extra and n.extra.get("postfix"):
            return f"{R(n.ch[0])}{n.op}"
        return f"{n.op}{R(n.ch[0])}"
    if k == "ArraySubscriptExpr":
        return f"{R(n.ch[0])}[{R(n.ch[1])}]"
    if k == "ConditionalOperator":
        return f"({R(n.ch[0])} ? {R(n.ch[1])} : {R(n.ch[2])})"
    if k == "UnaryExprOrTypeTraitExpr":
        return f"{n.name}({n.value or (R(n.ch[0]) if n.ch else '')})"
    if k == "InitListExpr":
        return "{" + ", ".join(R(c) for c in n.ch) + "}"
    if k == "VarDecl":
        return f"{n.name} = {R(n.ch[-1])}" if n.ch else f"{n.name}"
    if k == "ReturnStmt":
        return "return " + (R(n.ch[0]) if n.ch else "")
    if k == "StmtExpr":
        return "({...})"
    if k == "Null":
        return ""
    return f"<{k}>"


def assigned_var(n):
    """For `x = expr` (or a VarDecl with init) return (name, rhs)."""
    n = strip(n)
    if n is None:
        return None
    if n.kind == "BinaryOperator" and n.op == "=":
        v = var(n.ch[0])
        if v:
            return v, n.ch[1]
    if n.kind == "VarDecl" and n.ch:
        init = [c for c in n.ch if c.kind not in ("UnusedAttr",)]
        if init:
            return n.name, init[-1]
    return None


def find_assign_in(n):
    """All (name, rhs) assignments to plain variables inside an expression
    (e.g. `(x = f()) == NULL`)."""
    out = []
    for x in n.walk():
        if x.kind == "BinaryOperator" and x.op == "=":
            v = var(x.ch[0])
            if v:
                out.append((v, x.ch[1]))
        elif x.kind == "VarDecl" and x.ch:
            init = [c for c in x.ch if c.kind not in ("UnusedAttr",)]
            if init:
                out.append((x.name, init[-1]))
    return out
