"""Event-automaton runner over a Python CFG.

A rule subclasses ``PyFlow`` and provides

  classify(expr, node) -> list of (event, may_raise)   # for one sub-expression
  step(state, event, expr, node) -> new state          # may call self.flag()
  assume(test, truth, state) -> state or None          # branch refinement

Sub-expressions of a CFG node are visited in evaluation order.  An event with
``may_raise`` forwards the state *before* the event along the node's 'exc'
edge (the call raised instead of completing).
"""
from __future__ import annotations

import ast

from . import cfg as cfgmod
from .pycfg import build_cfg
from .pyfacts import eval_order


class PyFlow:
    def __init__(self, module, func, qualname=""):
        self.module = module
        self.func = func
        self.qualname = qualname or func.name
        self.cfg = build_cfg(func, f"{module.rel}:{self.qualname}")
        self.flags = []     # (node_id, in_state, key, msg)
        self._cur = None

    # -- to override -------------------------------------------------------

    def classify(self, expr, node):
        return []

    def step(self, state, event, expr, node):
        return state

    def assume(self, test, truth, state):
        return state

    def enter_handler(self, handler, state):
        return state

    def on_exit(self, node, state):
        """Called for every state reaching exit / raise_exit."""

    # -- machinery ---------------------------------------------------------

    def flag(self, key, msg):
        self.flags.append((self._cur[0], self._cur[1], key, msg))

    def node_exprs(self, node):
        a = node.ast
        if a is None:
            return []
        if node.kind == "fornext":
            return [("bind", a)]
        if node.kind == "with":
            out = []
            for it in a.items:
                out.extend(("expr", e) for e in eval_order(it.context_expr))
                out.append(("with-enter", it))
            return out
        if node.kind in ("dispatch", "handler"):
            return []
        if isinstance(a, (ast.FunctionDef, ast.AsyncFunctionDef, ast.ClassDef)):
            return []
        return [("expr", e) for e in eval_order(a)]

    def transfer(self, node, state):
        self._cur = (node.id, state)
        if node.kind in ("entry", "join", "dispatch"):
            return [(None, state)]
        if node.kind == "handler":
            return [(None, self.enter_handler(node.ast, state))]
        outs = []
        st = state
        for tag, e in self.node_exprs(node):
            for ev, may_raise in self.classify(e, node):
                if may_raise:
                    outs.append(("exc", st))
                st = self.step(st, ev, e, node)
                if st is None:
                    return outs
        if node.kind == "cond":
            t = self.assume(node.ast, True, st)
            f = self.assume(node.ast, False, st)
            if t is not None:
                outs.append(("T", t))
            if f is not None:
                outs.append(("F", f))
            return outs
        if node.kind == "fornext":
            outs.append(("T", st))
            outs.append(("F", st))
            return outs
        if isinstance(node.ast, ast.Raise):
            outs.append(("exc", st))
            return outs
        outs.append((None, st))
        return outs

    def run(self, init):
        self.states, self.parent = cfgmod.propagate(
            self.cfg, init, self.transfer)
        for ex in (self.cfg.exit, self.cfg.raise_exit):
            for st in self.states[ex.id]:
                self._cur = (ex.id, st)
                self.on_exit(ex, st)
        return self.states

    def witness_lines(self, nid, st):
        p = cfgmod.witness(self.cfg, self.parent, nid, st)
        return cfgmod.path_lines(self.cfg, p, self.module.rel)

    def findings(self):
        """Distinct flags with a witness path: list of (key, msg, loc, path)."""
        seen = {}
        for nid, st, key, msg in self.flags:
            if key in seen:
                continue
            path = self.witness_lines(nid, st)
            line = self.cfg.nodes[nid].line or (
                int(path[-1].rsplit(":", 1)[1]) if path else self.func.lineno)
            seen[key] = (key, msg, f"{self.module.rel}:{line}", path)
        return list(seen.values())
