"""Table rules over ctraits.c: dispatch-table index bounds, func_index
membership, GC-protocol exhaustiveness, TraitKind / ValidateTrait agreement."""
from __future__ import annotations

import ast
import math
import re

from .. import cfg as cfgmod
from ..ccfg import get_ccfg
from ..cexpr import (callee, cnorm, find_assign_in, int_value, is_null, strip,
                     var)
from ..cfacts import CREL, get_cfacts, index_encoders
from ..core import AnalysisError, rule
from ..pyfacts import get_pyrepo
from ..pyfacts import norm as norm_py

INF = math.inf


def module_int_constants(ctx):
    """Integer constants the C module exports: name -> value, from the
    PyModule_AddIntConstant calls of PyInit_ctraits."""
    facts = get_cfacts(ctx)
    out = {}
    for x in facts.func("PyInit_ctraits").walk():
        if x.kind == "CallExpr" and callee(x) == "PyModule_AddIntConstant":
            nm = strip(x.ch[2])
            v = int_value(x.ch[3])
            if nm.kind == "StringLiteral" and v is not None:
                out[str(nm.value).strip('"')] = v
    return out


def py_enum(ctx, rel, cls):
    """name -> int for an IntEnum class body (ast only).  Members defined as
    ``traits.ctraits._NAME`` are resolved through the integer constants the C
    module exports."""
    repo = get_pyrepo(ctx)
    ci = repo.cls(rel, cls)
    out = {}
    consts = None
    for s in ci.node.body:
        if not (isinstance(s, ast.Assign) and len(s.targets) == 1
                and isinstance(s.targets[0], ast.Name)):
            continue
        v = s.value
        if isinstance(v, ast.UnaryOp) and isinstance(v.op, ast.USub) \
                and isinstance(v.operand, ast.Constant):
            out[s.targets[0].id] = -v.operand.value
        elif isinstance(v, ast.Constant) and isinstance(v.value, int):
            out[s.targets[0].id] = v.value
        elif isinstance(v, ast.Attribute) and norm_py(v).startswith(
                "traits.ctraits."):
            if consts is None:
                consts = module_int_constants(ctx)
            if v.attr not in consts:
                raise AnalysisError(f"{cls}.{s.targets[0].id}: the C module "
                                    f"exports no constant {v.attr}")
            out[s.targets[0].id] = consts[v.attr]
    if not out:
        raise AnalysisError(f"enum {rel}:{cls} has no integer members")
    return out


def fp_tables(facts):
    """Global arrays initialised with function pointers: name -> entries."""
    out = {}
    for name, g in facts.globals.items():
        if not any(c.kind == "InitListExpr" for c in g.ch):
            continue
        if "[" not in (g.type or ""):
            continue
        try:
            t = facts.table(name)
        except AnalysisError:
            continue
        if any(x is not None and facts.has_func(x) for x in t) and \
                all(x is None or x in facts.functions for x in t) and \
                "PyMethodDef" not in (g.type or "") and \
                "PyGetSetDef" not in (g.type or ""):
            out[name] = t
    return out


# ---------------------------------------------------------------------------
# interval flow for table index bounds

class IntervalFlow:
    """state = frozenset of (var, lo, hi)"""

    def __init__(self, facts, cfg, tables):
        self.facts, self.cfg, self.tables = facts, cfg, tables
        self.sites = []       # (node id, state, table, index text, ok, iv)

    @staticmethod
    def get(st, v):
        for n, lo, hi in st:
            if n == v:
                return lo, hi
        return (-INF, INF)

    @staticmethod
    def put(st, v, lo, hi):
        s = {x for x in st if x[0] != v}
        if (lo, hi) != (-INF, INF):
            s.add((v, lo, hi))
        return frozenset(s)

    def const_int(self, e):
        """int literal, or the element count idiom sizeof(t)/sizeof(t[0])"""
        e = strip(e)
        v = int_value(e)
        if v is not None:
            return v
        if e.kind == "BinaryOperator" and e.op == "/":
            a, b = strip(e.ch[0]), strip(e.ch[1])
            if a.kind == b.kind == "UnaryExprOrTypeTraitExpr" \
                    and a.name == b.name == "sizeof" and a.ch and b.ch:
                ta, tb = strip(a.ch[0]), strip(b.ch[0])
                if ta.kind == "DeclRefExpr" and tb.kind == "ArraySubscriptExpr" \
                        and strip(tb.ch[0]).kind == "DeclRefExpr" \
                        and strip(tb.ch[0]).ref == ta.ref \
                        and ta.ref in self.facts.globals:
                    return self.facts.table_decl_size(ta.ref)
        return None

    def eval_int(self, e, st):
        e = strip(e)
        v = self.const_int(e)
        if v is not None:
            return v, v
        nm = var(e)
        if nm:
            return self.get(st, nm)
        return (-INF, INF)

    def check_subscripts(self, node, st):
        if node.ast is None:
            return
        for x in node.ast.walk():
            if x.kind != "ArraySubscriptExpr":
                continue
            base = strip(x.ch[0])
            if base.kind != "DeclRefExpr" or base.ref not in self.tables:
                continue
            lo, hi = self.eval_int(x.ch[1], st)
            n = len(self.tables[base.ref])
            ok = lo >= 0 and hi <= n - 1
            self.sites.append((node.id, st, base.ref, cnorm(x.ch[1]), ok,
                               (lo, hi), x.line or node.line))

    def kill_assigned(self, node, st):
        if node.ast is None:
            return st
        for name, rhs in find_assign_in(node.ast):
            lo, hi = self.eval_int(rhs, st)
            st = self.put(st, name, lo, hi)
        for x in node.ast.walk():
            if x.kind == "UnaryOperator" and x.op == "&":
                nm = var(x.ch[0])
                if nm:
                    st = self.put(st, nm, -INF, INF)
            if x.kind == "UnaryOperator" and x.op in ("++", "--"):
                nm = var(x.ch[0])
                if nm:
                    st = self.put(st, nm, -INF, INF)
            if x.kind == "CompoundAssignOperator":
                nm = var(x.ch[0])
                if nm:
                    st = self.put(st, nm, -INF, INF)
        return st

    def refine(self, e, truth, st):
        e = strip(e)
        if e.kind != "BinaryOperator" or e.op not in ("<", "<=", ">", ">=",
                                                      "==", "!="):
            return st
        l, r = strip(e.ch[0]), strip(e.ch[1])
        op = e.op
        lv, rv = var(l), self.const_int(r)
        if lv is None or rv is None:
            lv, rv = var(r), self.const_int(l)
            if lv is None or rv is None:
                return st
            op = {"<": ">", "<=": ">=", ">": "<", ">=": "<=",
                  "==": "==", "!=": "!="}[op]
        if not truth:
            op = {"<": ">=", "<=": ">", ">": "<=", ">=": "<",
                  "==": "!=", "!=": "=="}[op]
        lo, hi = self.get(st, lv)
        if op == "<":
            hi = min(hi, rv - 1)
        elif op == "<=":
            hi = min(hi, rv)
        elif op == ">":
            lo = max(lo, rv + 1)
        elif op == ">=":
            lo = max(lo, rv)
        elif op == "==":
            lo, hi = max(lo, rv), min(hi, rv)
        if lo > hi:
            return None      # infeasible
        return self.put(st, lv, lo, hi)

    # -- conditions that are not a single comparison: `!`, `&&`, `||`, and
    # calls of expression-bodied in-file predicates (a range check extracted
    # into `static int in_range(int i, int n) { return i >= 0 && i < n; }`)

    def _single_def(self, name):
        """defining expression of a local that is assigned exactly once (and
        never has its address taken) in the analysed function, when that
        expression is a boolean combination of comparisons"""
        cache = self.__dict__.setdefault("_defs", {})
        if name in cache:
            return cache[name]
        fn_ast = getattr(self, "func_ast", None)
        out = None
        if fn_ast is not None:
            defs = []
            for x in fn_ast.walk():
                if x.kind == "VarDecl" and x.name == name and x.ch:
                    defs.append(x.ch[-1])
                if x.kind == "BinaryOperator" and x.op == "=" \
                        and var(x.ch[0]) == name:
                    defs.append(x.ch[1])
                if x.kind == "UnaryOperator" and x.op == "&" \
                        and var(x.ch[0]) == name:
                    defs.append(None)
                    defs.append(None)
            if len(defs) == 1 and defs[0] is not None:
                d = strip(defs[0])
                if d.kind in ("BinaryOperator", "UnaryOperator", "CallExpr") \
                        and getattr(d, "op", None) in (
                            "&&", "||", "!", "<", "<=", ">", ">=", "==", "!=",
                            None):
                    out = d
        cache[name] = out
        return out

    def _subst(self, e, subst):
        e = strip(e)
        if subst and e is not None and e.kind == "DeclRefExpr" \
                and e.ref in subst:
            return strip(subst[e.ref])
        return e

    def refine_all(self, e, truth, st, subst=None, depth=0):
        """list of refined states (a disjunction) for `e` being `truth`"""
        e = strip(e)
        if e is None or depth > 6:
            return [st]
        if e.kind == "UnaryOperator" and e.op == "!":
            return self.refine_all(e.ch[0], not truth, st, subst, depth + 1)
        if e.kind == "DeclRefExpr" and e.refkind == "VarDecl" and not subst:
            # a flag local holding the result of a test: `int ok = a && b;`
            # - its 0/1 value is tracked since the assignment split the state
            lo, hi = self.get(st, e.ref)
            if (lo, hi) != (-INF, INF):
                if truth:
                    return [] if lo == hi == 0 else [st]
                if lo > 0 or hi < 0:
                    return []
                return [self.put(st, e.ref, 0, 0)]
            d = self._single_def(e.ref)
            if d is not None:
                return self.refine_all(d, truth, st, subst, depth + 1)
        if e.kind == "BinaryOperator" and e.op in ("&&", "||"):
            conj = (e.op == "&&") == truth
            if conj:
                outs = []
                for s1 in self.refine_all(e.ch[0], truth, st, subst,
                                          depth + 1):
                    outs += self.refine_all(e.ch[1], truth, s1, subst,
                                            depth + 1)
                return outs
            return (self.refine_all(e.ch[0], truth, st, subst, depth + 1)
                    + self.refine_all(e.ch[1], truth, st, subst, depth + 1))
        if e.kind == "CallExpr":
            c = callee(e)
            if self.facts.has_func(c):
                fn = self.facts.func(c)
                params = [q.name for q in self.facts.params(c)]
                small = not any(x.kind in ("ForStmt", "WhileStmt", "DoStmt",
                                           "SwitchStmt", "GotoStmt",
                                           "CallExpr")
                                for x in fn.walk())
                assigns = any(x.kind in ("CompoundAssignOperator",)
                              or (x.kind == "BinaryOperator" and x.op == "=")
                              or (x.kind == "UnaryOperator"
                                  and x.op in ("++", "--"))
                              for x in fn.walk())
                if small and not assigns and len(params) == len(e.ch) - 1:
                    # a side-effect-free predicate: follow each of its paths
                    from ..ccfg import build_ccfg
                    g = self._helper_cfgs.setdefault(c, build_ccfg(fn)) \
                        if hasattr(self, "_helper_cfgs") else build_ccfg(fn)
                    sub = {p: (self._subst(a, subst))
                           for p, a in zip(params, e.ch[1:])}
                    outs = []
                    for path in cfgmod.enumerate_paths(g, max_paths=64):
                        states = [st]
                        for nid, lab in path:
                            nd = g.nodes[nid]
                            if nd.kind == "cond" and lab in ("T", "F"):
                                nxt = []
                                for s1 in states:
                                    nxt += self.refine_all(
                                        nd.ast, lab == "T", s1, sub,
                                        depth + 1)
                                states = nxt
                            elif nd.kind == "return" and nd.ast is not None \
                                    and nd.ast.ch:
                                rv = nd.ast.ch[0]
                                k = int_value(rv)
                                nxt = []
                                for s1 in states:
                                    if k is not None:
                                        if (k != 0) == truth:
                                            nxt.append(s1)
                                    else:
                                        nxt += self.refine_all(
                                            rv, truth, s1, sub, depth + 1)
                                states = nxt
                        outs += states
                    return outs
            return [st]
        if e.kind == "BinaryOperator" and e.op in ("<", "<=", ">", ">=",
                                                   "==", "!="):
            if subst:
                # compare with parameters replaced by the call's arguments
                l, r = self._subst(e.ch[0], subst), self._subst(e.ch[1], subst)
                r2 = self._refine_cmp(l, e.op, r, truth, st)
            else:
                r2 = self.refine(e, truth, st)
            return [] if r2 is None else [r2]
        return [st]

    def _refine_cmp(self, l, op, r, truth, st):
        lv, rv = var(l), self.const_int(r)
        if lv is None or rv is None:
            lv, rv = var(r), self.const_int(l)
            if lv is None or rv is None:
                return st
            op = {"<": ">", "<=": ">=", ">": "<", ">=": "<=",
                  "==": "==", "!=": "!="}[op]
        if not truth:
            op = {"<": ">=", "<=": ">", ">": "<=", ">=": "<",
                  "==": "!=", "!=": "=="}[op]
        lo, hi = self.get(st, lv)
        if op == "<":
            hi = min(hi, rv - 1)
        elif op == "<=":
            hi = min(hi, rv)
        elif op == ">":
            lo = max(lo, rv + 1)
        elif op == ">=":
            lo = max(lo, rv)
        elif op == "==":
            lo, hi = max(lo, rv), min(hi, rv)
        if lo > hi:
            return None
        return self.put(st, lv, lo, hi)

    def transfer(self, node, st):
        self.check_subscripts(node, st)
        if node.kind == "cond":
            st2 = self.kill_assigned(node, st)
            outs = []
            for lab in ("T", "F"):
                for r in self.refine_all(node.ast, lab == "T", st2):
                    outs.append((lab, r))
            return outs
        if node.kind == "switch":
            outs = []
            v = var(node.ast)
            covered = []
            for lab, tgt in self.cfg.succ[node.id]:
                if isinstance(lab, tuple):
                    covered.append(lab[1])
                    outs.append((lab, self.put(st, v, lab[1], lab[1])
                                 if v else st))
                else:
                    outs.append((lab, st))
            return outs
        outs = [self.kill_assigned(node, st)]
        # `flag = <boolean combination of tests>`: split the state into the
        # outcomes of the test, each carrying its refinements and the flag's
        # 0/1 value (flags assigned more than once, or combined later)
        if node.ast is not None:
            for name, rhs in find_assign_in(node.ast):
                d = strip(rhs)
                if d is None or d.kind not in ("BinaryOperator",
                                               "UnaryOperator", "CallExpr") \
                        or getattr(d, "op", None) not in (
                            "&&", "||", "!", "<", "<=", ">", ">=", "==", "!=",
                            None):
                    continue
                if d.kind == "CallExpr" and not self.facts.has_func(callee(d)):
                    continue
                new = []
                for truth in (True, False):
                    for r in self.refine_all(d, truth, st):
                        r = self.kill_assigned(node, r)
                        new.append(self.put(r, name, int(truth), int(truth)))
                if new:
                    outs = new
        return [(None, o) for o in outs]

    def run(self):
        cfgmod.propagate(self.cfg, frozenset(), self.transfer)
        return self.sites


@rule("C18.table-bounds", ["C18", "C14"],
      "every non-constant index into a static function-pointer table is "
      "bounded within the table on every path")
def table_bounds(ctx, res):
    facts = get_cfacts(ctx)
    tables = fp_tables(facts)
    if len(tables) < 6:
        raise AnalysisError(f"only {sorted(tables)} recognised as "
                            f"function-pointer tables")
    for fname in facts.defined_functions():
        fn = facts.func(fname)
        if not any(x.kind == "ArraySubscriptExpr"
                   and strip(x.ch[0]).kind == "DeclRefExpr"
                   and strip(x.ch[0]).ref in tables for x in fn.walk()):
            continue
        g = get_ccfg(ctx, facts, fname)
        fl = IntervalFlow(facts, g, tables)
        fl.func_ast = fn
        sites = fl.run()
        by_site = {}
        for nid, st, tab, idx, ok, iv, line in sites:
            k = (fname, tab, idx)
            cur = by_site.setdefault(k, [True, iv, line])
            if not ok:
                cur[0] = False
                cur[1] = iv
        for (f, tab, idx), (ok, iv, line) in sorted(by_site.items()):
            key = f"{f}:{tab}[{idx}]"
            res.instance(key, f"{CREL}:{line}", table_len=len(tables[tab]))
            res.oblige(ok, key, f"{CREL}:{line}",
                       f"index `{idx}` into {tab} (initialised length "
                       f"{len(tables[tab])}) can be in [{iv[0]}, {iv[1]}] on "
                       f"some path: out-of-bounds read of a function pointer")
    res.floor(12)


# ---------------------------------------------------------------------------
# getstate membership

TRAIT_FP_FIELDS = ("getattr", "setattr", "post_setattr", "validate",
                   "delegate_attr_name")


def _index_interval(ctx, facts, tables, fname, table, idx_text):
    g = get_ccfg(ctx, facts, fname)
    fl = IntervalFlow(facts, g, tables)
    fl.func_ast = facts.func(fname)
    lo, hi = INF, -INF
    for nid, st, tab, idx, ok, iv, line in fl.run():
        if tab == table and idx == idx_text:
            lo, hi = min(lo, iv[0]), max(hi, iv[1])
    if lo > hi:
        return (-INF, INF)
    return lo, hi


@rule("C14.getstate-membership", ["C14", "C18"],
      "every function ever stored in a CTrait function-pointer field is a "
      "member of the table func_index() searches for that field")
def getstate_membership(ctx, res):
    facts = get_cfacts(ctx)
    tables = fp_tables(facts)
    gs = facts.func("_trait_getstate")
    field_table = {}
    from ..cfacts import func_index_calls
    for c, a0, a1, _boxed in func_index_calls(facts, gs):
        if a0.kind == "MemberExpr" and a1.kind == "DeclRefExpr":
            field_table[a0.name] = a1.ref
    if set(field_table) != set(TRAIT_FP_FIELDS):
        raise AnalysisError(f"_trait_getstate encodes {sorted(field_table)} "
                            f"with func_index; expected {TRAIT_FP_FIELDS}")
    # does func_index still scan without a bound?  (informational)
    for fname in facts.defined_functions():
        fn = facts.func(fname)
        for x in fn.walk():
            if not (x.kind == "BinaryOperator" and x.op == "="):
                continue
            lhs = strip(x.ch[0])
            if lhs.kind != "MemberExpr" or lhs.name not in field_table:
                continue
            # only fields of trait_object
            bt = strip(lhs.ch[0]).type or ""
            if "trait_object" not in bt or "has_traits" in bt:
                continue
            field = lhs.name
            table = field_table[field]
            members = set(tables[table])
            rhs = strip(x.ch[1])
            key = f"{fname}:{field}={cnorm(rhs)}"
            res.instance(key, facts.loc(x), table=table)
            if rhs.kind == "DeclRefExpr" and rhs.refkind == "FunctionDecl":
                res.oblige(rhs.ref in members, key, facts.loc(x),
                           f"`{fname}` stores {rhs.ref} in trait->{field} but "
                           f"{rhs.ref} is not a member of {table}: "
                           f"func_index() in _trait_getstate scans past the "
                           f"end of the table (pickling/copying such a trait "
                           f"reads out of bounds)")
            elif is_null(rhs):
                res.oblige(None in members, key, facts.loc(x),
                           f"NULL stored in trait->{field} but {table} has no "
                           f"NULL member for func_index() to find")
            elif rhs.kind == "ArraySubscriptExpr" \
                    and strip(rhs.ch[0]).kind == "DeclRefExpr" \
                    and strip(rhs.ch[0]).ref in tables:
                src = strip(rhs.ch[0]).ref
                # entries selectable at this site: use the index interval
                # established by the dominating tests when it is bounded
                lo, hi = _index_interval(ctx, facts, tables, fname, src,
                                         cnorm(rhs.ch[1]))
                entries = tables[src]
                if lo >= 0 and hi <= len(entries) - 1:
                    entries = entries[int(lo):int(hi) + 1]
                missing = [m for m in entries if m not in members]
                res.oblige(not missing, key, facts.loc(x),
                           f"entries {missing} of {src} can be stored in "
                           f"trait->{field} but are not members of {table}")
                # a slot that is *called* without a NULL test somewhere must
                # never receive the NULL entry of its table
                if None in entries and field in _unguarded_slots(ctx, facts):
                    from ..csym import cached_paths
                    excl = True
                    for p_ in cached_paths(ctx, facts, fname) or []:
                        for i_, it in enumerate(p_.trace):
                            if it[0] == "store" and it[1].endswith(
                                    "->" + field) and it[2].startswith(
                                    src + "["):
                                ok_ = any(
                                    a[0] == "atom" and it[2] in a[1] and (
                                        ("0 ==" in a[1] and a[2] is False)
                                        or ("0 !=" in a[1] and a[2] is True)
                                        or ("== 0" in a[1] and a[2] is False)
                                        or ("!= 0" in a[1] and a[2] is True))
                                    for a in p_.trace[:i_])
                                excl = excl and ok_
                    res.oblige(excl, key + ":non-null", facts.loc(x),
                               f"`{fname}` can store the NULL entry of {src} "
                               f"in trait->{field}, and trait->{field} is "
                               f"called without a NULL test (e.g. in "
                               f"has_traits_getattro/setattro): a crafted "
                               f"state tuple makes the next attribute access "
                               f"jump to address 0")
            elif rhs.kind == "MemberExpr" and rhs.name == field:
                res.oblige(True, key, "", "")    # copy of the same field
            else:
                raise AnalysisError(
                    f"unclassified store into trait->{field} in {fname}: "
                    f"{cnorm(rhs)}")
    res.floor(20)


def _unguarded_slots(ctx, facts):
    """function-pointer fields of a CTrait that some call site invokes
    without the path having tested them against NULL"""
    def compute():
        from ..csym import cached_paths
        from .crec import _slot_functions
        # the attribute-access slots of the file's own types: every get/set
        # of every attribute goes through them
        entry = _slot_functions(facts, "getattrofunc") | _slot_functions(
            facts, "setattrofunc")
        out = set()
        for f in sorted(entry):
            if not facts.has_func(f):
                continue
            for p_ in cached_paths(ctx, facts, f) or []:
                for i_, it in enumerate(p_.trace):
                    if it[0] == "call" and it[1].startswith("->") \
                            and it[1][2:] in TRAIT_FP_FIELDS:
                        k_ = it[3].rfind(it[1] + "(")
                        recv = it[3][:k_ + len(it[1])] if k_ >= 0 \
                            else it[3]
                        if not any(a[0] == "atom" and recv in a[1]
                                   for a in p_.trace[:i_]):
                            out.add(it[1][2:])
        return out
    return ctx.memo("unguarded-slots", compute)


# ---------------------------------------------------------------------------
# GC fields

def _record_fields(facts, marker):
    for d in facts.decls:
        if d.kind == "RecordDecl":
            fields = [c for c in d.ch if c.kind == "FieldDecl"]
            if any(f.name == marker for f in fields):
                return fields
    raise AnalysisError(f"struct with field {marker} not found")


def _members_used(fn, basevar=None):
    return {x.name for x in fn.walk() if x.kind == "MemberExpr"}


@rule("C18.gc-fields", ["C18", "C09"],
      "every object-typed field of the two C structs is traversed, cleared "
      "and (CTrait) cloned with a new reference")
def gc_fields(ctx, res):
    facts = get_cfacts(ctx)
    specs = [("trait_object", "py_validate", "trait_traverse", "trait_clear",
              "trait_type"),
             ("has_traits_object", "ctrait_dict", "has_traits_traverse",
              "has_traits_clear", "has_traits_type")]
    for sname, marker, trav, clr, tobj in specs:
        fields = _record_fields(facts, marker)
        objf = [f.name for f in fields
                if f.type and f.type.strip().endswith("*")
                and any(t in f.type for t in ("PyObject", "PyDictObject",
                                              "PyListObject"))]
        tv = _members_used(facts.func(trav))
        cl = _members_used(facts.func(clr))
        tinit = facts.global_var(tobj)
        refs = {x.ref for x in tinit.walk() if x.kind == "DeclRefExpr"}
        res.instance(f"{sname}:type-slots", facts.loc(tinit))
        res.oblige(trav in refs and clr in refs, f"{sname}:type-slots",
                   facts.loc(tinit),
                   f"{tobj} does not install {trav}/{clr}")
        for f in objf:
            res.instance(f"{sname}.{f}", facts.loc(facts.func(trav)))
            res.oblige(f in tv, f"{sname}.{f}:traverse",
                       facts.loc(facts.func(trav)),
                       f"field {f} is not visited by {trav} (cycles through "
                       f"it are never collected / GC may free a live object)")
            res.oblige(f in cl, f"{sname}.{f}:clear",
                       facts.loc(facts.func(clr)),
                       f"field {f} is not cleared by {clr} (leak on dealloc)")
        if sname == "trait_object":
            clone = facts.func("trait_clone")
            copied, increfd = set(), set()
            setters = _owning_setters(facts)
            for x in clone.walk():
                if x.kind == "BinaryOperator" and x.op == "=":
                    l = strip(x.ch[0])
                    r = strip(x.ch[1])
                    if l.kind == "MemberExpr":
                        copied.add(l.name)
                        res.oblige(r.kind == "MemberExpr"
                                   and r.name == l.name,
                                   f"trait_clone:{l.name}:same-field",
                                   facts.loc(x),
                                   f"trait_clone fills {l.name} from "
                                   f"`{cnorm(r)}`")
                if x.kind == "CallExpr" and callee(x) in setters \
                        and len(x.ch) == 3:
                    # helper(&dst->F, src->F): INCREF new, store, XDECREF old
                    d = strip(x.ch[1])
                    sv = strip(x.ch[2])
                    if d.kind == "UnaryOperator" and d.op == "&":
                        l = strip(d.ch[0])
                        if l.kind == "MemberExpr":
                            copied.add(l.name)
                            increfd.add(l.name)
                            res.oblige(sv.kind == "MemberExpr"
                                       and sv.name == l.name,
                                       f"trait_clone:{l.name}:same-field",
                                       facts.loc(x),
                                       f"trait_clone fills {l.name} from "
                                       f"`{cnorm(sv)}`")
                if x.kind == "CallExpr" and callee(x) in ("Py_XINCREF",
                                                          "Py_INCREF"):
                    a = strip(x.ch[1])
                    if a.kind == "MemberExpr":
                        increfd.add(a.name)
            not_cloned = {"notifiers", "obj_dict"}   # deliberately per-trait
            for f in objf:
                if f in not_cloned:
                    res.oblige(f not in copied, f"trait_clone:{f}:shared",
                               facts.loc(clone),
                               f"trait_clone copies {f}: clones would share "
                               f"the notifier list / __dict__ of the source")
                    continue
                res.oblige(f in copied, f"trait_clone:{f}:copied",
                           facts.loc(clone), f"trait_clone does not copy {f}")
                res.oblige(f in increfd, f"trait_clone:{f}:incref",
                           facts.loc(clone),
                           f"trait_clone copies {f} without taking a "
                           f"reference (double release on dealloc)")
    res.floor(12)


def _owning_setters(facts):
    """in-file helpers `h(PyObject **field, PyObject *value)` that take a
    reference to ``value``, store it through ``field`` and release the old
    content afterwards (in that order)"""
    out = set()
    for fname in facts.defined_functions():
        ps = facts.params(fname)
        if len(ps) != 2 or "**" not in (ps[0].type or "").replace(" ", ""):
            continue
        fieldp, valp = ps[0].name, ps[1].name
        seq = []
        for x in facts.func(fname).walk():
            if x.kind == "CallExpr" and callee(x) in ("Py_XINCREF",
                                                      "Py_INCREF"):
                a = strip(x.ch[1])
                if a.kind == "DeclRefExpr" and a.ref == valp:
                    seq.append("inc")
            if x.kind == "BinaryOperator" and x.op == "=":
                l = strip(x.ch[0])
                r = strip(x.ch[1])
                if l.kind == "UnaryOperator" and l.op == "*" \
                        and strip(l.ch[0]).kind == "DeclRefExpr" \
                        and strip(l.ch[0]).ref == fieldp \
                        and r.kind == "DeclRefExpr" and r.ref == valp:
                    seq.append("store")
            if x.kind == "CallExpr" and callee(x) in ("Py_XDECREF",):
                seq.append("dec")
        if seq == ["inc", "store", "dec"]:
            out.add(fname)
    return out


# ---------------------------------------------------------------------------
# C13.kind-table

KIND_POLICY = {
    # TraitKind member -> (getattr stem, setattr stem)
    "trait": ("trait", "trait"),
    "python": ("python", "python"),
    "event": ("event", "event"),
    "delegate": ("delegate", "delegate"),
    # property: placeholder until set_property() installs the real handlers;
    # until then it can be neither read nor (meaningfully) stored
    "property": ("event", "event"),
    "disallow": ("disallow", "disallow"),
    # read_only reads like a normal trait, writes through the write-once guard
    "read_only": ("trait", "readonly"),
    "constant": ("constant", "constant"),
    "generic": ("generic", "generic"),
}


@rule("C13.kind-table", ["C13"],
      "TraitKind member i selects the getter/setter implementing its policy; "
      "trait_new bounds kind to the table prefix")
def kind_table(ctx, res):
    facts = get_cfacts(ctx)
    kinds = py_enum(ctx, "traits/constants.py", "TraitKind")
    gt, st = facts.table("getattr_handlers"), facts.table("setattr_handlers")
    unknown = set(kinds) - set(KIND_POLICY)
    if unknown:
        raise AnalysisError(f"TraitKind members without a policy row: {unknown}")
    for name, idx in sorted(kinds.items(), key=lambda x: x[1]):
        eg, es = KIND_POLICY[name]
        key = f"TraitKind.{name}={idx}"
        res.instance(key, f"{CREL}:{facts.global_var('getattr_handlers').line}")
        ok_idx = idx < len(gt) and idx < len(st)
        res.oblige(ok_idx, key + ":slot", "traits/constants.py",
                   f"TraitKind.{name}={idx} has no slot in the handler tables")
        if not ok_idx:
            continue
        res.oblige(gt[idx] == f"getattr_{eg}", key + ":getattr",
                   facts.loc(facts.global_var("getattr_handlers")),
                   f"getattr_handlers[{idx}] is {gt[idx]}, policy of "
                   f"TraitKind.{name} needs getattr_{eg}")
        res.oblige(st[idx] == f"setattr_{es}", key + ":setattr",
                   facts.loc(facts.global_var("setattr_handlers")),
                   f"setattr_handlers[{idx}] is {st[idx]}, policy of "
                   f"TraitKind.{name} needs setattr_{es}")
    # enum values are exactly 0..n-1
    res.oblige(sorted(kinds.values()) == list(range(len(kinds))),
               "TraitKind:dense", "traits/constants.py",
               "TraitKind values are not 0..n-1")
    res.floor(9)


# ---------------------------------------------------------------------------
# C03.tables

VALIDATE_ALIASES = {"int": "integer", "coerce": "coerce_type",
                    "cast": "cast_type"}
NULL_SLOTS = {"int_range", "slow", "prefix_map"}     # documented unused/slow


def switch_cases(fn, facts, cond_var=None):
    """[(SwitchStmt, [case ints])] of a function."""
    out = []
    for x in fn.walk():
        if x.kind == "SwitchStmt":
            cases = []
            for c in x.walk():
                if c.kind == "CaseStmt":
                    v = int_value(c.ch[0])
                    if v is None and c.ch[0].value is not None:
                        v = int(c.ch[0].value)
                    cases.append(v)
                elif c.kind == "SwitchStmt" and c is not x:
                    pass
            out.append((x, cases))
    return out


@rule("C03.tables", ["C03"],
      "ValidateTrait members, validate_handlers slots, set_validate case "
      "labels and the compound switch agree")
def c03_tables(ctx, res):
    facts = get_cfacts(ctx)
    vt = py_enum(ctx, "traits/constants.py", "ValidateTrait")
    table = facts.table("validate_handlers")
    by_stem = {}
    for m in vt:
        by_stem[VALIDATE_ALIASES.get(m, m)] = m
    for m, idx in sorted(vt.items(), key=lambda x: x[1]):
        key = f"ValidateTrait.{m}={idx}"
        loc = facts.loc(facts.global_var("validate_handlers"))
        res.instance(key, loc)
        if idx >= len(table):
            res.violation(key + ":slot", loc,
                          f"no validate_handlers slot {idx} for {m}")
            continue
        fn = table[idx]
        if m in NULL_SLOTS:
            res.oblige(fn is None, key, loc,
                       f"slot {idx} ({m}) is documented as not handled in C "
                       f"but holds {fn}")
            continue
        if fn is None:
            res.violation(key, loc, f"ValidateTrait.{m} has a NULL handler: "
                          f"traits of this kind would not be validated")
            continue
        if not fn.startswith("validate_trait_"):
            raise AnalysisError(f"unrecognised handler name {fn} in slot {idx}")
        stem = fn[len("validate_trait_"):]
        owner = by_stem.get(stem)
        if owner is None:
            raise AnalysisError(f"handler {fn} in slot {idx} matches no "
                                f"ValidateTrait member")
        res.oblige(owner == m, key, loc,
                   f"validate_handlers[{idx}] is {fn} (the validator of "
                   f"ValidateTrait.{owner}) but slot {idx} is "
                   f"ValidateTrait.{m}")
    # slots not named by the enum must be the property validators
    named = set(vt.values())
    for i, fn in enumerate(table):
        if i in named:
            continue
        res.oblige(fn is not None and fn.startswith("setattr_validate"),
                   f"validate_handlers[{i}]",
                   facts.loc(facts.global_var("validate_handlers")),
                   f"slot {i} is not a ValidateTrait member and holds {fn}")
    # _trait_set_validate accepts exactly the fast kinds with a handler,
    # except python (installed for bare callables) and complex/tuple etc.
    sv = facts.func("_trait_set_validate")
    sw = switch_cases(sv, facts)
    if len(sw) != 1:
        raise AnalysisError("_trait_set_validate: expected one switch")
    accepted = set(sw[0][1])
    fast = {i for m, i in vt.items() if m not in NULL_SLOTS and m != "python"}
    res.instance("_trait_set_validate:cases", facts.loc(sw[0][0]),
                 cases=sorted(accepted))
    res.oblige(accepted == fast, "_trait_set_validate:cases",
               facts.loc(sw[0][0]),
               f"set_validate accepts kinds {sorted(accepted)}; kinds with a "
               f"C handler are {sorted(fast)} (difference "
               f"{sorted(accepted ^ fast)})")
    # the compound validator handles every kind that may appear inside a
    # compound descriptor: all fast kinds except complex itself and python,
    # plus 'slow' (8) which defers to the Python handler
    cx = facts.func("validate_trait_complex")
    sw = switch_cases(cx, facts)
    outer = max(sw, key=lambda s: len(s[1]))
    got = set(outer[1])
    want = (fast - {vt["complex"], vt["tuple"]}) | {vt["slow"], vt["tuple"]}
    want -= {vt["complex"]}
    res.instance("validate_trait_complex:cases", facts.loc(outer[0]),
                 cases=sorted(got))
    res.oblige(got == want | (got & {vt["python"]}),
               "validate_trait_complex:cases", facts.loc(outer[0]),
               f"compound switch handles {sorted(got)}; expected "
               f"{sorted(want)} (difference {sorted(got ^ want)})")
    res.floor(22)


# ---------------------------------------------------------------------------
# C14.state-roundtrip: CTrait.__getstate__ / __setstate__ agree item by item

def _const_eval(n):
    n = strip(n)
    if n is None:
        return None
    v = int_value(n)
    if v is not None:
        return v
    if n.kind == "BinaryOperator" and n.op in ("|", "&", "+", "<<"):
        a, b = _const_eval(n.ch[0]), _const_eval(n.ch[1])
        if a is None or b is None:
            return None
        return {"|": a | b, "&": a & b, "+": a + b, "<<": a << b}[n.op]
    if n.kind == "UnaryOperator" and n.op == "~":
        a = _const_eval(n.ch[0])
        return None if a is None else (~a) & 0xFFFFFFFF
    return None


def _trait_field(n):
    """'F' when ``n`` is ``trait-><F>`` (through casts), else None"""
    n = strip(n)
    if n is not None and n.kind == "MemberExpr" and n.arrow \
            and "trait_object" in (strip(n.ch[0]).type or ""):
        return n.name
    return None


FMT_OF = {"idx": "i", "obj": "O", "int": "i", "uint": "Ik", "none": "O"}


@rule("C14.state-roundtrip", ["C14"],
      "CTrait.__getstate__ and __setstate__ agree item by item: the field "
      "(and function table) item i is written from is the field item i is "
      "restored into, with a matching format, and restored scalars are not "
      "altered afterwards")
def state_roundtrip(ctx, res):
    facts = get_cfacts(ctx)
    gs = facts.func("_trait_getstate")
    ss = facts.func("_trait_setstate")
    # ---- writer -------------------------------------------------------------
    written = {}
    for c in gs.walk():
        if c.kind == "CallExpr" and callee(c) == "PyTuple_SET_ITEM":
            i = int_value(c.ch[2])
            v = strip(c.ch[3])
            desc = None
            if v.kind == "CallExpr":
                cal = callee(v)
                a = strip(v.ch[1]) if len(v.ch) > 1 else None
                if cal == "get_value":
                    f = _trait_field(a)
                    desc = ("obj", f) if f else (
                        ("none", None) if is_null(a) else None)
                elif cal in index_encoders(facts) \
                        and index_encoders(facts)[cal][2]:
                    fi, ti, _b = index_encoders(facts)[cal]
                    f = _trait_field(v.ch[1 + fi])
                    t = strip(v.ch[1 + ti])
                    desc = ("idx", f, t.ref if t.kind == "DeclRefExpr"
                            else "?")
                elif cal in ("PyLong_FromLong", "PyLong_FromUnsignedLong"):
                    if a is not None and a.kind == "CallExpr" \
                            and callee(a) in index_encoders(facts) \
                            and not index_encoders(facts)[callee(a)][2]:
                        fi, ti, _b = index_encoders(facts)[callee(a)]
                        f = _trait_field(a.ch[1 + fi])
                        t = strip(a.ch[1 + ti])
                        desc = ("idx", f, t.ref if t.kind == "DeclRefExpr"
                                else "?")
                    else:
                        f = _trait_field(a)
                        if f:
                            desc = ("uint" if "Unsigned" in cal else "int", f)
            if i is None or desc is None:
                raise AnalysisError(
                    f"_trait_getstate: item `{cnorm(c)[:80]}` not recognised")
            written[i] = (desc, facts.loc(c))
    n_items = len(written)
    if n_items < 10 or sorted(written) != list(range(n_items)):
        raise AnalysisError(f"_trait_getstate: items {sorted(written)}")
    # ---- reader -------------------------------------------------------------
    parse = [c for c in ss.walk() if c.kind == "CallExpr"
             and callee(c) == "PyArg_ParseTuple"]
    if len(parse) != 1:
        raise AnalysisError("_trait_setstate: PyArg_ParseTuple not found")
    parse = parse[0]
    fmt = strip(parse.ch[2])
    if fmt.kind != "StringLiteral":
        raise AnalysisError("_trait_setstate: format is not a literal")
    chars = [ch for ch in str(fmt.value).strip('"') if ch.isalpha()]
    dests = parse.ch[3:]
    res.instance("_trait_setstate:format", facts.loc(parse),
                 format="".join(chars), items=n_items)
    res.oblige(len(chars) == n_items == len(dests),
               "_trait_setstate:arity", facts.loc(parse),
               f"__getstate__ writes {n_items} items, __setstate__ parses "
               f"{len(chars)} into {len(dests)} destinations")
    # stores `trait->F = table[local]`
    via_local = {}
    for x in ss.walk():
        if x.kind == "BinaryOperator" and x.op == "=":
            f = _trait_field(x.ch[0])
            r = strip(x.ch[1])
            if f and r.kind == "ArraySubscriptExpr":
                t = strip(r.ch[0])
                ix = strip(r.ch[1])
                if t.kind == "DeclRefExpr" and ix.kind == "DeclRefExpr":
                    via_local[ix.ref] = (f, t.ref)
    # a destination may be a local that is committed to the trait only after
    # the whole state was validated: `trait->F = L` or `h(&trait->F, L)`
    # (h an in-file setter helper); the local then stands for that field
    local_field = {}
    restoring_stores = set()
    for x in ss.walk():
        if x.kind == "BinaryOperator" and x.op == "=":
            f = _trait_field(x.ch[0])
            r = strip(x.ch[1])
            if f and r is not None and r.kind == "DeclRefExpr" \
                    and r.refkind in ("VarDecl", None) and r.ref:
                local_field.setdefault(r.ref, set()).add(f)
                restoring_stores.add(id(x))
        elif x.kind == "CallExpr" and facts.has_func(callee(x)) \
                and len(x.ch) == 3:
            a0, a1 = strip(x.ch[1]), strip(x.ch[2])
            if a0 is not None and a0.kind == "UnaryOperator" and a0.op == "&" \
                    and a1 is not None and a1.kind == "DeclRefExpr":
                f = _trait_field(strip(a0.ch[0]))
                if f:
                    local_field.setdefault(a1.ref, set()).add(f)
    parsed_locals = {}
    for i, (ch, d) in enumerate(zip(chars, dests)):
        if i not in written:
            break
        desc, wloc = written[i]
        d = strip(d)
        key = f"state-item:{i}"
        res.instance(key, wloc, written=list(desc))
        target = None
        if d.kind == "UnaryOperator" and d.op == "&":
            inner = strip(d.ch[0])
            f = _trait_field(inner)
            if f:
                target = ("field", f)
            elif inner.kind == "DeclRefExpr":
                target = ("local", inner.ref)
                flows = local_field.get(inner.ref, set())
                if desc[0] in ("obj", "int", "uint") and len(flows) == 1:
                    target = ("field", next(iter(flows)))
                    parsed_locals[inner.ref] = target[1]
        if target is None:
            raise AnalysisError(f"_trait_setstate: destination {i} "
                                f"`{cnorm(d)}` not recognised")
        res.oblige(ch in FMT_OF[desc[0]], key + ":format", facts.loc(parse),
                   f"item {i} is written as {desc[0]} "
                   f"({desc[1] or 'None'}) but parsed with format "
                   f"'{ch}'")
        if desc[0] == "idx":
            got = via_local.get(target[1]) if target[0] == "local" else None
            res.oblige(got == (desc[1], desc[2]), key + ":table",
                       facts.loc(parse),
                       f"item {i} is the index of trait->{desc[1]} in "
                       f"{desc[2]} but is restored as "
                       f"{'trait->%s = %s[...]' % got if got else 'nothing'}")
        elif desc[0] == "none":
            res.oblige(target[0] == "local", key + ":ignored",
                       facts.loc(parse),
                       f"item {i} (always None) is restored into "
                       f"trait->{target[1]}")
        else:
            res.oblige(target == ("field", desc[1]), key + ":field",
                       facts.loc(parse),
                       f"item {i} is written from trait->{desc[1]} but "
                       f"restored into {target[0]} `{target[1]}`")
    # ---- restored scalars are not altered -----------------------------------
    all_bits = 0
    import re as _re
    for name, body in facts.macros.items():
        # the CTrait flag block: TRAIT_* macros written as unsigned hex masks
        if name.startswith("TRAIT_") and _re.fullmatch(
                r"\(?0[xX][0-9a-fA-F]+[uU]\)?", body.strip()):
            all_bits |= facts.macro_int(name)
    if bin(all_bits).count("1") < 5:
        raise AnalysisError(f"CTrait flag macros not found ({all_bits:#x})")
    scalars = {d[0][1] for d in written.values() if d[0][0] in ("int", "uint")}
    for x in ss.walk():
        if x.kind in ("BinaryOperator", "CompoundAssignOperator") \
                and x.op.endswith("=") and x.op not in ("==", "!=", "<=", ">="):
            f = _trait_field(x.ch[0])
            l = strip(x.ch[0])
            if f is None and l is not None and l.kind == "DeclRefExpr" \
                    and l.ref in parsed_locals:
                f = parsed_locals[l.ref]    # the local standing for the field
            elif id(x) in restoring_stores and strip(x.ch[1]).ref in parsed_locals \
                    and parsed_locals[strip(x.ch[1]).ref] == f:
                continue                    # the restoring store itself
            if f not in scalars:
                continue
            key = f"_trait_setstate:alters:{f}"
            ok = False
            if x.op == "&=":
                m = _const_eval(x.ch[1])
                ok = m is not None and (m & all_bits) == all_bits
            res.oblige(ok, key, facts.loc(x),
                       f"`{cnorm(x)[:80]}` changes trait->{f} after it was "
                       f"restored from the state: defined bits "
                       f"{all_bits:#x} do not all survive a pickle/copy "
                       f"round trip of the trait definition")
    res.instance("_trait_setstate:scalars", facts.loc(ss),
                 fields=sorted(scalars), flag_bits=hex(all_bits))
    res.floor(n_items + 2)


# ---------------------------------------------------------------------------
# C18.slot-arity: a function-pointer slot that is invoked with two different
# signatures holds a function of the minority signature exactly when the slot
# that selects the minority caller does

def _slot_call_sites(facts, field):
    """[(function, number of arguments)] of the calls made through
    `X->field` - directly, through a cast, or through a local that was
    loaded from the field"""
    out = []
    for fname in facts.defined_functions():
        fn = facts.func(fname)
        loaded = set()
        for x in fn.walk():
            name = rhs = None
            if x.kind == "VarDecl" and x.ch:
                name, rhs = x.name, x.ch[-1]
            elif x.kind == "BinaryOperator" and x.op == "=" and var(x.ch[0]):
                name, rhs = var(x.ch[0]), x.ch[1]
            if name and rhs is not None:
                r = strip(rhs)
                if r is not None and r.kind == "MemberExpr" and r.name == field:
                    loaded.add(name)
        for c in fn.walk():
            if c.kind != "CallExpr":
                continue
            f0 = c.ch[0]
            hit = False
            for y in f0.walk():
                if y.kind == "MemberExpr" and y.name == field:
                    hit = True
                if y.kind == "DeclRefExpr" and y.ref in loaded \
                        and y.refkind in ("VarDecl", "ParmVarDecl"):
                    hit = True
                if y.kind == "CallExpr" and y is not c:
                    hit = False
                    break
            if hit:
                out.append((fname, len(c.ch) - 1, c))
    return out


@rule("C18.slot-arity", ["C18", "C14"],
      "the post_setattr slot is invoked with two signatures (the 4-argument "
      "hook; and, cast back to a 5-argument setter, by the validated-property "
      "setter): every writer of the slot stores a 5-argument table member "
      "exactly on the paths on which the setattr slot is that setter - "
      "otherwise a function is called with the wrong number of arguments")
def slot_arity(ctx, res):
    from ..cfg import enumerate_paths
    facts = get_cfacts(ctx)
    tables = fp_tables(facts)
    field = "post_setattr"
    sites = _slot_call_sites(facts, field)
    by_arity = {}
    for f, n, c in sites:
        by_arity.setdefault(n, set()).add(f)
    res.instance(f"calls through ->{field}", CREL,
                 arities={str(k): sorted(v) for k, v in by_arity.items()})
    if len(by_arity) < 2:
        # one signature only: nothing to pair (the self-test keeps a
        # positive example)
        res.oblige(True, f"{field}:single-signature", "", "")
        res.floor(1)
        return
    if len(by_arity) != 2:
        raise AnalysisError(f"->{field} is invoked with {sorted(by_arity)} "
                            f"argument counts")
    (a_min, users_min), (a_maj, users_maj) = sorted(
        by_arity.items(), key=lambda kv: len(kv[1]))
    if len(users_min) != 1:
        raise AnalysisError(f"minority signature of ->{field} used by "
                            f"{sorted(users_min)}")
    umin = next(iter(users_min))
    # the slot that selects the minority caller: the table that lists it
    dfield = None
    gs = facts.func("_trait_getstate")
    from ..cfacts import func_index_calls
    for c, a0, a1, _boxed in func_index_calls(facts, gs):
        if a0.kind == "MemberExpr" and a1.kind == "DeclRefExpr" \
                and umin in tables.get(a1.ref, []):
            dfield, dtable = a0.name, a1.ref
    if dfield is None:
        raise AnalysisError(f"{umin} is not a member of a handler table")
    res.instance("pairing", CREL, minority_caller=umin, selected_by=dfield,
                 minority_arity=a_min, majority_arity=a_maj)

    def arity_of(fn_name):
        return len(facts.params(fn_name)) if fn_name else None

    n_writers = 0
    for fname in facts.defined_functions():
        fn = facts.func(fname)
        stores = [x for x in fn.walk() if x.kind == "BinaryOperator"
                  and x.op == "=" and strip(x.ch[0]).kind == "MemberExpr"
                  and strip(x.ch[0]).name == field
                  and "trait_object" in (strip(strip(x.ch[0]).ch[0]).type or "")]
        if not stores:
            continue
        n_writers += 1
        g = get_ccfg(ctx, facts, fname)
        fl = IntervalFlow(facts, g, tables)
        bad = None
        n_paths = 0
        def relates(e):
            """True / False when `e` is the test D == umin / D != umin"""
            if e is None or not (e.kind == "BinaryOperator"
                                 and e.op in ("==", "!=")):
                return None
            l, r = strip(e.ch[0]), strip(e.ch[1])
            for a, b in ((l, r), (r, l)):
                if b.kind == "DeclRefExpr" and b.ref == umin and (
                        (a.kind == "MemberExpr" and a.name == dfield)
                        or (a.kind == "ArraySubscriptExpr"
                            and strip(a.ch[0]).kind == "DeclRefExpr"
                            and strip(a.ch[0]).ref == dtable)):
                    return e.op == "=="
            return None

        for path in enumerate_paths(g, max_paths=20000):
            st = frozenset()
            flags = {}           # local -> polarity of `D == umin` it holds
            flagtruth = {}       # local -> outcome of its test on this path
            dfact = None         # True: D is umin, False: D is not umin
            dstore = None
            feasible = True
            for nid, lab in path:
                nd = g.nodes[nid]
                if nd.ast is None:
                    continue
                if nd.kind == "cond" and lab in ("T", "F"):
                    e = strip(nd.ast)
                    st2 = fl.refine(e, lab == "T", st)
                    if st2 is None:
                        feasible = False
                        break
                    st = st2
                    pol = relates(e)
                    if pol is not None:
                        dfact = (lab == "T") == pol
                    elif e.kind == "DeclRefExpr" and e.ref in flags:
                        # a local that holds the outcome of that comparison:
                        # tested twice on one path, it has one value
                        if flagtruth.setdefault(e.ref, lab == "T") \
                                != (lab == "T"):
                            feasible = False
                            break
                        dfact = (lab == "T") == flags[e.ref]
                    continue
                if nd.kind != "stmt":
                    continue
                for x in nd.ast.walk():
                    tgt = src = None
                    if x.kind == "BinaryOperator" and x.op == "=" \
                            and strip(x.ch[0]).kind == "DeclRefExpr":
                        tgt, src = strip(x.ch[0]).ref, strip(x.ch[1])
                    elif x.kind == "VarDecl" and x.ch:
                        tgt, src = x.name, strip(x.ch[-1])
                    if tgt is None or src is None:
                        continue
                    pol = relates(src)
                    flagtruth.pop(tgt, None)
                    if pol is not None:
                        flags[tgt] = pol
                    else:
                        flags.pop(tgt, None)
                st = fl.kill_assigned(nd, st)
                for x in nd.ast.walk():
                    if not (x.kind == "BinaryOperator" and x.op == "="):
                        continue
                    lhs, rhs = strip(x.ch[0]), strip(x.ch[1])
                    if lhs.kind != "MemberExpr":
                        continue
                    if lhs.name == dfield:
                        if rhs.kind == "DeclRefExpr" \
                                and rhs.refkind == "FunctionDecl":
                            dstore = (rhs.ref == umin)
                        elif rhs.kind == "MemberExpr" and rhs.name == dfield:
                            dstore = "copy"
                        else:
                            dstore = dfact      # table[idx]: what the path knows
                    if lhs.name != field or x not in stores:
                        continue
                    # what may be stored, by arity
                    ar = set()
                    copy = False
                    if rhs.kind == "DeclRefExpr" and rhs.refkind == "FunctionDecl":
                        ar.add(arity_of(rhs.ref))
                    elif is_null(rhs):
                        ar.add("null")
                    elif rhs.kind == "MemberExpr" and rhs.name == field:
                        copy = True
                    elif rhs.kind == "ArraySubscriptExpr" \
                            and strip(rhs.ch[0]).kind == "DeclRefExpr" \
                            and strip(rhs.ch[0]).ref in tables:
                        ents = tables[strip(rhs.ch[0]).ref]
                        lo, hi = fl.eval_int(rhs.ch[1], st)
                        lo = 0 if lo == -INF else int(lo)
                        hi = len(ents) - 1 if hi == INF else int(hi)
                        for m in ents[max(lo, 0):hi + 1]:
                            ar.add(arity_of(m) if m else "null")
                    else:
                        raise AnalysisError(
                            f"{fname}: unclassified store into ->{field}: "
                            f"{cnorm(rhs)}")
                    n_paths += 1
                    d = dstore if dstore is not None else dfact
                    if copy:
                        ok = dstore == "copy"
                        why = (f"->{field} is copied from another trait but "
                               f"->{dfield} is not copied with it")
                    elif d is True:
                        ok = ar <= {a_min}
                        why = (f"->{dfield} is {umin} on this path but "
                               f"->{field} may receive a member with "
                               f"{sorted(map(str, ar - {a_min}))} parameters "
                               f"(or NULL), which {umin} calls with {a_min} "
                               f"arguments")
                    elif d is False:
                        ok = a_min not in ar
                        why = (f"->{dfield} is not {umin} on this path but "
                               f"->{field} may receive a {a_min}-parameter "
                               f"member, which the other callers invoke with "
                               f"{a_maj} arguments")
                    else:
                        ok = False
                        why = (f"nothing on this path relates ->{dfield} to "
                               f"{umin}, while ->{field} may receive members "
                               f"with {sorted(map(str, ar))} parameters: a "
                               f"{a_min}-parameter function can end up being "
                               f"called with {a_maj} arguments or the other "
                               f"way round (type confusion / crash)")
                    if not ok and bad is None:
                        bad = (x, why)
            if not feasible:
                continue
        res.instance(fname, facts.loc(fn), stores=len(stores), sites=n_paths)
        if bad is None:
            res.oblige(True, fname, "", "")
        else:
            res.violation(f"{fname}:{field}:pairing", facts.loc(bad[0]),
                          f"{fname}: {bad[1]}")
    if n_writers < 3:
        raise AnalysisError(f"only {n_writers} writers of ->{field} found")
    res.floor(4)


# ---------------------------------------------------------------------------
# C18.default-shape: what default_value_for unpacks without looking is
# guaranteed by every writer of (default_value_type, default_value)

@rule("C18.default-shape", ["C18", "C14", "C10"],
      "default_value_for dispatches on trait->default_value_type without a "
      "default arm and unpacks trait->default_value with PyTuple_GET_ITEM in "
      "the callable-and-arguments arm: every function that stores an "
      "externally supplied kind bounds it to the dispatched kinds and, for "
      "the unpacking kind, has checked that the stored value is a tuple of "
      "sufficient size (sibling writers agree with the validating setter)")
def default_shape(ctx, res):
    from ..cfg import enumerate_paths
    facts = get_cfacts(ctx)
    tables = fp_tables(facts)
    TF, VF = "default_value_type", "default_value"
    # ---- reader ---------------------------------------------------------
    g = get_ccfg(ctx, facts, "default_value_for")
    sw = [n for n in g.nodes if n.kind == "switch"
          and cnorm(n.ast).endswith("->" + TF)]
    if len(sw) != 1:
        raise AnalysisError("default_value_for: dispatch on the kind not found")
    kinds = sorted(lab[1] for lab, t in g.succ[sw[0].id]
                   if isinstance(lab, tuple))
    has_default = any(n.kind == "join" and False for n in g.nodes)
    need = {}       # kind -> minimal tuple size
    fn = facts.func("default_value_for")
    # case arms: walk the switch body statement list
    cur = None
    def visit(n):
        nonlocal cur
        if n.kind == "CaseStmt":
            v = int_value(n.ch[0])
            if v is None:
                try:
                    v = int(n.ch[0].value)
                except (TypeError, ValueError):
                    v = None
            cur = v
        if n.kind == "CallExpr" and callee(n) == "PyTuple_GET_ITEM" \
                and cur is not None:
            j = int_value(n.ch[2])
            if j is not None:
                need[cur] = max(need.get(cur, 0), j + 1)
        for c in n.ch:
            visit(c)
    # PyTuple_GET_ITEM is a macro on some builds: also look for ob_item[j]
    def visit2(n):
        nonlocal cur
        if n.kind == "CaseStmt":
            v = int_value(n.ch[0])
            cur = v if v is not None else cur
        if n.kind == "ArraySubscriptExpr" and "ob_item" in cnorm(n.ch[0]) \
                and cur is not None:
            j = int_value(n.ch[1])
            if j is not None:
                need[cur] = max(need.get(cur, 0), j + 1)
        for c in n.ch:
            visit2(c)
    visit(fn)
    cur = None
    visit2(fn)
    res.instance("default_value_for", facts.loc(fn), kinds=kinds,
                 unpacked={str(k): v for k, v in need.items()})
    if len(kinds) < 8 or not need:
        raise AnalysisError(f"default_value_for: kinds {kinds}, unpacking "
                            f"arms {need}")
    lo_k, hi_k = min(kinds), max(kinds)
    # ---- writers --------------------------------------------------------
    n_writers = 0
    for fname in facts.defined_functions():
        f = facts.func(fname)
        stores = [x for x in f.walk() if x.kind == "BinaryOperator"
                  and x.op == "=" and strip(x.ch[0]).kind == "MemberExpr"
                  and strip(x.ch[0]).name == TF]
        if not stores:
            continue
        gw = get_ccfg(ctx, facts, fname)
        fl = IntervalFlow(facts, gw, tables)
        for s_ in stores:
            rhs = strip(s_.ch[1])
            key = f"{fname}:{TF}"
            if rhs.kind == "MemberExpr" and rhs.name == TF:
                res.instance(key, facts.loc(s_), source="copy of another trait")
                res.oblige(True, key, "", "")
                n_writers += 1
                continue
            v = var(rhs)
            if v is None:
                raise AnalysisError(f"{fname}: kind stored from `{cnorm(rhs)}`")
            n_writers += 1
            res.instance(key, facts.loc(s_), source=v)
            bad = None
            for path in enumerate_paths(gw, max_paths=40000):
                st = frozenset()
                checked_tuple = set()      # value texts known to be tuples
                sized = {}                 # value text -> known size
                not_kinds = set()
                reached = False
                feasible = True
                for nid, lab in path:
                    nd = gw.nodes[nid]
                    if nd.ast is None:
                        continue
                    if nd.kind == "switch":
                        if cnorm(nd.ast) == v:
                            if isinstance(lab, tuple):
                                st = fl.put(st, v, lab[1], lab[1])
                            else:
                                not_kinds |= {l[1] for l, t in gw.succ[nid]
                                              if isinstance(l, tuple)}
                        continue
                    if nd.kind == "cond" and lab in ("T", "F"):
                        e = strip(nd.ast)
                        st2 = fl.refine(e, lab == "T", st)
                        if st2 is None:
                            feasible = False
                            break
                        st = st2
                        t = cnorm(e)
                        truth = lab == "T"
                        if e.kind == "CallExpr" and callee(e) in (
                                "PyTuple_Check", "PyTuple_CheckExact") and truth:
                            checked_tuple.add(cnorm(e.ch[1]))
                        # the macro-expanded form of PyTuple_Check:
                        # PyType_HasFeature(Py_TYPE(x), Py_TPFLAGS_TUPLE_SUBCLASS)
                        if e.kind == "CallExpr" and truth \
                                and callee(e) == "PyType_HasFeature" \
                                and len(e.ch) == 3 \
                                and cnorm(e.ch[2]).replace(" ", "") in (
                                    "(1<<26)", "(1UL<<26)", "67108864"):
                            a0 = strip(e.ch[1])
                            if a0.kind == "CallExpr" and callee(a0) == "Py_TYPE":
                                checked_tuple.add(cnorm(a0.ch[1]))
                        if e.kind == "BinaryOperator" and e.op in ("==", "!="):
                            l, r = strip(e.ch[0]), strip(e.ch[1])
                            for a, b in ((l, r), (r, l)):
                                k = int_value(b)
                                if k is not None and var(a) == v \
                                        and (truth != (e.op == "==")):
                                    not_kinds.add(k)     # v != k on this path
                                if k is not None and a.kind == "CallExpr" \
                                        and callee(a) in ("PyTuple_GET_SIZE",
                                                          "PyTuple_Size") \
                                        and (truth == (e.op == "==")):
                                    sized[cnorm(a.ch[1])] = k
                        continue
                    if nd.kind == "stmt" and any(x is s_ for x in nd.ast.walk()):
                        reached = True
                        break
                    if nd.kind == "stmt":
                        st = fl.kill_assigned(nd, st)
                if not feasible or not reached:
                    continue
                lo, hi = fl.get(st, v)
                if lo < lo_k or hi > hi_k:
                    if bad is None:
                        bad = (f"the kind `{v}` reaches trait->{TF} with "
                               f"range [{lo}, {hi}] on some path, the "
                               f"dispatch in default_value_for knows "
                               f"{lo_k}..{hi_k} (an unknown kind returns NULL "
                               f"without an exception)")
                    continue
                # the value stored on the same function into ->default_value
                vstores = [strip(x.ch[1]) for x in f.walk()
                           if x.kind == "BinaryOperator" and x.op == "="
                           and strip(x.ch[0]).kind == "MemberExpr"
                           and strip(x.ch[0]).name == VF]
                vstores += [strip(c.ch[2]) for c in f.walk()
                            if c.kind == "CallExpr" and len(c.ch) == 3
                            and "&" in cnorm(c.ch[1])
                            and cnorm(c.ch[1]).endswith("->" + VF)]
                vtexts = {cnorm(x) for x in vstores if x is not None}
                for k, size in need.items():
                    if not (lo <= k <= hi) or k in not_kinds:
                        continue
                    ok = any(t in checked_tuple and sized.get(t, -1) >= size
                             for t in vtexts)
                    if not ok and bad is None:
                        bad = (f"kind {k} can be stored with a default value "
                               f"({sorted(vtexts)}) that was not checked to "
                               f"be a tuple of {size} items: "
                               f"default_value_for reads items 0..{size - 1} "
                               f"of it unchecked (out-of-bounds read)")
            res.oblige(bad is None, f"{fname}:{TF}:shape", facts.loc(s_),
                       f"{fname}: {bad}")
    if n_writers < 3:
        raise AnalysisError(f"only {n_writers} writers of ->{TF} found")
    res.floor(3)


# ---------------------------------------------------------------------------
# C14.dict-slot: what the interpreter reads through tp_dictoffset is a dict

@rule("C14.dict-slot", ["C14", "C18"],
      "the last field of has_traits_object / trait_object is registered as "
      "the instance dictionary (tp_dictoffset): the interpreter's generic "
      "attribute access reads it as NULL-or-dict.  Every store into that "
      "field - direct or through set_value(&x->field, v) - stores NULL, a "
      "fresh PyDict_New(), the same field of another object, or a value that "
      "passed PyDict_Check on that path; __setstate__ restoring the None that "
      "__getstate__ wrote for an absent dictionary is the case this decides")
def dict_slot(ctx, res):
    from ..csym import cached_paths, flush_paths
    facts = get_cfacts(ctx)
    # the anchor: type objects whose dictionary offset is `sizeof(T) -
    # sizeof(PyObject *)`, i.e. the last field of T
    n_types = 0
    for d in facts.decls:
        if d.kind == "VarDecl" and (d.type or "").startswith("PyTypeObject"):
            for x in d.walk():
                if x.kind == "BinaryOperator" and x.op == "-" \
                        and all(strip(c).kind == "UnaryExprOrTypeTraitExpr"
                                for c in x.ch):
                    n_types += 1
                    break
    fields = set()
    for d in facts.decls:
        if d.kind == "RecordDecl":
            fs = [c.name for c in d.ch if c.kind == "FieldDecl"]
            if len(fs) > 3:
                fields.add(fs[-1])
    if n_types < 2 or len(fields) != 1:
        raise AnalysisError(f"dictionary slots not found (types {n_types}, "
                            f"last fields {sorted(fields)})")
    field = fields.pop()
    suffix = "->" + field
    funcs = list(facts.defined_functions())
    n_sites = 0
    seen = {}
    for f in sorted(funcs):
        ps = cached_paths(ctx, facts, f)
        for p in ps or []:
            dict_checked = set()
            for it in p.trace:
                if it[0] == "atom" and it[2] is True:
                    m = re.fullmatch(
                        r"PyType_HasFeature\(Py_TYPE\((.+)\), "
                        r"\(1U?L? << 29\)\)", it[1])
                    if m:
                        dict_checked.add(m.group(1))
                    m = re.fullmatch(r"PyDict_Check(?:Exact)?\((.+)\)", it[1])
                    if m:
                        dict_checked.add(m.group(1))
                tgt = rhs = line = None
                if it[0] == "store" and it[1].endswith(suffix):
                    tgt, rhs, line = it[1], it[2], it[3]
                elif it[0] == "call" and it[1] == "set_value" \
                        and len(it[2]) == 2 and it[2][0].startswith("&") \
                        and it[2][0].endswith(suffix):
                    tgt, rhs, line = it[2][0][1:], it[2][1], it[4]
                if tgt is None:
                    continue
                key = f"{f}:{line}"
                r = rhs.strip()
                while r.startswith("(") and r.endswith(")") \
                        and r.count("(") == r.count(")") \
                        and not re.match(r"\([A-Za-z_ ]+\*?\)", r):
                    r = r[1:-1].strip()
                r = re.sub(r"^\((?:struct )?[A-Za-z_]+ ?\*\)\s*", "", r)
                ok = (r in ("0", "NULL", "((void *)0)")
                      or r.startswith("PyDict_New(")
                      or r.endswith(suffix)
                      or r in dict_checked)
                st = seen.setdefault(key, {"f": f, "line": line, "bad": None,
                                           "n": 0})
                st["n"] += 1
                if not ok and st["bad"] is None:
                    st["bad"] = (tgt, rhs, p)
    flush_paths(ctx)
    for key, st in sorted(seen.items()):
        n_sites += 1
        res.instance(f"{st['f']}:{field}", f"{CREL}:{st['line']}",
                     paths=st["n"])
        if st["bad"] is None:
            res.oblige(True, f"{st['f']}:{field}:dict-or-null", "", "")
        else:
            tgt, rhs, p = st["bad"]
            res.violation(
                f"{st['f']}:{field}:dict-or-null", f"{CREL}:{st['line']}",
                f"{st['f']} stores `{rhs}` into {tgt}, the slot the "
                f"interpreter reads as the instance dictionary, on a path "
                f"where it is neither NULL, a new dictionary nor checked with "
                f"PyDict_Check: a None (what __getstate__ writes for an "
                f"absent dictionary) or any other object there makes every "
                f"later attribute access fail with SystemError",
                [f"{CREL}:{l}" for l in dict.fromkeys(p.lines) if l][-6:])
    if n_sites < 5:
        raise AnalysisError(f"only {n_sites} stores into ->{field} found")
    res.floor(5)
