"""C01.no-falloff: no Python validate method can fall off its end (implicit
`return None` would store None for a rejected value)."""
from __future__ import annotations

import ast
import re

from ..core import AnalysisError, rule
from ..pycfg import build_cfg
from ..pyfacts import get_pyrepo, is_self_call, norm

FILES = ["traits/trait_types.py", "traits/trait_handlers.py",
         "traits/trait_numeric.py", "traits/trait_type.py",
         "traits/base_trait_handler.py", "traits/trait_handler.py"]
NAME_RE = re.compile(r"^(validate|validate_\w+|\w+_validate|_validate|"
                     r"slow_validate|resolve|resolve_\w+|validate_failed|"
                     r"error|_validate_\w+|fast_validate|value_for|mapped_value|"
                     r"post_setattr)$")
VALIDATE_RE = re.compile(r"^(validate|validate_(?!failed$)\w+|"
                         r"(?!init_|set_|get_)\w+_validate|_validate)$")


def _noreturn_call_stmt(stmt, noreturn):
    return (isinstance(stmt, ast.Expr) and isinstance(stmt.value, ast.Call)
            and isinstance(stmt.value.func, ast.Attribute)
            and isinstance(stmt.value.func.value, ast.Name)
            and stmt.value.func.value.id == "self"
            and stmt.value.func.attr in noreturn)


def exit_preds(fn, name, noreturn):
    """Reachable CFG nodes that flow into the normal exit, after cutting the
    normal edge out of calls to no-return methods."""
    g = build_cfg(fn, name)
    cut = set()
    for n in g.nodes:
        if n.kind == "stmt" and _noreturn_call_stmt(n.ast, noreturn):
            cut.add(n.id)
    seen, stack = {g.entry.id}, [g.entry.id]
    preds = []
    while stack:
        x = stack.pop()
        for lab, y in g.succ[x]:
            if x in cut and lab != "exc":
                continue
            if y == g.exit.id:
                preds.append(g.nodes[x])
            if y not in seen:
                seen.add(y)
                stack.append(y)
    return preds, g


def compute_noreturn(repo):
    """Method names all of whose definitions (in the handler files) never
    return normally."""
    defs = {}
    for rel in FILES:
        m = repo.module(rel)
        for ci in m.classes.values():
            for name, fn in ci.methods.items():
                defs.setdefault(name, []).append((m, ci, fn))
    noreturn = set()
    for _ in range(5):
        changed = False
        for name, lst in defs.items():
            if name in noreturn:
                continue
            ok = True
            for m, ci, fn in lst:
                preds, g = exit_preds(fn, f"{ci.name}.{name}", noreturn)
                if preds:
                    ok = False
                    break
            if ok and lst:
                noreturn.add(name)
                changed = True
        if not changed:
            break
    return noreturn, defs


@rule("C01.no-falloff", ["C01"],
      "every path of every Python validate method ends in `return <value>`, "
      "`raise`, or a call to a method proved never to return")
def no_falloff(ctx, res):
    repo = get_pyrepo(ctx)
    noreturn, defs = compute_noreturn(repo)
    if "error" not in defs:
        raise AnalysisError("no `error` method found in the handler files")
    for name in ("error", "validate_failed"):
        if name in defs and name not in noreturn:
            m, ci, fn = defs[name][0]
            res.violation(f"{ci.name}.{name}:can-return", m.loc(fn),
                          f"{ci.name}.{name} can return normally: every "
                          f"validator that rejects by calling it would fall "
                          f"through and store None (and raise_trait_error in "
                          f"ctraits.c would return NULL without an exception)")
            noreturn.add(name)     # report once, not at every caller
    res.note(f"no-return methods: {sorted(noreturn)}")
    # error() raises TraitError built from (object, name, ..., value)
    bm = repo.module("traits/base_trait_handler.py")
    err = repo.func("traits/base_trait_handler.py", "BaseTraitHandler.error")
    raises = [n for n in ast.walk(err) if isinstance(n, ast.Raise)]
    ps = [a.arg for a in err.args.args]
    ok = bool(raises) and all(
        isinstance(r.exc, ast.Call) and norm(r.exc.func) == "TraitError"
        and {ps[1], ps[2], ps[3]} <= {norm(a) for a in r.exc.args}
        for r in raises)
    res.instance("BaseTraitHandler.error", bm.loc(err))
    res.oblige(ok, "BaseTraitHandler.error:raises-TraitError", bm.loc(err),
               "BaseTraitHandler.error does not raise TraitError(object, "
               "name, ..., value): rejections would not name the attribute")
    for rel in FILES:
        m = repo.module(rel)
        for ci in m.classes.values():
            for name, fn in ci.methods.items():
                if not VALIDATE_RE.match(name):
                    continue
                key = f"{ci.name}.{name}"
                preds, g = exit_preds(fn, key, noreturn)
                bad = []
                for n in preds:
                    if n.kind == "stmt" and isinstance(n.ast, ast.Return):
                        if n.ast.value is None or (
                                isinstance(n.ast.value, ast.Constant)
                                and n.ast.value.value is None):
                            bad.append((n, "returns None explicitly"))
                        continue
                    bad.append((n, "falls off the end (implicit return None)"))
                res.instance(key, m.loc(fn), exits=len(preds),
                             nontrivial=bool(preds) or True)
                if bad:
                    n, why = bad[0]
                    res.violation(f"{key}:falloff",
                                  f"{rel}:{n.line or fn.lineno}",
                                  f"{key} {why}: a rejected value would be "
                                  f"replaced by None instead of raising "
                                  f"TraitError")
                else:
                    res.oblige(True, key, "", "")
    res.floor(55)


# ---------------------------------------------------------------------------
# C01.string-dispatch: the validator String selects enforces every option

def _bool_run(stmts, val, target):
    """Run a list of If/Assign statements under a valuation of the atomic
    tests (normalised text -> bool); returns the constant finally assigned to
    ``target`` (dotted text).  Unknown atoms fail closed."""
    result = [None]
    flags = {}

    def ev(t):
        if isinstance(t, ast.Name) and t.id in flags:
            return ev(flags[t.id])      # a flag local naming a test
        if isinstance(t, ast.BoolOp):
            vals = [ev(v) for v in t.values]
            return all(vals) if isinstance(t.op, ast.And) else any(vals)
        if isinstance(t, ast.UnaryOp) and isinstance(t.op, ast.Not):
            return not ev(t.operand)
        k = norm(t)
        if k in val:
            return val[k]
        # negated spelling of a known atom
        if isinstance(t, ast.Compare) and len(t.ops) == 1:
            flip = {ast.Eq: ast.NotEq, ast.NotEq: ast.Eq}
            if type(t.ops[0]) in flip:
                t2 = ast.Compare(t.left, [flip[type(t.ops[0])]()],
                                 t.comparators)
                k2 = norm(t2)
                if k2 in val:
                    return not val[k2]
        # one-sided spellings over the options' value ranges: a length
        # bound is >= 0 and <= sys.maxsize, so `x > 0` is `not x == 0` and
        # `x < sys.maxsize` is `not x == sys.maxsize`
        if isinstance(t, ast.Compare) and len(t.ops) == 1:
            l_, r_ = norm(t.left), norm(t.comparators[0])
            eqk = f"{l_} == {r_}"
            if eqk in val and ((isinstance(t.ops[0], ast.Gt) and r_ == "0")
                               or (isinstance(t.ops[0], ast.Lt)
                                   and r_ == "sys.maxsize")):
                return not val[eqk]
            eqk2 = f"{r_} == {l_}"
            if eqk2 in val and ((isinstance(t.ops[0], ast.Lt) and l_ == "0")
                                or (isinstance(t.ops[0], ast.Gt)
                                    and l_ == "sys.maxsize")):
                return not val[eqk2]
        raise AnalysisError(f"condition `{k}` is outside the modelled options")

    def run(body):
        for s in body:
            if isinstance(s, ast.If):
                run(s.body if ev(s.test) else s.orelse)
            elif isinstance(s, ast.Assign):
                for t in s.targets:
                    v = s.value
                    if isinstance(t, ast.Name) and isinstance(
                            v, (ast.Compare, ast.BoolOp, ast.UnaryOp)):
                        flags[t.id] = v
                    while norm(t) == target and isinstance(v, ast.IfExp):
                        v = v.body if ev(v.test) else v.orelse
                    if norm(t) == target and isinstance(v, ast.Constant):
                        result[0] = v.value
            elif isinstance(s, ast.Expr):
                continue
            else:
                raise AnalysisError(f"unsupported statement in option "
                                    f"dispatch: {type(s).__name__}")
    run(stmts)
    return result[0]


@rule("C01.string-dispatch", ["C01"],
      "for every combination of String options the selected validate method "
      "enforces each active constraint (minlen, maxlen, regex)")
def string_dispatch(ctx, res):
    import itertools
    from .containers import FactFlow, ReturnFlow
    repo = get_pyrepo(ctx)
    T = "traits/trait_types.py"
    mod = repo.module(T)
    cls = repo.cls(T, "String")
    init = cls.methods.get("_init")
    if init is None:
        raise AnalysisError("String._init missing")
    # constraints enforced by each validate_* method on its accepting paths
    enforced = {}
    for name, fn in cls.methods.items():
        if not name.startswith("validate_"):
            continue
        fl = ReturnFlow(mod, fn, f"String.{name}")
        fl.run(frozenset())
        sets = []
        for ret, facts, nid in fl.returns:
            cs = set()
            for f in facts:
                if f[0] == "C" and f[1][0] != "NOTALL":
                    a, op, b = f[1]
                    if a.endswith(".minlen") and b.startswith("len("):
                        cs.add("minlen")
                    if a.startswith("len(") and b.endswith(".maxlen"):
                        cs.add("maxlen")
                if f[0] == "T" and ".match(" in f[1] and "is not None" in f[1]:
                    cs.add("regex")
                if f[0] == "F" and ".match(" in f[1] and "is None" in f[1] \
                        and "is not" not in f[1]:
                    cs.add("regex")
            sets.append(cs)
        enforced[name] = set.intersection(*sets) if sets else set()
        res.instance(f"String.{name}", mod.loc(fn),
                     enforces=sorted(enforced[name]))
    atoms = {"regex": "self.regex != ''", "minlen": "self.minlen == 0",
             "maxlen": "self.maxlen == sys.maxsize"}
    body = [s for s in init.body]
    n = 0
    for rx, mn0, mxinf in itertools.product((False, True), repeat=3):
        val = {atoms["regex"]: rx, atoms["minlen"]: mn0, atoms["maxlen"]: mxinf}
        sel = _bool_run(body, val, "self._validate")
        n += 1
        active = set()
        if rx:
            active.add("regex")
        if not mn0:
            active.add("minlen")
        if not mxinf:
            active.add("maxlen")
        key = (f"String(regex={'set' if rx else 'unset'},"
               f"minlen={'0' if mn0 else '>0'},"
               f"maxlen={'default' if mxinf else 'set'})")
        if sel not in enforced:
            res.violation(f"String._init:{key}:selected", mod.loc(init),
                          f"{key} selects validator {sel!r}, which does not "
                          f"exist")
            continue
        missing = active - enforced[sel]
        res.oblige(not missing, f"String._init:{key}", mod.loc(init),
                   f"{key} selects {sel}, which does not enforce "
                   f"{sorted(missing)}: values outside the declared "
                   f"length/pattern would be stored")
    res.instance("String._init", mod.loc(init), option_combinations=n)
    # validate() dispatches on the selected name
    v = cls.methods.get("validate")
    res.oblige(v is not None and "getattr(self, self._validate)" in norm(v),
               "String.validate:dispatch", mod.loc(v or init),
               "String.validate no longer dispatches to the selected method")
    res.floor(5)


# ---------------------------------------------------------------------------
# C01.converted-returned

@rule("C01.converted-returned", ["C01"],
      "a validate method that obtains a converted value from its parent "
      "class returns that value (not the raw argument) when it accepts")
def converted_returned(ctx, res):
    repo = get_pyrepo(ctx)
    n = 0
    for rel in FILES:
        mod = repo.module(rel)
        for ci in mod.classes.values():
            for name, fn in ci.methods.items():
                if not VALIDATE_RE.match(name) or len(fn.args.args) < 4:
                    continue
                valp = fn.args.args[3].arg
                conv = [a for a in ast.walk(fn) if isinstance(a, ast.Assign)
                        and len(a.targets) == 1
                        and isinstance(a.targets[0], ast.Name)
                        and isinstance(a.value, ast.Call)
                        and norm(a.value.func) == "super().validate"]
                # ... or from the member traits' validate() applied to the
                # components of the value (Tuple-like validators): what comes
                # back is the converted component, the raw container must
                # not be handed back in its place
                inner = [c for c in ast.walk(fn) if isinstance(c, ast.Call)
                         and isinstance(c.func, ast.Attribute)
                         and c.func.attr == "validate"
                         and norm(c.func.value) != "super()"
                         and len(c.args) == 3
                         and norm(c.args[2]) != valp
                         and valp in {x.id for x in ast.walk(c.args[2])
                                      if isinstance(x, ast.Name)}]
                inner += [c for c in ast.walk(fn) if isinstance(c, ast.Call)
                          and isinstance(c.func, ast.Attribute)
                          and c.func.attr == "validate"
                          and norm(c.func.value) != "super()"
                          and len(c.args) == 3
                          and isinstance(c.args[2], ast.Name)
                          and c.args[2].id != valp
                          and any(isinstance(g, ast.comprehension)
                                  and valp in {x.id for x in ast.walk(g.iter)
                                               if isinstance(x, ast.Name)}
                                  and c.args[2].id in {
                                      x.id for x in ast.walk(g.target)
                                      if isinstance(x, ast.Name)}
                                  for g in ast.walk(fn))]
                if not conv and inner:
                    n += 1
                    key = f"{ci.name}.{name}"
                    res.instance(key, mod.loc(fn), component_validation=len(inner))
                    first = min(c.lineno for c in inner)
                    okk = True
                    for r in ast.walk(fn):
                        if isinstance(r, ast.Return) and r.lineno >= first \
                                and r.value is not None:
                            raws = [x for x in ast.walk(r.value)
                                    if isinstance(x, ast.Name) and x.id == valp]
                            # the raw container as (an alternative of) the
                            # result: `return value`, `value if c else new`
                            direct = isinstance(r.value, ast.Name) and raws
                            alt = isinstance(r.value, ast.IfExp) and (
                                norm(r.value.body) == valp
                                or norm(r.value.orelse) == valp)
                            if direct or alt:
                                okk = False
                                res.violation(
                                    f"{key}:returns-raw", mod.loc(r),
                                    f"{key} validates the components of "
                                    f"`{valp}` with the member traits "
                                    f"(which may convert them) but can hand "
                                    f"back the raw `{valp}` "
                                    f"(`{norm(r.value)[:60]}`): components "
                                    f"that merely compare equal to their "
                                    f"converted form (True for 1, 1 for 1.0) "
                                    f"would be stored unconverted")
                    if okk:
                        res.oblige(True, key, "", "")
                    continue
                if not conv:
                    continue
                n += 1
                key = f"{ci.name}.{name}"
                cvars = {a.targets[0].id for a in conv}
                res.instance(key, mod.loc(fn), converted=sorted(cvars))
                # after the conversion, no return of the raw parameter
                first = min(a.lineno for a in conv)
                for r in ast.walk(fn):
                    if isinstance(r, ast.Return) and r.lineno > first \
                            and r.value is not None:
                        names = {x.id for x in ast.walk(r.value)
                                 if isinstance(x, ast.Name)}
                        raw = valp in names and valp not in cvars \
                            and not (names & cvars)
                        res.oblige(not raw, f"{key}:returns-raw",
                                   mod.loc(r),
                                   f"{key} returns `{norm(r.value)}` although "
                                   f"the parent's validate() already produced "
                                   f"the converted value "
                                   f"`{sorted(cvars)[0]}`: the unconverted "
                                   f"input would be stored")
    res.floor(3)


# ---------------------------------------------------------------------------
# C03.same-object: the fast descriptor and the Python validator consult the
# same collection object

@rule("C03.same-object", ["C03"],
      "the collection placed in a fast-validation descriptor is the very "
      "object the Python validate method consults")
def same_object(ctx, res):
    repo = get_pyrepo(ctx)
    T = "traits/trait_types.py"
    mod = repo.module(T)
    specs = [("Map", "map", "Map"), ("BaseEnum", "values", "Enum"),
             ("PrefixMap", "map", None)]
    n = 0
    for cname, attr, fast_cls in specs:
        if cname not in mod.classes:
            continue
        cls = mod.classes[cname]
        init = cls.methods.get("__init__")
        val = cls.methods.get("validate")
        if init is None or val is None:
            continue
        # what validate consults
        uses = {norm(x) for x in ast.walk(val) if isinstance(x, ast.Attribute)
                and norm(x) == f"self.{attr}"}
        if not uses:
            continue
        stores = [a for a in ast.walk(init) if isinstance(a, ast.Assign)
                  and any(norm(t) == f"self.{attr}" for t in a.targets)]
        desc = []
        for c in ast.walk(init):
            if isinstance(c, ast.Call) and norm(c.func) in (
                    "self.init_fast_validate",):
                desc.extend(c.args[1:])
            if isinstance(c, ast.Assign) and any(
                    norm(t) == "self.fast_validate" for t in c.targets) \
                    and isinstance(c.value, ast.Tuple):
                desc.extend(c.value.elts[1:])
        if not desc or not stores:
            continue
        n += 1
        key = f"{cname}.__init__:{attr}"
        res.instance(key, mod.loc(init),
                     descriptor=[norm(d) for d in desc],
                     stored=[norm(s.value) for s in stores])
        stored_exprs = {norm(s.value) for s in stores} | {f"self.{attr}"}
        ok = any(norm(d) in stored_exprs for d in desc)
        res.oblige(ok, key, mod.loc(init),
                   f"{cname}: validate() consults self.{attr} "
                   f"(= {sorted(stored_exprs - {'self.' + attr})}) but the "
                   f"fast-validation descriptor is built from "
                   f"{[norm(d) for d in desc]}: the compiled and the Python "
                   f"validator can see different collections")
    res.floor(2)


# ---------------------------------------------------------------------------
# C01.tested-is-returned

CONVERTERS = {"strx", "str", "int", "float", "complex", "bytes", "bool",
              "list", "tuple", "operator.index", "index", "repr"}


@rule("C01.tested-is-returned", ["C01"],
      "a validate method that decides acceptance on a converted form of the "
      "value (strx(value), int(value), ...) returns that converted object, "
      "not the raw argument it never tested")
def tested_is_returned(ctx, res):
    repo = get_pyrepo(ctx)
    n = 0
    for rel in FILES:
        mod = repo.module(rel)
        for ci in mod.classes.values():
            for name, fn in ci.methods.items():
                if not VALIDATE_RE.match(name) or len(fn.args.args) < 4:
                    continue
                valp = fn.args.args[3].arg
                convs = [c for c in ast.walk(fn) if isinstance(c, ast.Call)
                         and norm(c.func) in CONVERTERS and len(c.args) == 1
                         and isinstance(c.args[0], ast.Name)
                         and c.args[0].id == valp and not c.keywords]
                if not convs:
                    continue
                tests = [t.test for t in ast.walk(fn)
                         if isinstance(t, (ast.If, ast.IfExp, ast.While))]
                in_test = {id(x) for t in tests for x in ast.walk(t)}
                # names bound to a converted form and then tested
                bound = {}
                for a in ast.walk(fn):
                    if isinstance(a, ast.Assign) and len(a.targets) == 1 \
                            and isinstance(a.targets[0], ast.Name) \
                            and any(c is a.value or c in list(ast.walk(a.value))
                                    for c in convs):
                        bound[a.targets[0].id] = a
                tested_names = {x.id for t in tests for x in ast.walk(t)
                                if isinstance(x, ast.Name)}
                deciding = [c for c in convs if id(c) in in_test] + [
                    a.value for v, a in bound.items()
                    if v in tested_names and v != valp]
                rebinds = valp in bound      # value = strx(value)
                if not deciding and not rebinds:
                    continue
                n += 1
                key = f"{ci.name}.{name}"
                res.instance(key, mod.loc(fn),
                             converted=[norm(c) for c in convs][:3],
                             rebinds_parameter=rebinds)
                if rebinds and not deciding:
                    res.oblige(True, key, "", "")
                    continue
                raws = [r for r in ast.walk(fn) if isinstance(r, ast.Return)
                        and isinstance(r.value, ast.Name)
                        and r.value.id == valp and not rebinds]
                res.oblige(not raws, f"{key}:returns-untested",
                           mod.loc(raws[0]) if raws else mod.loc(fn),
                           f"{key} decides on `{norm(deciding[0])[:50]}` but "
                           f"returns the raw `{valp}`: the stored object is "
                           f"one the test never saw (an int, a str subclass, "
                           f"... is kept unconverted)")
    res.floor(2)


# ---------------------------------------------------------------------------
# C03.type-kind-scope

@rule("C03.type-kind-scope", ["C03"],
      "the exact-type fast validator (C PyObject_TypeCheck, which ignores "
      "`value.__class__`) is selected only for classes in the TypeTypes "
      "table; everything else uses the isinstance kind, which is what the "
      "Python validate methods test")
def type_kind_scope(ctx, res):
    repo = get_pyrepo(ctx)
    n = 0
    for rel in ("traits/trait_types.py", "traits/trait_handlers.py"):
        mod = repo.module(rel)
        par = {}
        for p_ in ast.walk(mod.tree):
            for c_ in ast.iter_child_nodes(p_):
                par[id(c_)] = p_
        for x in ast.walk(mod.tree):
            if not (isinstance(x, ast.Attribute)
                    and norm(x) == "ValidateTrait.type"
                    and isinstance(x.ctx, ast.Load)):
                continue
            # the statement that uses the kind and its guards up to the def
            node, guards, fn = x, [], None
            while id(node) in par:
                up = par[id(node)]
                if isinstance(up, ast.If) and node is not up.test:
                    guards.append((up.test, node in up.body))
                if isinstance(up, ast.FunctionDef):
                    fn = up
                    break
                node = up
            if fn is None:
                continue
            n += 1
            key = f"{rel.split('/')[-1]}:{fn.name}:type-kind"
            res.instance(key, mod.loc(x),
                         guards=[norm(g) for g, _ in guards])
            tt = [g for g, pos in guards if pos and isinstance(g, ast.Compare)
                  and len(g.ops) == 1 and isinstance(g.ops[0], ast.In)
                  and norm(g.comparators[0]) == "TypeTypes"]
            res.oblige(bool(tt), key, mod.loc(x),
                       f"`ValidateTrait.type` is selected under "
                       f"{[norm(g)[:60] for g, _ in guards]}: it must be "
                       f"inside the true branch of a plain `<class> in "
                       f"TypeTypes` test - for any other class the C type "
                       f"check rejects proxies/mocks that Python's "
                       f"isinstance (the validate method) accepts")
    res.floor(2)


# ---------------------------------------------------------------------------
# C03.fast-path-owner: `T.set_validate(H.<validator>)` installs the compiled
# validator of handler H on CTrait T.  On every path H must be T's own handler
# (structurally `T.handler`, established by a dominating `T.handler is H`
# test, or stored as `T.handler = H` on the same path).  Otherwise the trait's
# compiled validator and its Python `handler.validate` are those of two
# different trait types.

def _own_terms(fn):
    """per path: (sites, facts); terms are values, not names"""
    from ..cfg import enumerate_paths
    g = build_cfg(fn, fn.name)
    out = []
    for path in enumerate_paths(g, max_paths=4000):
        env, eq, ne, sites = {}, set(), set(), []
        flagv = {}
        cnt = [0]

        def ev(e):
            if isinstance(e, ast.Name):
                return env.get(e.id, ("free", e.id))
            if isinstance(e, ast.Attribute):
                return ("attr", ev(e.value), e.attr)
            if isinstance(e, ast.Call) and isinstance(e.func, ast.Name) \
                    and e.func.id == "getattr" and len(e.args) >= 2 \
                    and isinstance(e.args[1], ast.Constant):
                return ("attr", ev(e.args[0]), e.args[1].value)
            if isinstance(e, ast.Constant):
                return ("const", repr(e.value))
            cnt[0] += 1
            return ("opaque", cnt[0], getattr(e, "lineno", 0))

        def scan_calls(node):
            for c in ast.walk(node):
                if isinstance(c, ast.Call) and isinstance(c.func, ast.Attribute) \
                        and c.func.attr == "set_validate" and len(c.args) == 1:
                    sites.append((c, ev(c.func.value), ev(c.args[0])))

        for nid, lab in path:
            nd = g.nodes[nid]
            a = nd.ast
            if a is None:
                continue
            if nd.kind == "cond":
                scan_calls(a)
                if isinstance(a, ast.Name) and a.id in flagv \
                        and lab in ("T", "F"):
                    conj = flagv[a.id]     # `own = t.handler is self`
                    if lab == "T":
                        for pair, is_ in conj:
                            (eq if is_ else ne).add(pair)
                    elif len(conj) == 1:
                        pair, is_ = conj[0]
                        (ne if is_ else eq).add(pair)
                if isinstance(a, ast.Compare) and len(a.ops) == 1 \
                        and isinstance(a.ops[0], (ast.Is, ast.IsNot)) \
                        and lab in ("T", "F"):
                    same = isinstance(a.ops[0], ast.Is) == (lab == "T")
                    pair = frozenset((ev(a.left), ev(a.comparators[0])))
                    (eq if same else ne).add(pair)
                continue
            if nd.kind in ("fornext", "foriter", "with"):
                continue
            scan_calls(a)
            if isinstance(a, ast.Assign):
                v = ev(a.value)
                for t in a.targets:
                    if isinstance(t, ast.Name):
                        env[t.id] = v
                        flagv.pop(t.id, None)
                        parts = a.value.values if isinstance(
                            a.value, ast.BoolOp) and isinstance(
                            a.value.op, ast.And) else [a.value]
                        conj = []
                        for c_ in parts:
                            if isinstance(c_, ast.Compare) \
                                    and len(c_.ops) == 1 and isinstance(
                                        c_.ops[0], (ast.Is, ast.IsNot)):
                                conj.append((
                                    frozenset((ev(c_.left),
                                               ev(c_.comparators[0]))),
                                    isinstance(c_.ops[0], ast.Is)))
                        if conj and len(conj) == len(parts):
                            flagv[t.id] = conj
                    elif isinstance(t, ast.Attribute):
                        eq.add(frozenset((("attr", ev(t.value), t.attr), v)))
                    elif isinstance(t, (ast.Tuple, ast.List)):
                        for el in t.elts:
                            if isinstance(el, ast.Name):
                                cnt[0] += 1
                                env[el.id] = ("opaque", cnt[0], a.lineno)
            elif isinstance(a, (ast.AugAssign, ast.AnnAssign)) \
                    and isinstance(a.target, ast.Name):
                cnt[0] += 1
                env[a.target.id] = ("opaque", cnt[0], a.lineno)
        if eq & ne:
            continue        # contradictory identity tests: infeasible path
        out.append((sites, eq, ne))
    return out


@rule("C03.fast-path-owner", ["C03", "C01", "C04"],
      "`T.set_validate(H.<validator>)` installs handler H's compiled "
      "validator on CTrait T only where H is T's own handler on that path "
      "(`T.handler`, a dominating `T.handler is H` test, or `T.handler = H`)")
def fast_path_owner(ctx, res):
    repo = get_pyrepo(ctx)
    n = 0
    for rel, mod in sorted(repo.modules.items()):
        if "/tests/" in rel or "set_validate" not in mod.src:
            continue
        for qual, fn in sorted(mod.functions.items()):
            if not any(isinstance(c, ast.Call)
                       and isinstance(c.func, ast.Attribute)
                       and c.func.attr == "set_validate" and len(c.args) == 1
                       for c in ast.walk(fn)):
                continue
            if any(isinstance(x, ast.FunctionDef) and x is not fn
                   and any(isinstance(c, ast.Call)
                           and isinstance(c.func, ast.Attribute)
                           and c.func.attr == "set_validate"
                           for c in ast.walk(x)) for x in ast.walk(fn)):
                continue        # the nested def is analysed on its own
            # freshness: a descriptor kept in a local must have been read
            # after the last recomputation (`handler.set_validate()` /
            # `init_fast_validate()`) that precedes its installation
            recompute_names = {"init_fast_validate"}
            for a_ in ast.walk(fn):
                if isinstance(a_, ast.Assign) and len(a_.targets) == 1 \
                        and isinstance(a_.targets[0], ast.Name) \
                        and "set_validate" in norm(a_.value) \
                        and not isinstance(a_.value, ast.Call) \
                        or (isinstance(a_, ast.Assign) and len(a_.targets) == 1
                            and isinstance(a_.targets[0], ast.Name)
                            and isinstance(a_.value, ast.Call)
                            and norm(a_.value.func) == "getattr"
                            and len(a_.value.args) >= 2
                            and norm(a_.value.args[1]) == "'set_validate'"):
                    recompute_names.add(a_.targets[0].id)
            recomputes = [c.lineno for c in ast.walk(fn) if isinstance(c, ast.Call)
                          and not c.args and not c.keywords and (
                              (isinstance(c.func, ast.Attribute)
                               and c.func.attr in ("set_validate",
                                                   "init_fast_validate"))
                              or (isinstance(c.func, ast.Name)
                                  and c.func.id in recompute_names))]
            for c in ast.walk(fn):
                if not (isinstance(c, ast.Call) and isinstance(c.func, ast.Attribute)
                        and c.func.attr == "set_validate" and len(c.args) == 1
                        and isinstance(c.args[0], ast.Name)):
                    continue
                v = c.args[0].id
                defs_ = [a_ for a_ in ast.walk(fn) if isinstance(a_, ast.Assign)
                         and any(isinstance(t, ast.Name) and t.id == v
                                 for t in a_.targets)
                         and "fast_validate" in norm(a_.value)]
                if not defs_:
                    continue
                n += 1
                key = f"{rel.split('/')[-1]}:{qual}:set_validate"
                res.instance(key + ":local", f"{rel}:{c.lineno}")
                stale = [(d, r) for d in defs_ for r in recomputes
                         if d.lineno < r < c.lineno]
                res.oblige(not stale, key + ":stale-descriptor",
                           f"{rel}:{c.lineno}",
                           f"`{norm(c)}` installs a descriptor that was read "
                           f"(line {stale[0][0].lineno if stale else 0}) "
                           f"*before* the handler recomputed it (line "
                           f"{stale[0][1] if stale else 0}): the CTrait keeps "
                           f"the compiled validator from before the class "
                           f"was resolved, and rejects what "
                           f"handler.validate accepts")
            bad = {}
            seen = set()
            for sites, eq, ne in _own_terms(fn):
                for call, tT, tv in sites:
                    if tv[0] != "attr":
                        continue        # not a handler's validator
                    h = tv[1]
                    seen.add(call.lineno)
                    own = ("attr", tT, "handler")
                    if h == own or frozenset((own, h)) in eq:
                        continue
                    bad.setdefault(call.lineno, (call, frozenset((own, h))
                                                 in ne))
            for ln in sorted(seen):
                n += 1
                key = f"{rel.split('/')[-1]}:{qual}:set_validate"
                res.instance(key, f"{rel}:{ln}")
                if ln in bad:
                    call, known_other = bad[ln]
                    res.oblige(False, key + ":owner", f"{rel}:{ln}",
                               f"`{norm(call)}` is reached on a path where "
                               f"`{norm(call.args[0]).rsplit('.', 1)[0]}` is "
                               f"not established to be "
                               f"`{norm(call.func.value)}.handler`"
                               + (" (the path even established that it is a "
                                  "different object)" if known_other else "")
                               + ": the CTrait gets the compiled validator "
                               "of a handler that is not its own, so its "
                               "fast path and its handler.validate are two "
                               "different trait types")
                else:
                    res.oblige(True, key + ":owner", f"{rel}:{ln}", "")
    res.floor(4)


# ---------------------------------------------------------------------------
# C03.compound-table: TraitCompound.set_validate builds, from one loop over
# the member handlers, (a) `validates` / `slow_validates`, which the Python
# `validate` runs in that order, and (b) `fast_validates`, the table the C
# compound validator walks.  The two agree only if each member contributes to
# both in the same iteration: a member with a compiled validator contributes
# `handler.validate` to `validates` and its *complete* compiled entry (for a
# nested compound: every entry of its table, including its trailing slow
# entry) to `fast_validates`; a member without one goes to `slow_validates`
# only.

def _list_effects(stmts, lists):
    """[(list, method, arg expr, filtered?)] in a statement list (no nested
    control flow other than a plain `for x in <seq>: L.append(x)`)"""
    out = []
    for s in stmts:
        if isinstance(s, ast.Expr) and isinstance(s.value, ast.Call) \
                and isinstance(s.value.func, ast.Attribute) \
                and isinstance(s.value.func.value, ast.Name) \
                and s.value.func.value.id in lists \
                and s.value.func.attr in ("append", "extend", "insert") \
                and s.value.args:
            a = s.value.args[-1]
            filtered = isinstance(a, (ast.GeneratorExp, ast.ListComp)) \
                or (isinstance(a, ast.Call) and norm(a.func) == "filter") \
                or isinstance(a, ast.Subscript) \
                and isinstance(a.slice, ast.Slice)
            if isinstance(a, (ast.GeneratorExp, ast.ListComp)) \
                    and len(a.generators) == 1 and not a.generators[0].ifs \
                    and norm(a.elt) == norm(a.generators[0].target):
                filtered = False
                a = a.generators[0].iter
            if isinstance(a, ast.Call) and norm(a.func) in ("list", "tuple") \
                    and len(a.args) == 1:
                a = a.args[0]
            meth_ = s.value.func.attr
            if meth_ == "extend" and isinstance(a, (ast.Tuple, ast.List)) \
                    and len(a.elts) == 1 \
                    and not isinstance(a.elts[0], ast.Starred):
                meth_, a = "append", a.elts[0]      # extend((x,)) == append(x)
            out.append((s.value.func.value.id, meth_, a,
                        filtered, s))
        elif isinstance(s, ast.For) and len(s.body) == 1 and not s.orelse:
            inner = _list_effects(s.body, lists)
            if len(inner) == 1 and inner[0][1] == "append" \
                    and norm(inner[0][2]) == norm(s.target):
                out.append((inner[0][0], "extend", s.iter, False, s))
            else:
                out.append((None, "complex", s, True, s))
    return out


@rule("C03.compound-table", ["C03"],
      "TraitCompound.set_validate: per member handler, the Python-order "
      "lists and the compiled table are filled in lockstep - compiled "
      "members contribute handler.validate and their complete compiled "
      "entry (a nested compound's whole table), the others only to "
      "slow_validates")
def compound_table(ctx, res):
    from ..cfg import enumerate_paths
    repo = get_pyrepo(ctx)
    rel = "traits/trait_handlers.py"
    mod = repo.module(rel)
    from ..pyfacts import lower_ifexp_assign
    fn = lower_ifexp_assign(repo.inlined(rel, "TraitCompound.set_validate"))
    loops = [s for s in fn.body if isinstance(s, ast.For)
             and norm(s.iter) == "self.handlers"]
    if len(loops) != 1:
        raise AnalysisError("TraitCompound.set_validate: member loop")
    loop = loops[0]
    hv = norm(loop.target)
    # the lists by role, from what is published after the loop
    pub = {}
    for a in ast.walk(fn):
        if isinstance(a, ast.Assign) and len(a.targets) == 1 \
                and norm(a.targets[0]) in ("self.validates",
                                           "self.slow_validates") \
                and isinstance(a.value, ast.Name):
            pub[norm(a.targets[0]).split(".")[1]] = a.value.id
    fast = None
    for a in ast.walk(fn):
        if isinstance(a, ast.Assign) \
                and norm(a.targets[0]) == "self.fast_validate":
            for nm in ast.walk(a.value):
                if isinstance(nm, ast.Name) and nm.id not in ("tuple",
                                                              "ValidateTrait"):
                    fast = nm.id
    if set(pub) != {"validates", "slow_validates"} or fast is None:
        raise AnalysisError("TraitCompound.set_validate: published lists")
    V, S, Fv = pub["validates"], pub["slow_validates"], fast
    lists = {V, S, Fv}
    # the compiled entry of the member
    fvn = None
    for a in loop.body:
        if isinstance(a, ast.Assign) and isinstance(a.targets[0], ast.Name) \
                and isinstance(a.value, ast.Call) \
                and norm(a.value.func) == "getattr" \
                and norm(a.value.args[0]) == hv \
                and norm(a.value.args[1]) == "'fast_validate'":
            fvn = a.targets[0].id
    if fvn is None:
        raise AnalysisError("TraitCompound.set_validate: member's compiled "
                            "entry local not found")
    class _ForToExtend(ast.NodeTransformer):
        def visit_For(self, node):
            self.generic_visit(node)
            if len(node.body) == 1 and not node.orelse:
                eff = _list_effects(node.body, lists)
                if len(eff) == 1 and eff[0][1] == "append" \
                        and norm(eff[0][2]) == norm(node.target):
                    call = ast.Call(
                        func=ast.Attribute(value=ast.Name(id=eff[0][0],
                                                          ctx=ast.Load()),
                                           attr="extend", ctx=ast.Load()),
                        args=[node.iter], keywords=[])
                    return ast.copy_location(
                        ast.fix_missing_locations(ast.Expr(value=call)), node)
            return node
    import copy as _copy
    # single-definition temporaries of the loop body stand for their
    # definition (`handler_validate = handler.validate`)
    tmp_defs = {}
    for a_ in loop.body:
        if isinstance(a_, ast.Assign) and len(a_.targets) == 1 \
                and isinstance(a_.targets[0], ast.Name) \
                and isinstance(a_.value, ast.Attribute) \
                and a_.targets[0].id not in lists \
                and a_.targets[0].id != fvn:
            tmp_defs.setdefault(a_.targets[0].id, []).append(a_.value)
    tmp_defs = {k: v[0] for k, v in tmp_defs.items() if len(v) == 1}

    class _Subst(ast.NodeTransformer):
        def visit_Name(self, node):
            if isinstance(node.ctx, ast.Load) and node.id in tmp_defs:
                return _copy.deepcopy(tmp_defs[node.id])
            return node
    body = [_ForToExtend().visit(_Subst().visit(_copy.deepcopy(s_)))
            for s_ in loop.body]
    for b_ in body:
        ast.fix_missing_locations(b_)
    wrapper = ast.FunctionDef(name="body", args=fn.args, body=body,
                              decorator_list=[], lineno=loop.lineno,
                              col_offset=0)
    g = build_cfg(wrapper, "set_validate.body")
    n = 0
    seen = set()
    for path in enumerate_paths(g, max_paths=5000):
        facts = {}
        effects = []
        for nid, lab in path:
            nd = g.nodes[nid]
            a = nd.ast
            if a is None:
                continue
            if nd.kind == "cond":
                facts[norm(a)] = (lab == "T")
                continue
            if nd.kind in ("fornext", "foriter"):
                if nd.kind == "foriter":
                    continue
                # a nested for: treat as one statement when entered first
                continue
            effects += [e for e in _list_effects([a], lists)]
        # nested `for` bodies are reached through fornext nodes; recover
        # them from the statements of the loop body instead
        compiled = facts.get(f"{fvn} is not None",
                             None if f"{fvn} is None" not in facts
                             else not facts[f"{fvn} is None"])
        if compiled is None:
            continue
        nested = None
        for t, v in facts.items():
            if "ValidateTrait.complex" in t and f"{fvn}[0]" in t:
                nested = v if "==" in t else (not v if "!=" in t else None)
        by = {}
        for lst, meth, arg, filt, node in effects:
            by.setdefault(lst, []).append((meth, norm(arg), filt, node))
        sig = (compiled, nested, tuple(sorted((k, tuple(x[:3] for x in v))
                                              for k, v in by.items()
                                              if k)))
        if sig in seen:
            continue
        seen.add(sig)
        n += 1
        key = "set_validate:" + ("compiled" if compiled else "slow") + (
            ":nested" if nested else "")
        loc = mod.loc(loop)
        if compiled:
            res.oblige([x[:2] for x in by.get(V, [])]
                       == [("append", f"{hv}.validate")], key + ":validates",
                       loc, f"a compiled member must contribute "
                       f"{hv}.validate to `{V}` exactly once; found "
                       f"{[x[:2] for x in by.get(V, [])]}")
            res.oblige(not by.get(S), key + ":slow-untouched", loc,
                       f"a compiled member also feeds `{S}` "
                       f"({[x[:2] for x in by.get(S, [])]}): those validators "
                       f"are run by the trailing slow entry of *this* "
                       f"compound, after all compiled alternatives, while "
                       f"the Python validate runs them at the member's "
                       f"position")
            want = [("extend", f"{fvn}[1]", False)] if nested else \
                [("append", fvn, False)]
            got = [x[:3] for x in by.get(Fv, [])]
            res.oblige(got == want, key + ":table", loc,
                       f"the compiled table receives {got} for this member; "
                       f"expected {want} (its complete compiled entry"
                       + (", including the nested compound's slow entry at "
                          "its position)" if nested else ")"))
        else:
            res.oblige([x[:2] for x in by.get(S, [])]
                       == [("append", f"{hv}.validate")]
                       and not by.get(V) and not by.get(Fv), key + ":lists",
                       loc, f"a member without a compiled validator must "
                       f"contribute {hv}.validate to `{S}` only; found "
                       f"{ {k: [x[:2] for x in v] for k, v in by.items()} }")
    res.instance("TraitCompound.set_validate", mod.loc(fn), cases=n)
    if n < 3:
        raise AnalysisError(f"TraitCompound.set_validate: {n} member cases "
                            f"recognised (expected compiled / nested / slow)")
    res.floor(1)
