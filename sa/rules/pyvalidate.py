"""C01.no-falloff: no Python validate method can fall off its end (implicit
`return None` would store None for a rejected value)."""
from __future__ import annotations

import ast
import re

from ..core import AnalysisError, rule
from ..pycfg import build_cfg
from ..pyfacts import get_pyrepo, is_self_call, norm

FILES = ["traits/trait_types.py", "traits/trait_handlers.py",
         "traits/trait_numeric.py", "traits/trait_type.py",
         "traits/base_trait_handler.py", "traits/trait_handler.py"]
NAME_RE = re.compile(r"^(validate|validate_\w+|\w+_validate|_validate|"
                     r"slow_validate|resolve|resolve_\w+|validate_failed|"
                     r"error|_validate_\w+|fast_validate|value_for|mapped_value|"
                     r"post_setattr)$")
VALIDATE_RE = re.compile(r"^(validate|validate_(?!failed$)\w+|"
                         r"(?!init_|set_|get_)\w+_validate|_validate)$")


def _noreturn_call_stmt(stmt, noreturn):
    return (isinstance(stmt, ast.Expr) and isinstance(stmt.value, ast.Call)
            and isinstance(stmt.value.func, ast.Attribute)
            and isinstance(stmt.value.func.value, ast.Name)
            and stmt.value.func.value.id == "self"
            and stmt.value.func.attr in noreturn)


def exit_preds(fn, name, noreturn):
    """Reachable CFG nodes that flow into the normal exit, after cutting the
    normal edge out of calls to no-return methods."""
    g = build_cfg(fn, name)
    cut = set()
    for n in g.nodes:
        if n.kind == "stmt" and _noreturn_call_stmt(n.ast, noreturn):
            cut.add(n.id)
    seen, stack = {g.entry.id}, [g.entry.id]
    preds = []
    while stack:
        x = stack.pop()
        for lab, y in g.succ[x]:
            if x in cut and lab != "exc":
                continue
            if y == g.exit.id:
                preds.append(g.nodes[x])
            if y not in seen:
                seen.add(y)
                stack.append(y)
    return preds, g


def compute_noreturn(repo):
    """Method names all of whose definitions (in the handler files) never
    return normally."""
    defs = {}
    for rel in FILES:
        m = repo.module(rel)
        for ci in m.classes.values():
            for name, fn in ci.methods.items():
                defs.setdefault(name, []).append((m, ci, fn))
    noreturn = set()
    for _ in range(5):
        changed = False
        for name, lst in defs.items():
            if name in noreturn:
                continue
            ok = True
            for m, ci, fn in lst:
                preds, g = exit_preds(fn, f"{ci.name}.{name}", noreturn)
                if preds:
                    ok = False
                    break
            if ok and lst:
                noreturn.add(name)
                changed = True
        if not changed:
            break
    return noreturn, defs


@rule("C01.no-falloff", ["C01"],
      "every path of every Python validate method ends in `return <value>`, "
      "`raise`, or a call to a method proved never to return")
def no_falloff(ctx, res):
    repo = get_pyrepo(ctx)
    noreturn, defs = compute_noreturn(repo)
    if "error" not in defs:
        raise AnalysisError("no `error` method found in the handler files")
    for name in ("error", "validate_failed"):
        if name in defs and name not in noreturn:
            m, ci, fn = defs[name][0]
            res.violation(f"{ci.name}.{name}:can-return", m.loc(fn),
                          f"{ci.name}.{name} can return normally: every "
                          f"validator that rejects by calling it would fall "
                          f"through and store None (and raise_trait_error in "
                          f"ctraits.c would return NULL without an exception)")
            noreturn.add(name)     # report once, not at every caller
    res.note(f"no-return methods: {sorted(noreturn)}")
    # error() raises TraitError built from (object, name, ..., value)
    bm = repo.module("traits/base_trait_handler.py")
    err = repo.func("traits/base_trait_handler.py", "BaseTraitHandler.error")
    raises = [n for n in ast.walk(err) if isinstance(n, ast.Raise)]
    ps = [a.arg for a in err.args.args]
    ok = bool(raises) and all(
        isinstance(r.exc, ast.Call) and norm(r.exc.func) == "TraitError"
        and {ps[1], ps[2], ps[3]} <= {norm(a) for a in r.exc.args}
        for r in raises)
    res.instance("BaseTraitHandler.error", bm.loc(err))
    res.oblige(ok, "BaseTraitHandler.error:raises-TraitError", bm.loc(err),
               "BaseTraitHandler.error does not raise TraitError(object, "
               "name, ..., value): rejections would not name the attribute")
    for rel in FILES:
        m = repo.module(rel)
        for ci in m.classes.values():
            for name, fn in ci.methods.items():
                if not VALIDATE_RE.match(name):
                    continue
                key = f"{ci.name}.{name}"
                preds, g = exit_preds(fn, key, noreturn)
                bad = []
                for n in preds:
                    if n.kind == "stmt" and isinstance(n.ast, ast.Return):
                        if n.ast.value is None or (
                                isinstance(n.ast.value, ast.Constant)
                                and n.ast.value.value is None):
                            bad.append((n, "returns None explicitly"))
                        continue
                    bad.append((n, "falls off the end (implicit return None)"))
                res.instance(key, m.loc(fn), exits=len(preds),
                             nontrivial=bool(preds) or True)
                if bad:
                    n, why = bad[0]
                    res.violation(f"{key}:falloff",
                                  f"{rel}:{n.line or fn.lineno}",
                                  f"{key} {why}: a rejected value would be "
                                  f"replaced by None instead of raising "
                                  f"TraitError")
                else:
                    res.oblige(True, key, "", "")
    res.floor(55)
