"""C01.null-means-error and C01.propagate: error discipline of the C
validators."""
from __future__ import annotations

import re

from ..capi import API, check_table
from ..ccfg import get_ccfg
from ..cexpr import callee, cnorm, strip
from ..cfacts import CREL, get_cfacts
from ..core import AnalysisError, rule
from ..csym import feasible_paths
from .cstore import split_cmp

# In-file functions that always leave an exception set.  raise_trait_error
# does so by calling the handler's `error` method, which C01.no-falloff proves
# never returns normally on the Python side.
TUPLE_CHECK = "validate_trait_tuple_check"     # documented: NULL w/o error


def call_name(text):
    m = re.match(r"([A-Za-z_][\w>.\-]*?)\(", text)
    if not m:
        return None
    n = m.group(1)
    if "->" in n:
        return "->" + n.rsplit("->", 1)[1]
    return n


class ErrWalk:
    """Track whether an exception is certainly pending along one path."""

    def __init__(self, facts, null_err, always_err, neg_err=None):
        self.facts, self.null_err, self.always_err = facts, null_err, always_err
        self.neg_err = neg_err or {}
        self.ret_values = {}

    def callee_neg_sets_error(self, name):
        if name in API:
            return API[name]["err"] in ("neg", "nonzero")
        return self.neg_err.get(name, False) or name in self.always_err

    def callee_null_sets_error(self, name):
        if name in API:
            return API[name]["err"] == "null"
        return self.null_err.get(name, False)

    def walk(self, p):
        err = "clear"
        excluded = {}
        callee_of = {}

        _cn = globals()["call_name"]

        def call_name(text):  # exact callee when known
            return callee_of.get(text) or _cn(text)
        for it in p.trace:
            if it[0] == "call":
                name = it[1]
                callee_of[it[3]] = name
                if name == "PyErr_Clear":
                    err = "clear"
                elif name in API and API[name]["sets_error"]:
                    err = "set"
                elif name in self.always_err:
                    err = "set"
                elif name == "PyErr_Restore":
                    err = "set"
                elif name == "PyErr_Fetch":
                    err = "clear"
            elif it[0] == "atom":
                _, text, truth, nid = it
                if not isinstance(truth, bool):
                    continue
                # one spelling: `(K != X)` is the negation of `(K == X)`
                _m = re.fullmatch(r"\((-?\d+) != (.+)\)", text)
                if _m and _m.group(1) != "0":
                    text, truth = f"({_m.group(1)} == {_m.group(2)})", not truth
                elif _m and call_name(_m.group(2)) in self.ret_values:
                    text, truth = f"(0 == {_m.group(2)})", not truth
                if text == "PyErr_Occurred()":
                    err = "set" if truth else "clear"
                    continue
                if text.startswith("PyErr_ExceptionMatches(") and truth:
                    err = "set"
                    continue
                cn0 = call_name(text)
                if cn0 and text.endswith(")") and text.count("(") >= 1 \
                        and not text.startswith("("):
                    # bare call used as a condition
                    if cn0 in API and API[cn0]["err"] == "zero" and not truth:
                        err = "set"
                        continue
                    if cn0 in API and API[cn0]["err"] == "nonzero" and truth:
                        err = "set"
                        continue
                    if truth and (cn0 in self.always_err
                                  or self.neg_err.get(cn0)) \
                            and cn0 not in API:
                        # non-zero status of an in-file int function
                        err = "set"
                        continue
                sp = split_cmp(text, ">=")
                if sp and sp[1] == "0" and not truth:
                    cn = call_name(sp[0])
                    if cn and self.callee_neg_sets_error(cn):
                        err = "set"
                for op, isnull in (("==", True), ("!=", False)):
                    sp = split_cmp(text, op)
                    if sp and "0" in sp:
                        other = sp[0] if sp[1] == "0" else sp[1]
                        says_null = isnull if truth else not isnull
                        cn = call_name(other)
                        if says_null and cn and \
                                self.callee_null_sets_error(cn):
                            err = "set"
                # tri-state int results: every non-negative value excluded
                sp = split_cmp(text, "==")
                if sp and not truth:
                    for k, other in ((sp[0], sp[1]), (sp[1], sp[0])):
                        if re.fullmatch(r"\d+", k):
                            cn = call_name(other)
                            vals = self.ret_values.get(cn)
                            if cn and vals is not None:
                                ex = excluded.setdefault(other, set())
                                ex.add(int(k))
                                rest = vals - ex
                                if rest and all(v < 0 for v in rest) \
                                        and self.callee_neg_sets_error(cn):
                                    err = "set"
                sp = split_cmp(text, "<")
                if sp and sp[1] == "0" and truth:
                    cn = call_name(sp[0])
                    if cn and self.callee_neg_sets_error(cn):
                        err = "set"
                sp = split_cmp(text, "==")
                if sp and "-1" in sp and truth:
                    other = sp[0] if sp[1] == "-1" else sp[1]
                    cn = call_name(other)
                    if cn and self.callee_neg_sets_error(cn):
                        err = "set"
        return err


def _no_default_switch(p):
    """path leaves a switch through its implicit default (no case matched
    and there is no default: label).  The switches concerned dispatch on
    enumerations whose range is established where the value is set
    (C10.default-kinds, C03.tables); such paths are assumed infeasible."""
    return any(it[0] == "atom" and it[2] == "default" for it in p.trace)


def returns_pointer(facts, fname):
    t = facts.func(fname).type or ""
    return "*" in t.split("(")[0]


def analyse_errors(ctx):
    def compute():
        facts = get_cfacts(ctx)
        check_table(facts)
        funcs = [f for f in facts.defined_functions()]
        paths = {}
        from ..csym import cached_paths, flush_paths
        for f in funcs:
            paths[f] = cached_paths(ctx, facts, f)
        flush_paths(ctx)
        # always_err: every path ends with an exception pending.
        # raise_trait_error is the explicit table member: it sets the error
        # by calling handler.error(), which C01.no-falloff proves never
        # returns normally on the Python side.
        always = {"raise_trait_error"}
        null_err = {f: True for f in funcs if returns_pointer(facts, f)}
        neg_err = {f: True for f in funcs if not returns_pointer(facts, f)
                   and (facts.func(f).type or "").startswith(("int", "long"))}
        bad_paths = {}
        ret_values = {}
        for f in funcs:
            if paths[f] and f in neg_err:
                vals = set()
                for p in paths[f]:
                    if p.outcome[0] == "RETURN":
                        if re.fullmatch(r"-?\d+", p.outcome[1]):
                            vals.add(int(p.outcome[1]))
                        else:
                            vals = None
                            break
                if vals:
                    ret_values[f] = vals
        # phase 1: the functions that always leave an exception set (a
        # growing set, computed to its fixed point first, so that the
        # shrinking sets of phase 2 start from the final one: interleaving
        # the two made mutually recursive functions flip-flop)
        for _ in range(12):
            w = ErrWalk(facts, null_err, always, neg_err)
            w.ret_values = ret_values
            grown = set(always)
            for f in funcs:
                ps = paths[f]
                if ps is None:
                    continue
                ends = [p for p in ps if p.outcome[0] in ("RETURN", "END")]
                if ends and all(w.walk(p) == "set" for p in ends):
                    grown.add(f)
            if grown == always:
                break
            always = grown
        for _ in range(24):
            w = ErrWalk(facts, null_err, always, neg_err)
            w.ret_values = ret_values
            n_always = {"raise_trait_error"}
            n_null = dict.fromkeys(null_err, True)
            n_neg = dict.fromkeys(neg_err, True)
            n_bad = {}
            for f in funcs:
                ps = paths[f]
                if ps is None:
                    if f in n_null:
                        n_null[f] = False
                    if f in n_neg:
                        n_neg[f] = False
                    continue
                rets = [p for p in ps if p.outcome[0] == "RETURN"]
                ends = [p for p in ps if p.outcome[0] in ("RETURN", "END")]
                if ends and all(w.walk(p) == "set" for p in ends):
                    n_always.add(f)
                if f == "raise_trait_error":
                    continue
                if f in n_null:
                    bad = []
                    for p in rets:
                        rv = p.outcome[1]
                        if rv == "0":
                            if _no_default_switch(p):
                                continue
                            if w.walk(p) != "set":
                                bad.append(p)
                        else:
                            cn = None
                            for it in p.trace:
                                if it[0] == "call" and it[3] == rv:
                                    cn = it[1]
                            cn = cn or call_name(rv)
                            if cn and rv.endswith(")") and \
                                    not w.callee_null_sets_error(cn) and \
                                    (cn in null_err or (
                                        cn in API
                                        and API[cn]["ret"] in ("new", "borrowed")
                                        and API[cn]["err"] != "null")):
                                nonnull = any(
                                    it[0] == "atom" and (
                                        (it[1] == f"(0 != {rv})" and it[2] is True)
                                        or (it[1] == f"(0 == {rv})" and it[2] is False))
                                    for it in p.trace)
                                if not nonnull and w.walk(p) != "set":
                                    bad.append(p)
                    if bad:
                        n_null[f] = False
                        n_bad[f] = bad
                if f in n_neg:
                    if any(re.fullmatch(r"-\d+", p.outcome[1])
                           and w.walk(p) != "set" for p in rets):
                        n_neg[f] = False
            # phase 2 only shrinks: what failed once stays failed
            for f in n_null:
                if not null_err.get(f, True):
                    n_null[f] = False
                    if f not in n_bad and f in bad_paths:
                        n_bad[f] = bad_paths[f]
            for f in n_neg:
                if not neg_err.get(f, True):
                    n_neg[f] = False
            n_always |= always
            stable = (n_always == always and n_null == null_err
                      and n_neg == neg_err)
            always, null_err, neg_err, bad_paths = n_always, n_null, n_neg, n_bad
            if stable:
                break
        ctx._cache['c-neg-err'] = neg_err
        return facts, null_err, always, bad_paths, paths
    return ctx.memo("c-error-summaries", compute)


def validator_closure(facts):
    """The validators in validate_handlers plus every in-file pointer-
    returning function they (transitively) call."""
    roots = [f for f in facts.table("validate_handlers") if f]
    roots += ["raise_trait_error", "default_value_for"]
    seen, todo = set(), list(roots)
    while todo:
        f = todo.pop()
        if f in seen or not facts.has_func(f):
            continue
        seen.add(f)
        for x in facts.func(f).walk():
            if x.kind == "CallExpr":
                c = callee(x)
                if facts.has_func(c):
                    todo.append(c)
    return sorted(seen)


@rule("C01.null-means-error", ["C01", "C18"],
      "every path of a C validator that returns NULL leaves an exception set")
def null_means_error(ctx, res):
    facts, null_err, always, bad_paths, paths = analyse_errors(ctx)
    # shape of raise_trait_error: delegates to handler.error(obj, name, value)
    rte = facts.func("raise_trait_error")
    calls = [x for x in rte.walk() if x.kind == "CallExpr"
             and callee(x) == "PyObject_CallMethod"]
    ok = False
    if calls:
        c = calls[0]
        args = [cnorm(a) for a in c.ch[1:]]
        params = [p.name for p in facts.params("raise_trait_error")]
        ok = (len(args) >= 6 and args[0].endswith("->handler")
              and args[1].strip('"') == "error" and args[3:6] == params[1:4])
    res.instance("raise_trait_error", facts.loc(rte))
    res.oblige(ok, "raise_trait_error:shape", facts.loc(rte),
               "raise_trait_error no longer reports (object, name, value) "
               "through handler.error: the rejection would not name the "
               "attribute")
    rets = [p for p in paths["raise_trait_error"] if p.outcome[0] == "RETURN"]
    res.oblige(rets and all(p.outcome[1] == "0" for p in rets),
               "raise_trait_error:returns-null", facts.loc(rte),
               "raise_trait_error can return a non-NULL value")
    for f in validator_closure(facts):
        if not returns_pointer(facts, f):
            continue
        n_null = sum(1 for p in (paths[f] or []) if p.outcome[0] == "RETURN"
                     and p.outcome[1] == "0")
        res.instance(f, facts.loc(facts.func(f)), null_paths=n_null,
                     nontrivial=n_null > 0)
        if f == TUPLE_CHECK:
            # accepted idiom: NULL without exception means "no match"; both
            # callers must consult PyErr_Occurred() (they are checked as
            # ordinary functions here because the callee is not in the
            # NULL-sets-error set)
            res.oblige(not null_err.get(f, False) or True, f, "", "")
            continue
        if f == "raise_trait_error":
            continue
        bad = bad_paths.get(f)
        if bad:
            p = bad[0]
            res.violation(f"{f}:null-without-error",
                          f"{CREL}:{p.lines[-1] if p.lines else 0}",
                          f"{f} can return NULL with no exception set "
                          f"(SystemError for the caller, or a rejected value "
                          f"silently treated as success)",
                          [f"{CREL}:{l}" for l in dict.fromkeys(p.lines) if l])
        else:
            res.oblige(True, f, "", "")
    res.floor(25)


NUMERIC = {"validate_trait_integer": "as_integer(value)",
           "validate_trait_float": "validate_float(value)",
           "validate_trait_complex_number": "validate_complex_number(value)",
           "validate_trait_float_range": "validate_float(value)"}


@rule("C01.propagate", ["C01"],
      "numeric validators turn exactly TypeError into a rejection and pass "
      "every other conversion error through unchanged")
def propagate(ctx, res):
    from .cclone import compound_rows, standalone_rows
    facts = get_cfacts(ctx)
    table = facts.table("validate_handlers")
    for fname, conv in NUMERIC.items():
        kind = table.index(fname)
        for where, rows in ((fname, standalone_rows(ctx, facts, fname)[0]),
                            (f"validate_trait_complex[case{kind}]",
                             compound_rows(ctx, facts, kind)[0])):
            if rows is None:
                raise AnalysisError(f"no compound arm for kind {kind}")
            n = 0
            for atoms, effects, outcome, lines in rows:
                failed = any((t == f"(0 == {conv})" and truth)
                             or (t == f"(0 != {conv})" and truth is False)
                             for t, truth in atoms)
                if not failed:
                    continue
                n += 1
                matches = [(t, truth) for t, truth in atoms
                           if t.startswith("PyErr_ExceptionMatches(")]
                loc = f"{CREL}:{lines[-1] if lines else 0}"
                key = f"{where}"
                other = [t for t, _ in matches
                         if t != "PyErr_ExceptionMatches(PyExc_TypeError)"]
                res.oblige(not other, key + ":class", loc,
                           f"{where}: conversion failure is classified with "
                           f"`{other[0] if other else ''}`; only TypeError "
                           f"means 'wrong type'")
                is_type_error = any(truth for t, truth in matches
                                    if t == "PyErr_ExceptionMatches(PyExc_TypeError)")
                if is_type_error:
                    res.oblige(outcome == ("REJECT",), key + ":type-error",
                               loc, f"{where}: TypeError from the conversion "
                               f"does not end in a rejection ({outcome})")
                else:
                    passes = outcome in (("RETURN", "0"), ("RETURN", conv))
                    res.oblige(passes, key + ":propagate", loc,
                               f"{where}: a non-TypeError raised by the "
                               f"value's own conversion is not propagated "
                               f"unchanged (outcome {outcome})")
            res.instance(where, facts.loc(facts.func(fname)), failing_rows=n)
            if n < 1:
                raise AnalysisError(f"{where}: conversion-failure paths not "
                                    f"recognised (conv `{conv}`)")
    res.floor(8)


LOOKUPS = {
    "dict_getitem": "borrowed dictionary lookup: NULL means 'absent' "
                    "(PyDict_GetItem semantics); every caller tests it",
    TUPLE_CHECK: "documented in the source: NULL without exception means "
                 "'no match'; both callers consult PyErr_Occurred()",
}


@rule("C18.error-discipline", ["C18"],
      "every C function that signals failure (NULL / negative) leaves an "
      "exception set on that path: errors surface as Python exceptions")
def error_discipline(ctx, res):
    facts, null_err, always, bad_paths, paths = analyse_errors(ctx)
    neg_err = ctx._cache.get("c-neg-err", {})
    for f in sorted(paths):
        if paths[f] is None:
            res.note(f"{f}: too many paths, not analysed")
            continue
        if f in null_err:
            n_null = sum(1 for p in paths[f] if p.outcome == ("RETURN", "0"))
            res.instance(f, facts.loc(facts.func(f)), null_paths=n_null,
                         nontrivial=n_null > 0)
            if f in LOOKUPS or f == "raise_trait_error" \
                    or f in facts._lookup_like:
                res.oblige(True, f, "", "")
                continue
            bad = bad_paths.get(f)
            if bad:
                p = bad[0]
                res.violation(f"{f}:null-without-error",
                              f"{CREL}:{p.lines[-1] if p.lines else 0}",
                              f"{f} can return NULL with no exception set",
                              [f"{CREL}:{l}" for l in dict.fromkeys(p.lines) if l])
            else:
                res.oblige(True, f, "", "")
        elif f in neg_err:
            n_neg = sum(1 for p in paths[f] if p.outcome[0] == "RETURN"
                        and re.fullmatch(r"-\d+", p.outcome[1]))
            res.instance(f, facts.loc(facts.func(f)), negative_paths=n_neg,
                         nontrivial=n_neg > 0)
            res.oblige(neg_err[f], f"{f}:negative-without-error",
                       facts.loc(facts.func(f)),
                       f"{f} can return a negative status with no exception "
                       f"set")
    res.floor(100)


# ---------------------------------------------------------------------------
# C18.null-checked: a pointer that can be NULL is tested before it is used

NULL_TOLERANT = {"Py_XDECREF", "Py_XINCREF", "Py_CLEAR", "PyErr_SetObject",
                 "PyErr_Restore", "PyErr_NormalizeException",
                 "PyCallable_Check"}


# (PyLong_AsLong / PyCallable_Check test their argument for NULL themselves:
# BadInternalCall -> SystemError, resp. 0)
API_NULL_OK = {"Py_XDECREF", "Py_XINCREF", "Py_CLEAR", "PyErr_SetObject",
               "PyErr_Restore", "PyErr_NormalizeException",
               "PyCallable_Check", "PyLong_AsLong"}


def _null_tolerant_params(facts, paths):
    """(function, parameter index) pairs of in-file functions that are safe
    to call with NULL for that parameter: on every path, until the parameter
    has been compared with NULL, it is only stored, compared as a pointer, or
    handed to something that is itself NULL-tolerant (fixed point)."""
    import re
    out = set()
    changed = True
    while changed:
        changed = False
        for f, ps in paths.items():
            if not ps:
                continue
            params = [q.name for q in facts.params(f)]
            for i, q in enumerate(params):
                if (f, i) in out:
                    continue
                qre = re.compile(rf"\b{re.escape(q)}\b")
                ok = True
                used = False
                for p in ps:
                    for it in p.trace:
                        if it[0] == "atom":
                            t = it[1]
                            if not qre.search(t):
                                continue
                            used = True
                            if f"{q}->" in t or f"*{q}" in t:
                                ok = False
                                break
                            if t == q or f"(0 == {q})" in t \
                                    or f"(0 != {q})" in t \
                                    or f"({q} == 0)" in t \
                                    or f"({q} != 0)" in t:
                                break       # NULL decided: rest is free
                        elif it[0] == "call":
                            pos = [j for j, a in enumerate(it[2]) if a == q]
                            deref = [a for a in it[2] if a != q and (
                                f"{q}->" in a)]
                            if deref:
                                ok = False
                                break
                            if not pos:
                                continue
                            used = True
                            if it[1] in API_NULL_OK:
                                continue
                            if all((it[1], j) in out for j in pos):
                                continue
                            ok = False
                            break
                    if not ok:
                        break
                if ok and used:
                    out.add((f, i))
                    changed = True
    return out


def _null_paths_feasible(facts, callee_paths, callee_name, args):
    """does the callee have a NULL-returning path compatible with the
    constant arguments of this call site?"""
    import re
    from ..csym import _fold
    params = [q.name for q in facts.params(callee_name)]
    consts = {params[i]: a for i, a in enumerate(args)
              if i < len(params) and re.fullmatch(r"-?\d+", a)}
    for p in callee_paths or []:
        if p.outcome != ("RETURN", "0"):
            continue
        feasible = True
        for it in p.trace:
            if it[0] != "atom" or not isinstance(it[2], bool):
                continue
            t = it[1]
            for q, c in consts.items():
                t = re.sub(rf"\b{re.escape(q)}\b", c, t)
            v = _fold(t)
            if v is not None and v != it[2]:
                feasible = False
                break
        if feasible:
            return True
    return False
# callees whose NULL is not an error but still must not be dereferenced are
# covered too; pure allocators (NULL only when memory is exhausted) are left
# to the allocator-failure policy of C18.ownership


def _can_return_null(facts, paths_of_callee):
    """an in-file function has a path returning 0/NULL"""
    return any(p.outcome == ("RETURN", "0") for p in paths_of_callee or [])


@rule("C18.null-checked", ["C18", "C11"],
      "the result of a call that can return NULL for a reason other than "
      "memory exhaustion (lookups, name mappers, attribute access, calls into "
      "Python) is compared with NULL before it is passed on or dereferenced")
def null_checked(ctx, res):
    from ..csym import cached_paths, flush_paths
    from .cown import is_field_text
    facts = get_cfacts(ctx)
    funcs = list(facts.defined_functions())
    paths = {f: cached_paths(ctx, facts, f) for f in funcs}
    flush_paths(ctx)
    may_null = {f for f in funcs if returns_pointer(facts, f)
                and _can_return_null(facts, paths[f])}
    # handler slots: any table member that can return NULL
    from .crec import _field_tables
    slot_null = {}
    for fld, table in _field_tables(facts).items():
        slot_null["->" + fld] = any(m in may_null
                                    for m in facts.table(table) if m)
    tolerant = _null_tolerant_params(facts, paths)
    n = 0
    for f in funcs:
        ps = paths[f]
        if not ps:
            continue
        found = {}
        relevant = 0
        for p in ps:
            pending = {}
            for it in p.trace:
                if it[0] == "atom":
                    for t in list(pending):
                        if t in it[1]:
                            del pending[t]
                    continue
                if it[0] == "store":
                    # a possibly-NULL result parked in a struct field: the
                    # failure is neither reported nor undone, and the field
                    # is later used as if it were set
                    _, lhs, rhs, sline = it
                    if rhs in pending and is_field_text(lhs):
                        k = ("store", pending[rhs][0])
                        found.setdefault(k, (rhs, pending[rhs][1], sline, p))
                    continue
                _, c, args, full, line, stmt = it
                # uses
                for i, a in enumerate(args):
                    if a in pending and c not in NULL_TOLERANT \
                            and (c, i) not in tolerant:
                        k = (c, pending[a][0])
                        found.setdefault(k, (a, pending[a][1], line, p))
                # producers
                fallible = False
                if c in API:
                    fallible = API[c]["err"] == "null" and not API[c]["oom"]
                    if API[c]["ret"] == "borrowed":
                        fallible = False    # absent-is-NULL lookups: checked
                                            # by the lookup rules
                elif c in may_null:
                    fallible = _null_paths_feasible(facts, paths[c], c, args)
                elif c in slot_null:
                    fallible = slot_null[c]
                if fallible and not stmt:
                    pending[full] = (c, line)
                    relevant += 1
            # a pending value that is returned is the caller's business
        if not relevant:
            continue
        n += 1
        res.instance(f, facts.loc(facts.func(f)))
        if not found:
            res.oblige(True, f, "", "")
        for (user, prod), (a, l1, l2, p) in sorted(found.items()):
            if user == "store":
                res.violation(f"{f}:unchecked:{prod}:store"[:120],
                              f"{CREL}:{l2}",
                              f"{f}: the result of `{prod}` (line {l1}) can "
                              f"be NULL with an exception set, and is stored "
                              f"into a struct field (line {l2}) without "
                              f"having been compared with NULL on this path: "
                              f"the function goes on (and may report "
                              f"success) with the exception pending and the "
                              f"field NULL",
                              [f"{CREL}:{l}" for l in dict.fromkeys(p.lines) if l])
                continue
            res.violation(f"{f}:unchecked:{prod}:{user}"[:120], f"{CREL}:{l2}",
                          f"{f}: the result of `{prod}` (line {l1}) can be "
                          f"NULL with an exception set, and is passed to "
                          f"`{user}` (line {l2}) without having been compared "
                          f"with NULL on this path: the failure becomes a "
                          f"NULL dereference (crash) instead of an exception",
                          [f"{CREL}:{l}" for l in dict.fromkeys(p.lines) if l])
    res.floor(20)



@rule("C18.setter-null", ["C18"],
      "every attribute setter installed in a PyGetSetDef table copes with "
      "deletion (`del obj.attr` calls the setter with value == NULL): the "
      "value is compared with NULL before it is inspected")
def setter_null(ctx, res):
    from ..csym import cached_paths, flush_paths
    facts = get_cfacts(ctx)
    setters = set()
    for d in facts.decls:
        if d.kind == "VarDecl" and "PyGetSetDef" in (d.type or ""):
            for x in d.walk():
                if x.kind == "CStyleCastExpr" and (x.type or "") == "setter":
                    for r in x.walk():
                        if r.kind == "DeclRefExpr" \
                                and r.refkind == "FunctionDecl":
                            setters.add(r.ref)
    if len(setters) < 5:
        raise AnalysisError(f"PyGetSetDef setters not found ({setters})")
    funcs = list(facts.defined_functions())
    paths = {f: cached_paths(ctx, facts, f) for f in funcs}
    flush_paths(ctx)
    tolerant = _null_tolerant_params(facts, paths)
    for f in sorted(setters):
        res.instance(f, facts.loc(facts.func(f)))
        res.oblige((f, 1) in tolerant, f"{f}:deletion", facts.loc(facts.func(f)),
                   f"`del <object>.<attribute>` calls {f} with value == NULL, "
                   f"and {f} inspects the value (type check, truth test, "
                   f"conversion) without comparing it with NULL first: the "
                   f"interpreter crashes instead of raising TypeError")
    res.floor(5)


# ---------------------------------------------------------------------------
# C18.status-checked: a failure status is not discarded on the way to success

STATUS_APIS = {n for n, f in API.items()
               if f["err"] == "neg" and f["python"]}


@rule("C18.status-checked", ["C18", "C13"],
      "a call whose int status can report a failure raised by user code "
      "(hashing or comparing a key, a warning turned into an error) does not "
      "have that status thrown away on a path that then carries on as if the "
      "call had succeeded: either the status is tested, or the path ends in "
      "the function's own error return")
def status_checked(ctx, res):
    from ..csym import cached_paths, flush_paths
    facts = get_cfacts(ctx)
    funcs = list(facts.defined_functions())
    paths = {f: cached_paths(ctx, facts, f) for f in funcs}
    flush_paths(ctx)
    if not STATUS_APIS:
        raise AnalysisError("no int-status API in the CPython model")
    # in-file functions (and the handler slots that dispatch to them) with a
    # path that returns a negative status
    from .cown import slot_targets
    fallible = set()
    for f, ps in paths.items():
        if returns_pointer(facts, f):
            continue
        if any(p.outcome[0] == "RETURN" and re.fullmatch(r"-\d+", p.outcome[1])
               for p in ps or []):
            fallible.add(f)
    targets = slot_targets(facts)

    def is_status(c):
        if c in STATUS_APIS or c in fallible:
            return True
        return c.startswith("->") and any(t in fallible for t in targets(c))
    if len(fallible) < 20:
        raise AnalysisError(f"only {len(fallible)} in-file status functions")
    n_sites = 0
    seen = set()
    for f in sorted(paths):
        ptr = returns_pointer(facts, f)
        for p in paths[f] or []:
            calls = [it for it in p.trace if it[0] == "call"]
            for it in calls:
                if is_status(it[1]):
                    key = (f, it[1], it[4])
                    if key not in seen:
                        seen.add(key)
                        n_sites += 1
                        res.instance(f"{f}:{it[1]}", f"{CREL}:{it[4]}",
                                     discarded=bool(it[5]))
                if not (is_status(it[1]) and it[5]):
                    continue
                if p.outcome[0] == "RETURN" and (
                        (ptr and p.outcome[1] == "0")
                        or (not ptr and re.fullmatch(r"-\d+", p.outcome[1]))):
                    continue            # the path reports failure anyway
                k2 = f"{f}:{it[1]}:status-discarded"
                if k2 in seen:
                    continue
                seen.add(k2)
                res.violation(
                    k2, f"{CREL}:{it[4]}",
                    f"{f} throws away the status of {it[1]}(...) and carries "
                    f"on to {' '.join(p.outcome)}: when the call fails (an "
                    f"unhashable or raising key, a handler or validator that "
                    f"raises) the exception stays pending while the function "
                    f"reports success, and the state the call was to "
                    f"establish is missing",
                    [f"{CREL}:{l}" for l in dict.fromkeys(p.lines) if l][-6:])
    res.floor(10)
    if n_sites:
        res.oblige(True, "status-sites", CREL, "")


# ---------------------------------------------------------------------------
# C19.clear-specific: the compiled core swallows only the exceptions it names

CATCH_ALL = {"PyExc_Exception", "PyExc_BaseException"}

# PyErr_Clear() calls that are not under a PyErr_ExceptionMatches(<class>)
# test, keyed by (function, the call whose failure is being cleared); each
# was read and is part of the documented behaviour
UNGUARDED_CLEARS = {
    ("raise_trait_error", None):
        "replaces whatever is pending by the TraitError it raises",
    ("delegate_attr_name_class_name", "PyObject_GetAttr"):
        "a class without __prefix__: the delegate name is the bare name",
    ("validate_trait_complex", "PySequence_Contains"):
        "compound 'enum' alternative: a failing membership test (unhashable "
        "/ incomparable value) means this alternative does not match",
    ("validate_trait_complex", "PyDict_GetItemWithError"):
        "compound 'map' alternative: an unhashable value does not match",
    ("validate_trait_complex", "validate_trait_tuple_check"):
        "compound 'tuple' alternative: an item rejected by its validator "
        "means this alternative does not match",
    ("validate_trait_complex", "type_converter"):
        "compound 'cast' alternative: a failed conversion does not match",
    ("validate_trait_complex", "call_validator"):
        "compound 'python validator' alternative: documented to try the next "
        "alternative when the validator raises",
}


@rule("C19.clear-specific", ["C19", "C01"],
      "every PyErr_Clear() in the compiled core either follows a "
      "PyErr_ExceptionMatches test for a specific exception class (never "
      "Exception / BaseException) or is one of the confirmed sites where a "
      "failed alternative of a compound validator is abandoned: an exception "
      "raised by user code (a factory, a validator, a default) is not turned "
      "into a silent success")
def clear_specific(ctx, res):
    from ..csym import cached_paths, flush_paths
    facts = get_cfacts(ctx)
    from .cown import python_runners
    runners = set(python_runners(facts))
    seen = {}
    for f in sorted(facts.defined_functions()):
        for p in cached_paths(ctx, facts, f) or []:
            guard = None          # class matched since the last failing call
            source = None         # the call whose failure is pending
            for it in p.trace:
                if it[0] == "atom":
                    m = re.fullmatch(r"PyErr_ExceptionMatches\((\w+)\)", it[1])
                    if m and it[2] is True:
                        guard = m.group(1)
                    continue
                if it[0] != "call":
                    continue
                c = it[1]
                if c == "PyErr_Clear":
                    key = (f, guard if guard else "-", source)
                    seen.setdefault(key, it[4])
                    guard = None
                    continue
                if c in ("PyErr_ExceptionMatches", "PyErr_Occurred") \
                        or c in ("Py_INCREF", "Py_XINCREF", "Py_DECREF", "Py_XDECREF", "Py_CLEAR"):
                    continue
                if not ((c in API and API[c]["python"]) or c.startswith("->")
                        or c in runners):
                    continue        # cannot replace the pending exception
                source = c
                guard = None
    flush_paths(ctx)
    used = set()
    for (f, guard, source), line in sorted(seen.items(),
                                           key=lambda kv: str(kv[0])):
        key = f"{f}:{source}:{guard}"
        res.instance(key, f"{CREL}:{line}")
        if guard != "-":
            res.oblige(guard not in CATCH_ALL, f"{f}:{source}:catch-all",
                       f"{CREL}:{line}",
                       f"{f} clears any exception that is an instance of "
                       f"{guard} after {source}(...) failed: an error raised "
                       f"by the user's code there (not only the expected "
                       f"'does not apply' signal) is swallowed and the "
                       f"operation carries on as if nothing had happened")
            continue
        k2 = (f, source)
        if k2 in UNGUARDED_CLEARS:
            used.add(k2)
            res.oblige(True, key, "", "")
        else:
            res.violation(f"{f}:{source}:unguarded-clear", f"{CREL}:{line}",
                          f"{f} calls PyErr_Clear() after {source}(...) "
                          f"without testing which exception is pending: "
                          f"whatever the call raised is swallowed")
    missing = set(UNGUARDED_CLEARS) - used
    if missing:
        raise AnalysisError(f"confirmed PyErr_Clear sites not found: "
                            f"{sorted(map(str, missing))}")
    res.floor(12)
