"""C03.clone: every stand-alone C validator equals its hand-duplicated arm in
validate_trait_complex (decision tables with symbolic outcomes)."""
from __future__ import annotations

from ..ccfg import get_ccfg
from ..cexpr import callee, cnorm, int_value, strip, var
from ..cfacts import CREL, get_cfacts
from ..core import AnalysisError, rule
from .ctables import py_enum

IGNORED_EFFECTS = {"PyErr_Clear"}


class Sym:
    """Symbolic evaluation of expressions along one path: locals are replaced
    by the (already substituted) expression last assigned to them."""

    def __init__(self, seed):
        self.env = dict(seed)
        self.params = set()

    def text(self, n):
        n = strip(n)
        if n is None:
            return "?"
        k = n.kind
        T = self.text
        if k == "DeclRefExpr":
            nm = n.ref or "?"
            if n.refkind == "VarDecl" and nm in self.env:
                return self.env[nm]
            return nm
        if k == "BinaryOperator" and n.op == "=":
            v = var(n.ch[0])
            rhs = T(n.ch[1])
            if v:
                self.env[v] = rhs
                return rhs
            return f"({T(n.ch[0])} = {rhs})"
        if k == "UnaryOperator" and n.op in ("++", "--"):
            v = var(n.ch[0])
            if v:
                old = self.env.get(v, v)
                self.env[v] = f"({old}{n.op[0]}1)"
                return old if (n.extra or {}).get("postfix") else self.env[v]
        if k == "MemberExpr":
            t = f"{T(n.ch[0])}{'->' if n.arrow else '.'}{n.name}"
            return self.env.get(t, t)
        if k == "IntegerLiteral":
            return str(n.value)
        if k in ("FloatingLiteral", "CharacterLiteral", "StringLiteral"):
            return str(n.value)
        if k == "CallExpr":
            c = callee(n)
            f = c if c != "?" and not c.startswith("->") else T(n.ch[0])
            return f"{f}({', '.join(T(a) for a in n.ch[1:])})"
        if k in ("BinaryOperator", "CompoundAssignOperator"):
            l, r = T(n.ch[0]), T(n.ch[1])
            if n.op in ("==", "!=", "+", "*", "&", "|") and r < l:
                l, r = r, l
            return f"({l} {n.op} {r})"
        if k == "UnaryOperator":
            return f"{n.op}{T(n.ch[0])}"
        if k == "ArraySubscriptExpr":
            return f"{T(n.ch[0])}[{T(n.ch[1])}]"
        if k == "ConditionalOperator":
            return f"({T(n.ch[0])} ? {T(n.ch[1])} : {T(n.ch[2])})"
        if k == "VarDecl":
            init = [c for c in n.ch if c.kind != "UnusedAttr"]
            if init:
                self.env[n.name] = T(init[-1])
                return self.env[n.name]
            return n.name
        return cnorm(n)


def _rows(g, start, seed, stop_nodes, func_name):
    """Symbolic rows from ``start``: (atoms, effects, outcome, lines)."""
    rows = []

    def go(nid, sym_env, atoms, effects, lines, counts):
        if len(rows) > 4000:
            raise AnalysisError(f"{func_name}: too many paths")
        node = g.nodes[nid]
        if nid in stop_nodes:
            rows.append((tuple(atoms), tuple(effects), (stop_nodes[nid],),
                         list(lines)))
            return
        sym = Sym(sym_env)
        new_eff = list(effects)
        new_atoms = list(atoms)
        outcome = None
        if node.kind == "return":
            if node.ast.ch:
                rv = sym.text(node.ast.ch[0])
                c = strip(node.ast.ch[0])
                if c.kind == "CallExpr" and callee(c) == "raise_trait_error":
                    outcome = ("REJECT",)
                else:
                    outcome = ("RETURN", rv)
            else:
                outcome = ("RETURN", "")
            rows.append((tuple(new_atoms), tuple(new_eff), outcome,
                         list(lines) + [node.line]))
            return
        if node.kind == "stmt":
            a = strip(node.ast)
            if a.kind == "CallExpr":
                c = callee(a)
                t = sym.text(a)
                if c not in IGNORED_EFFECTS:
                    new_eff.append(t)
            else:
                sym.text(node.ast)      # assignments update the environment
        if node.kind == "switch":
            pass
        for lab, tgt in g.succ[nid]:
            cnt = counts.get(tgt, 0)
            if cnt >= 2:
                continue
            a2 = list(new_atoms)
            s2 = Sym(sym.env)
            if node.kind == "cond":
                a2.append((s2.text(node.ast), lab == "T"))
            elif node.kind == "switch":
                continue      # nested switches are not expected in an arm
            counts[tgt] = cnt + 1
            go(tgt, s2.env, a2, new_eff, lines + [node.line], counts)
            counts[tgt] = cnt
    go(start, dict(seed), [], [], [], {start: 1})
    return rows


def _canon(rows):
    """Rename remaining free locals by first appearance so that naming is not
    a difference; returns a set of hashable rows."""
    out = set()
    for atoms, effects, outcome, lines in rows:
        out.add((atoms, effects, outcome))
    return out


def standalone_rows(ctx, facts, fname):
    g = get_ccfg(ctx, facts, fname)
    seed = {"trait->py_validate": "INFO"}
    return _rows(g, g.entry.id, seed, {}, fname), g


def compound_rows(ctx, facts, kind):
    g = get_ccfg(ctx, facts, "validate_trait_complex")
    sw = [n for n in g.nodes if n.kind == "switch"]
    if len(sw) != 1:
        raise AnalysisError("validate_trait_complex: expected one switch")
    entry = None
    for lab, tgt in g.succ[sw[0].id]:
        if lab == ("case", kind):
            entry = tgt
    if entry is None:
        return None, g
    # the alternative is rejected when control reaches the increment of the
    # loop over alternatives (or the error label)
    outer_for_line = min(n.info[1] for n in g.nodes
                         if isinstance(n.info, tuple) and n.info[0] == "for-inc")
    stops = {}
    for n in g.nodes:
        if isinstance(n.info, tuple) and n.info[0] == "for-inc" \
                and n.info[1] == outer_for_line:
            stops[n.id] = "REJECT"
        if isinstance(n.info, tuple) and n.info[0] == "label" \
                and n.info[1] == "error":
            stops[n.id] = "REJECT"
    # which local holds the descriptor of the current alternative
    info_var = None
    for n in g.nodes:
        if n.ast is None:
            continue
        a = strip(n.ast)
        if a.kind == "BinaryOperator" and a.op == "=" and var(a.ch[0]):
            r = cnorm(a.ch[1])
            if "ob_item[" in r and "list_type_info" in r or (
                    "ob_item[i]" in r):
                info_var = var(a.ch[0])
                break
    if info_var is None:
        raise AnalysisError("validate_trait_complex: descriptor variable of "
                            "the current alternative not found")
    seed = {info_var: "INFO"}
    return _rows(g, entry, seed, stops, f"validate_trait_complex[{kind}]"), g


def _fmt(row):
    atoms, effects, outcome = row
    a = " && ".join(("" if t else "!") + x for x, t in atoms) or "true"
    e = ("; ".join(effects) + "; ") if effects else ""
    return f"[{a}] => {e}{' '.join(outcome)}"


@rule("C03.clone", ["C03"],
      "each stand-alone C validator and its copy inside the compound switch "
      "have the same decision table (atoms, reference effects, outcomes)")
def c03_clone(ctx, res):
    facts = get_cfacts(ctx)
    table = facts.table("validate_handlers")
    vt = py_enum(ctx, "traits/constants.py", "ValidateTrait")
    pairs = 0
    for kind, fname in enumerate(table):
        if fname is None or not fname.startswith("validate_trait_"):
            continue
        if fname == "validate_trait_complex":
            continue
        crow, g = compound_rows(ctx, facts, kind)
        if crow is None:
            continue        # kind has no arm (python); C03.tables covers it
        srow, sg = standalone_rows(ctx, facts, fname)
        A, B = _canon(srow), _canon(crow)
        pairs += 1
        loc = facts.loc(facts.func(fname))
        res.instance(f"kind {kind}: {fname}", loc, programs=2,
                     rows=len(A) + len(B), standalone_rows=len(A),
                     compound_rows=len(B))
        only_s, only_c = A - B, B - A
        ok = not only_s and not only_c
        msg = ""
        if not ok:
            ex_s = _fmt(sorted(only_s)[0]) if only_s else "-"
            ex_c = _fmt(sorted(only_c)[0]) if only_c else "-"
            msg = (f"kind {kind}: {fname} and `case {kind}` of "
                   f"validate_trait_complex decide differently; only in "
                   f"stand-alone: {ex_s} | only in compound arm: {ex_c}")
        res.oblige(ok, f"kind {kind}:{fname}", loc, msg,
                   extra={"only_standalone": [_fmt(r) for r in sorted(only_s)][:6],
                          "only_compound": [_fmt(r) for r in sorted(only_c)][:6]})
    if pairs < 15:
        raise AnalysisError(f"only {pairs} validator/arm pairs compared, "
                            f"floor is 15")
