"""C03.clone: every stand-alone C validator equals its hand-duplicated arm in
validate_trait_complex (decision tables with symbolic outcomes)."""
from __future__ import annotations

from ..ccfg import get_ccfg
from ..cexpr import callee, cnorm, int_value, strip, var
from ..cfacts import CREL, get_cfacts
from ..core import AnalysisError, rule
from .ctables import py_enum

IGNORED_EFFECTS = {"PyErr_Clear"}


from ..csym import sym_paths


def _rows(g, start, seed, stop_nodes, func_name):
    """Symbolic rows from ``start``: (atoms, effects, outcome, lines)."""
    rows = []
    for p in sym_paths(g, start=start, seed=seed, stops=stop_nodes,
                       max_paths=4000, name=func_name):
        atoms = tuple((t, truth) for t, truth, _ in p.atoms)
        effects = tuple(e[2] for e in p.events
                        if e[4] and e[0] not in IGNORED_EFFECTS)
        if p.outcome[0] == "RETURN":
            rv = p.outcome[1]
            outcome = ("REJECT",) if rv.startswith("raise_trait_error(") \
                else ("RETURN", rv)
        elif p.outcome[0] == "STOP":
            outcome = (p.outcome[1],)
        else:
            outcome = ("END",)
        rows.append((atoms, effects, outcome, p.lines))
    return rows


def _canon(rows):
    """Rename remaining free locals by first appearance so that naming is not
    a difference; returns a set of hashable rows."""
    import re
    out = set()
    for atoms, effects, outcome, lines in rows:
        # one spelling per test: `(0 != X)` is the negation of `(0 == X)`;
        # the conjunction is a set (the order in which independent tests are
        # made is not a difference); a value known to be NULL on the path is
        # NULL when it is returned
        norm_atoms = set()
        for t, truth in atoms:
            m = re.fullmatch(r"\((-?\d+) != (.+)\)", t)
            if m and isinstance(truth, bool):
                t, truth = f"({m.group(1)} == {m.group(2)})", not truth
            norm_atoms.add((t, truth))
        if outcome[0] == "RETURN" and (f"(0 == {outcome[1]})", True) \
                in norm_atoms:
            outcome = ("RETURN", "0")
        out.add((tuple(sorted(norm_atoms, key=lambda a: (a[0], str(a[1])))),
                 effects, outcome))
    return out


def standalone_rows(ctx, facts, fname):
    g = get_ccfg(ctx, facts, fname)
    seed = {"trait->py_validate": "INFO"}
    return _rows(g, g.entry.id, seed, {}, fname), g


def compound_rows(ctx, facts, kind):
    g = get_ccfg(ctx, facts, "validate_trait_complex")
    sw = [n for n in g.nodes if n.kind == "switch"]
    if len(sw) != 1:
        raise AnalysisError("validate_trait_complex: expected one switch")
    entry = None
    for lab, tgt in g.succ[sw[0].id]:
        if lab == ("case", kind):
            entry = tgt
    if entry is None:
        return None, g
    # the alternative is rejected when control reaches the increment of the
    # loop over alternatives (or the error label)
    outer_for_line = min(n.info[1] for n in g.nodes
                         if isinstance(n.info, tuple) and n.info[0] == "for-inc")
    stops = {}
    for n in g.nodes:
        if isinstance(n.info, tuple) and n.info[0] == "for-inc" \
                and n.info[1] == outer_for_line:
            stops[n.id] = "REJECT"
        if isinstance(n.info, tuple) and n.info[0] == "label" \
                and n.info[1] == "error":
            # leaves the loop over alternatives: the whole compound rejects
            stops[n.id] = "REJECT-ALL"
    # which local holds the descriptor of the current alternative
    info_var = None
    for n in g.nodes:
        if n.ast is None:
            continue
        a = strip(n.ast)
        if a.kind == "BinaryOperator" and a.op == "=" and var(a.ch[0]):
            r = cnorm(a.ch[1])
            if "ob_item[" in r and "list_type_info" in r or (
                    "ob_item[i]" in r):
                info_var = var(a.ch[0])
                break
    if info_var is None:
        raise AnalysisError("validate_trait_complex: descriptor variable of "
                            "the current alternative not found")
    seed = {info_var: "INFO"}
    return _rows(g, entry, seed, stops, f"validate_trait_complex[{kind}]"), g


def _fmt(row):
    atoms, effects, outcome = row
    a = " && ".join(("" if t else "!") + x for x, t in atoms) or "true"
    e = ("; ".join(effects) + "; ") if effects else ""
    return f"[{a}] => {e}{' '.join(outcome)}"


@rule("C03.clone", ["C03", "C01"],
      "each stand-alone C validator and its copy inside the compound switch "
      "have the same decision table (atoms, reference effects, outcomes)")
def c03_clone(ctx, res):
    facts = get_cfacts(ctx)
    table = facts.table("validate_handlers")
    vt = py_enum(ctx, "traits/constants.py", "ValidateTrait")
    pairs = 0
    for kind, fname in enumerate(table):
        if fname is None or not fname.startswith("validate_trait_"):
            continue
        if fname == "validate_trait_complex":
            continue
        crow, g = compound_rows(ctx, facts, kind)
        if crow is None:
            continue        # kind has no arm (python); C03.tables covers it
        srow, sg = standalone_rows(ctx, facts, fname)
        A, B = _canon(srow), _canon(crow)
        pairs += 1
        loc = facts.loc(facts.func(fname))
        res.instance(f"kind {kind}: {fname}", loc, programs=2,
                     rows=len(A) + len(B), standalone_rows=len(A),
                     compound_rows=len(B))
        only_s, only_c = A - B, B - A
        ok = not only_s and not only_c
        msg = ""
        if not ok:
            ex_s = _fmt(sorted(only_s)[0]) if only_s else "-"
            ex_c = _fmt(sorted(only_c)[0]) if only_c else "-"
            msg = (f"kind {kind}: {fname} and `case {kind}` of "
                   f"validate_trait_complex decide differently; only in "
                   f"stand-alone: {ex_s} | only in compound arm: {ex_c}")
        res.oblige(ok, f"kind {kind}:{fname}", loc, msg,
                   extra={"only_standalone": [_fmt(r) for r in sorted(only_s)][:6],
                          "only_compound": [_fmt(r) for r in sorted(only_c)][:6]})
    if pairs < 15:
        raise AnalysisError(f"only {pairs} validator/arm pairs compared, "
                            f"floor is 15")


@rule("C03.next-alternative", ["C03", "C01"],
      "when an alternative of a compound trait does not accept, the next "
      "alternative is tried: no arm of the compound switch leaves the loop "
      "over alternatives with a rejection")
def next_alternative(ctx, res):
    facts = get_cfacts(ctx)
    g = get_ccfg(ctx, facts, "validate_trait_complex")
    sw = [n for n in g.nodes if n.kind == "switch"]
    if len(sw) != 1:
        raise AnalysisError("validate_trait_complex: expected one switch")
    kinds = sorted(lab[1] for lab, tgt in g.succ[sw[0].id]
                   if isinstance(lab, tuple))
    if len(kinds) < 16:
        raise AnalysisError(f"only {len(kinds)} arms in the compound switch")
    for k in kinds:
        rows, _ = compound_rows(ctx, facts, k)
        outcomes = {r[2] for r in rows}
        nxt = sum(1 for r in rows if r[2] == ("REJECT",))
        res.instance(f"case {k}", facts.loc(facts.func("validate_trait_complex")),
                     rows=len(rows), try_next_rows=nxt)
        bad = [r for r in rows if r[2] == ("REJECT-ALL",)]
        res.oblige(not bad, f"validate_trait_complex[case{k}]:reject-all",
                   f"{CREL}:{bad[0][3][-1] if bad and bad[0][3] else 0}",
                   f"case {k} of the compound validator can reject the value "
                   f"for the whole compound trait (jumps to `error`) instead "
                   f"of trying the next alternative: a value accepted only by "
                   f"a later alternative is refused",
                   [f"{CREL}:{l}" for l in dict.fromkeys(bad[0][3]) if l]
                   if bad else None)
        res.oblige(nxt > 0, f"validate_trait_complex[case{k}]:has-next",
                   CREL, f"case {k} never falls through to the next "
                   f"alternative")


@rule("C03.tuple-check-contract", ["C03", "C01"],
      "validate_trait_tuple_check reports 'no match' as NULL *without* an "
      "exception: on every path on which a member validator rejected an item "
      "the function asks whether the pending exception is a TraitError and "
      "clears it if so (its callers - the Tuple validator and the tuple arm "
      "of the compound validator - take a pending exception for a real error "
      "and do not try the next alternative)")
def tuple_check_contract(ctx, res):
    from ..csym import cached_paths, flush_paths
    facts = get_cfacts(ctx)
    fname = "validate_trait_tuple_check"
    paths = cached_paths(ctx, facts, fname)
    flush_paths(ctx)
    if not paths:
        raise AnalysisError(f"{fname}: no paths")
    n = 0
    bad = None
    for p in paths:
        if p.outcome != ("RETURN", "0"):
            continue
        failed = None
        asked = cleared = None
        for it in p.trace:
            if it[0] == "atom" and isinstance(it[2], bool):
                t, truth = it[1], it[2]
                if "->validate(" in t and ((t.startswith("(0 == ") and truth)
                                           or (t.startswith("(0 != ")
                                               and not truth)):
                    failed = t
                if failed and t.startswith("PyErr_ExceptionMatches("):
                    asked = truth
            elif it[0] == "call" and failed and it[1] == "PyErr_Clear":
                cleared = True
        if failed is None:
            continue
        n += 1
        ok = asked is False or (asked is True and cleared)
        if not ok and bad is None:
            bad = p
    res.instance(fname, facts.loc(facts.func(fname)), rejecting_paths=n)
    if n == 0:
        raise AnalysisError(f"{fname}: no path on which a member rejects")
    res.oblige(bad is None, f"{fname}:rejection-leaves-exception",
               f"{CREL}:{bad.lines[-1] if bad else 0}",
               f"{fname} can return NULL after a member validator rejected "
               f"an item without having cleared (or even examined) the "
               f"pending TraitError: the tuple arm of a compound trait then "
               f"aborts with that error instead of trying the next "
               f"alternative, although the Python validate accepts the value",
               [f"{CREL}:{l}" for l in dict.fromkeys(bad.lines) if l]
               if bad else None)
    res.floor(1)
