"""Container rules: C04 (validity), C05/C06/C07 (deltas), part of C19.

All rules run over TraitList / TraitDict / TraitSet and their *Object
subclasses in trait_{list,dict,set}_object.py.
"""
from __future__ import annotations

import ast
import builtins

from ..core import AnalysisError, rule
from ..pyfacts import (get_pyrepo, is_self_attr, is_self_call, is_super_call,
                       names_in, norm)
from ..pyflow import PyFlow

FILES = {
    "list": ("traits/trait_list_object.py", "TraitList", "TraitListObject"),
    "dict": ("traits/trait_dict_object.py", "TraitDict", "TraitDictObject"),
    "set": ("traits/trait_set_object.py", "TraitSet", "TraitSetObject"),
}
PROP_OF = {"list": "C05", "dict": "C06", "set": "C07"}

# In-place mutators of the built-in types (Python data model; frozen table).
MUTATORS = {
    "list": ["__delitem__", "__iadd__", "__imul__", "__setitem__", "append",
             "clear", "extend", "insert", "pop", "remove", "reverse", "sort"],
    "dict": ["__delitem__", "__ior__", "__setitem__", "clear", "pop",
             "popitem", "setdefault", "update"],
    "set": ["__iand__", "__ior__", "__isub__", "__ixor__", "add", "clear",
            "difference_update", "discard", "intersection_update", "pop",
            "remove", "symmetric_difference_update", "update"],
}
# Everything else the interpreter's built-in type offers, confirmed not to
# mutate the receiver in place.  A name in neither table fails closed.
NON_MUTATORS = {
    "list": {"__add__", "__class__", "__class_getitem__", "__contains__",
             "__delattr__", "__dir__", "__doc__", "__eq__", "__format__",
             "__ge__", "__getattribute__", "__getitem__", "__getstate__",
             "__gt__", "__hash__", "__init__", "__init_subclass__",
             "__iter__", "__le__", "__len__", "__lt__", "__mul__", "__ne__",
             "__new__", "__reduce__", "__reduce_ex__", "__repr__",
             "__reversed__", "__rmul__", "__setattr__", "__sizeof__",
             "__str__", "__subclasshook__", "copy", "count", "index"},
    "dict": {"__class__", "__class_getitem__", "__contains__", "__delattr__",
             "__dir__", "__doc__", "__eq__", "__format__", "__ge__",
             "__getattribute__", "__getitem__", "__getstate__", "__gt__",
             "__hash__", "__init__", "__init_subclass__", "__iter__",
             "__le__", "__len__", "__lt__", "__ne__", "__new__", "__or__",
             "__reduce__", "__reduce_ex__", "__repr__", "__reversed__",
             "__ror__", "__setattr__", "__sizeof__", "__str__",
             "__subclasshook__", "copy", "fromkeys", "get", "items", "keys",
             "values"},
    "set": {"__and__", "__class__", "__class_getitem__", "__contains__",
            "__delattr__", "__dir__", "__doc__", "__eq__", "__format__",
            "__ge__", "__getattribute__", "__getstate__", "__gt__",
            "__hash__", "__init__", "__init_subclass__", "__iter__",
            "__le__", "__len__", "__lt__", "__ne__", "__new__", "__or__",
            "__rand__", "__reduce__", "__reduce_ex__", "__repr__", "__ror__",
            "__rsub__", "__rxor__", "__setattr__", "__sizeof__", "__str__",
            "__sub__", "__subclasshook__", "__xor__", "copy", "difference",
            "intersection", "isdisjoint", "issubset", "issuperset",
            "symmetric_difference", "union"},
}
# Which positional arguments of a built-in mutator carry new elements
# ("*" = all positional and keyword arguments).  Mutators absent from this
# table can only remove or reorder existing members.
ELEMENT_ARGS = {
    "list": {"__init__": [0], "__iadd__": [0], "__setitem__": [1],
             "append": [0], "extend": [0], "insert": [1]},
    "dict": {"__init__": "*", "__setitem__": [0, 1], "__ior__": [0],
             "update": "*", "setdefault": [0, 1]},
    "set": {"__init__": [0], "__ior__": [0], "__ixor__": [0], "add": [0],
            "update": "*", "symmetric_difference_update": [0]},
}
# Built-in in-place operators return NotImplemented for an operand that is
# not a set/frozenset, so passing such an operand through cannot add members.
SET_INPLACE_OPS = {"__ior__", "__ixor__", "__iand__", "__isub__"}

VALIDATORS = {"item_validator", "key_validator", "value_validator"}
NOTIFY_SIG = {"list": ["index", "removed", "added"],
              "dict": ["removed", "added", "changed"],
              "set": ["removed", "added"]}

# provenance labels
V, R, OPRE, OPOST, MRES, C, NS = "V", "R", "OPRE", "OPOST", "MRES", "C", "NS"
# phases
PRE, POST, DONE = "pre", "post", "notified"

SELF_READS = {"copy", "items", "values", "keys", "intersection", "difference",
              "union", "symmetric_difference", "get", "index", "count",
              "__getitem__"}
PASS_THROUGH_FUNCS = {"set", "list", "dict", "tuple", "frozenset", "sorted",
                      "reversed", "iter", "next", "enumerate", "zip"}
SCALAR_FUNCS = {"len", "isinstance", "hasattr", "bool", "callable", "id",
                "hash", "range", "type"}
LOCAL_ADDERS = {"append", "add", "extend", "update", "insert", "setdefault"}


def check_dir_tables(kind):
    bt = getattr(builtins, kind)
    names = set(dir(bt))
    unknown = names - set(MUTATORS[kind]) - NON_MUTATORS[kind]
    if unknown:
        raise AnalysisError(
            f"built-in {kind} has attributes not classified as mutator or "
            f"non-mutator: {sorted(unknown)}")
    missing = set(MUTATORS[kind]) - names
    if missing:
        raise AnalysisError(f"mutator table names not on {kind}: {missing}")


def container_classes(ctx):
    repo = get_pyrepo(ctx)
    out = {}
    for kind, (rel, base, obj) in FILES.items():
        out[kind] = (repo.module(rel), repo.cls(rel, base), repo.cls(rel, obj))
    return repo, out


# ---------------------------------------------------------------------------
# C04.exhaustive

@rule("C04.exhaustive", ["C04"],
      "every in-place mutator of list/dict/set is overridden in Trait*")
def c04_exhaustive(ctx, res):
    repo, classes = container_classes(ctx)
    for kind, (mod, base, obj) in classes.items():
        check_dir_tables(kind)
        if repo.builtin_base(base) != kind:
            raise AnalysisError(f"{base.name} no longer derives from {kind}")
        for m in MUTATORS[kind] + ["__init__"]:
            key = f"{base.name}.{m}"
            defined = m in base.methods
            res.instance(key, mod.loc(base.methods[m]) if defined
                         else mod.loc(base.node))
            res.oblige(defined, key, mod.loc(base.node),
                       f"built-in mutator {kind}.{m} is not overridden in "
                       f"{base.name}: it would bypass validation and "
                       f"notification")
    res.floor(36)


# ---------------------------------------------------------------------------
# the shared flow analysis

class MutatorFlow(PyFlow):
    """State = (phase, env, flags) with env a frozenset of (var, labels)."""

    def __init__(self, repo, module, cls, func, kind):
        super().__init__(module, func, f"{cls.name}.{func.name}")
        self.repo = repo
        self.cls = cls
        self.kind = kind
        a = func.args
        self.params = [x.arg for x in a.posonlyargs + a.args + a.kwonlyargs]
        if a.vararg:
            self.params.append(a.vararg.arg)
        if a.kwarg:
            self.params.append(a.kwarg.arg)
        self.selfname = self.params[0] if self.params else "self"
        self.mutations = []     # (mutator name, node line)
        self.notifies = []      # cfg node ids containing a notify call
        self.validations = 0
        self.checked_args = 0

    # -- state helpers -----------------------------------------------------

    def init_state(self):
        env = {p: frozenset([R]) for p in self.params[1:]}
        return (PRE, frozenset(env.items()))

    @staticmethod
    def env_of(state):
        return dict(state[1])

    @staticmethod
    def mk(phase, env):
        return (phase, frozenset(env.items()))

    # -- event classification ---------------------------------------------

    def builtin_mutation(self, call):
        """Name of the built-in mutator invoked on self by this call, or
        None.  Recognises super().m(...) when the next definer is the
        built-in base, and list.m(self, ...)."""
        m = is_super_call(call)
        if m is not None:
            r = self.repo.resolve_method(self.cls, m, after=self.cls)
            if r and r[0] == "builtin" and (m in MUTATORS[self.kind]
                                            or m == "__init__"):
                return m, call.args, call.keywords
            return None
        if isinstance(call, ast.Call) and isinstance(call.func, ast.Attribute) \
                and isinstance(call.func.value, ast.Name) \
                and call.func.value.id == self.kind and call.args \
                and isinstance(call.args[0], ast.Name) \
                and call.args[0].id == self.selfname:
            m = call.func.attr
            if m in MUTATORS[self.kind] or m == "__init__":
                return m, call.args[1:], call.keywords
        return None

    def classify(self, e, node):
        if isinstance(e, ast.Call):
            if isinstance(e.func, ast.Attribute) \
                    and is_self_attr(e.func, None, self.selfname) \
                    and e.func.attr in VALIDATORS:
                return [("V", True)]
            bm = self.builtin_mutation(e)
            if bm:
                return [("M", True)]
            if is_self_call(e, "notify", self.selfname):
                return [("N", False)]
        if isinstance(e, (ast.Assign, ast.AugAssign)):
            return [("A", False)]
        if isinstance(e, ast.Call) and isinstance(e.func, ast.Attribute) \
                and isinstance(e.func.value, ast.Name) \
                and e.func.attr in LOCAL_ADDERS \
                and e.func.value.id != self.selfname:
            return [("LA", False)]
        return []

    # -- provenance --------------------------------------------------------

    def own(self, phase):
        return frozenset([OPRE if phase == PRE else OPOST])

    def prov(self, e, env, phase):
        P = lambda x: self.prov(x, env, phase)  # noqa: E731
        if e is None:
            return frozenset([C])
        if isinstance(e, ast.Name):
            if e.id == self.selfname:
                return self.own(phase)
            return env.get(e.id, frozenset([C]))
        if isinstance(e, ast.Constant):
            return frozenset([C])
        if isinstance(e, (ast.List, ast.Tuple, ast.Set)):
            out = frozenset()
            for x in e.elts:
                out |= P(x.value if isinstance(x, ast.Starred) else x)
            return out or frozenset([C])
        if isinstance(e, ast.Dict):
            out = frozenset()
            for k, v in zip(e.keys, e.values):
                out |= P(k) | P(v)
            return out or frozenset([C])
        if isinstance(e, (ast.ListComp, ast.SetComp, ast.GeneratorExp,
                          ast.DictComp)):
            env2 = dict(env)
            for g in e.generators:
                lab = self.prov(g.iter, env2, phase)
                for n in names_in(g.target):
                    env2[n] = lab
            if isinstance(e, ast.DictComp):
                return (self.prov(e.key, env2, phase)
                        | self.prov(e.value, env2, phase))
            return self.prov(e.elt, env2, phase)
        if isinstance(e, ast.Starred):
            return P(e.value)
        if isinstance(e, ast.IfExp):
            return P(e.body) | P(e.orelse)
        if isinstance(e, ast.BoolOp):
            out = frozenset()
            for x in e.values:
                out |= P(x)
            return out
        if isinstance(e, ast.Compare):
            return frozenset([C])
        if isinstance(e, ast.UnaryOp):
            return frozenset([C]) if isinstance(e.op, ast.Not) else P(e.operand)
        if isinstance(e, ast.BinOp):
            return P(e.left) | P(e.right)
        if isinstance(e, ast.Subscript):
            return P(e.value)
        if isinstance(e, ast.Attribute):
            if is_self_attr(e, None, self.selfname):
                return frozenset([C])   # configuration attribute, not contents
            return P(e.value)
        if isinstance(e, ast.Lambda):
            return frozenset([C])
        if isinstance(e, ast.JoinedStr):
            return frozenset([C])
        if isinstance(e, ast.Call):
            f = e.func
            if isinstance(f, ast.Attribute) \
                    and is_self_attr(f, None, self.selfname):
                if f.attr in VALIDATORS:
                    return frozenset([V])
                if f.attr in SELF_READS or self.kind_has(f.attr):
                    return self.own(phase)
                out = self.own(phase)
                for a in e.args:
                    out |= P(a)
                return out
            if self.builtin_mutation(e) or is_super_call(e):
                return frozenset([MRES])
            if isinstance(f, ast.Name):
                if f.id in SCALAR_FUNCS:
                    return frozenset([C])
                out = frozenset()
                for a in e.args:
                    out |= P(a)
                for k in e.keywords:
                    out |= P(k.value)
                return out or frozenset([C])
            if isinstance(f, ast.Attribute):
                recv = P(f.value)
                if f.attr in ("difference", "intersection", "copy", "items",
                              "values", "keys", "__getitem__", "get"):
                    return recv
                out = recv
                for a in e.args:
                    out |= P(a)
                for k in e.keywords:
                    out |= P(k.value)
                return out
        # anything else: union over children (conservative)
        out = frozenset()
        for ch in ast.iter_child_nodes(e):
            if isinstance(ch, ast.expr):
                out |= P(ch)
        return out or frozenset([C])

    def kind_has(self, name):
        return name in NON_MUTATORS[self.kind] and not name.startswith("__")

    # -- transfer ------------------------------------------------------------

    def step(self, state, ev, e, node):
        phase, _ = state
        env = self.env_of(state)
        if ev == "V":
            self.validations += 1
            if phase != PRE:
                self.flag(("validate-first", norm(e)),
                          f"validator call `{norm(e)}` after the underlying "
                          f"mutation: a rejection would leave the container "
                          f"already changed")
            return state
        if ev == "A":
            if isinstance(e, ast.Assign):
                lab = self.prov(e.value, env, phase)
                for t in e.targets:
                    self.assign(t, lab, env, phase)
            else:
                lab = self.prov(e.value, env, phase) \
                    | self.prov(e.target, env, phase)
                self.assign(e.target, lab, env, phase, weak=True)
            return self.mk(phase, env)
        if ev == "LA":
            name = e.func.value.id
            lab = env.get(name, frozenset([C]))
            for a in e.args:
                lab |= self.prov(a, env, phase)
            env[name] = lab - {C} or frozenset([C])
            return self.mk(phase, env)
        if ev == "M":
            m, args, kws = self.builtin_mutation(e)
            self.mutations.append((m, getattr(e, "lineno", 0)))
            spec = ELEMENT_ARGS[self.kind].get(m)
            if spec is not None:
                if spec == "*":
                    carried = list(args) + [k.value for k in kws]
                else:
                    carried = [args[i] for i in spec if i < len(args)]
                for a in carried:
                    self.checked_args += 1
                    lab = self.prov(a, env, phase)
                    bad = lab & {R, NS}
                    if bad == {NS} and self.kind == "set" \
                            and m in SET_INPLACE_OPS:
                        bad = set()
                    if bad:
                        self.flag(("validated-flow", m, norm(a)),
                                  f"argument `{norm(a)}` of the underlying "
                                  f"{self.kind}.{m} derives from unvalidated "
                                  f"input (labels {sorted(lab)})")
            if phase == DONE:
                self.flag(("notify-order", m),
                          f"underlying {self.kind}.{m} after notify")
            return self.mk(POST if phase == PRE else phase, env)
        if ev == "N":
            if node.id not in self.notifies:
                self.notifies.append(node.id)
            if phase == PRE:
                self.flag(("notify-before-mutation", norm(e)),
                          "notify() reached on a path with no underlying "
                          "mutation before it")
            elif phase == DONE:
                self.flag(("notify-twice", norm(e)),
                          "second notify() on one path")
            self.check_notify_args(e, env, phase)
            return self.mk(DONE, env)
        return state

    def assign(self, t, lab, env, phase, weak=False):
        if isinstance(t, ast.Name):
            env[t.id] = lab
        elif isinstance(t, (ast.Tuple, ast.List)):
            for x in t.elts:
                self.assign(x, lab, env, phase, weak)
        elif isinstance(t, ast.Starred):
            self.assign(t.value, lab, env, phase, weak)
        elif isinstance(t, ast.Subscript) and isinstance(t.value, ast.Name) \
                and t.value.id != self.selfname:
            name = t.value.id
            cur = env.get(name, frozenset([C]))
            new = cur | lab | self.prov(t.slice, env, phase)
            env[name] = new - {C} or frozenset([C])
        # attribute stores and stores into self[...] carry no local provenance

    def notify_args(self, call):
        sig = NOTIFY_SIG[self.kind]
        out = {}
        for i, a in enumerate(call.args):
            if i < len(sig):
                out[sig[i]] = a
        for k in call.keywords:
            if k.arg:
                out[k.arg] = k.value
        return out

    def check_notify_args(self, call, env, phase):
        args = self.notify_args(call)
        for role, a in args.items():
            lab = self.prov(a, env, phase)
            if role == "added":
                bad = lab & {R, NS, OPRE}
                if bad:
                    self.flag(("delta-args", "added", norm(a)),
                              f"`added` argument `{norm(a)}` of notify() "
                              f"derives from {sorted(bad)} (must be validator "
                              f"output or a post-mutation read)")
            elif role == "removed":
                if OPOST in lab:
                    self.flag(("delta-args", "removed", norm(a)),
                              f"`removed` argument `{norm(a)}` of notify() is "
                              f"read from the container after the mutation")
            elif role == "changed":
                bad = lab & {R, NS, OPOST}
                if bad:
                    self.flag(("delta-args", "changed", norm(a)),
                              f"`changed` argument `{norm(a)}` of notify() "
                              f"derives from {sorted(bad)} (must be validated "
                              f"keys with values read before the mutation)")

    def node_exprs(self, node):
        out = super().node_exprs(node)
        return out

    def transfer(self, node, state):
        if node.kind == "fornext":
            # bind the loop target to the provenance of the iterable
            phase, _ = state
            env = self.env_of(state)
            lab = self.prov(node.ast.iter, env, phase)
            for n in names_in(node.ast.target):
                env[n] = lab
            st = self.mk(phase, env)
            return [("T", st), ("F", state)]
        return super().transfer(node, state)

    def assume(self, test, truth, state):
        # isinstance(<param>, (set, frozenset)) is False: operand is not a set
        if not truth and isinstance(test, ast.Call) \
                and isinstance(test.func, ast.Name) \
                and test.func.id == "isinstance" and len(test.args) == 2 \
                and isinstance(test.args[0], ast.Name):
            types = test.args[1]
            names = {n.id for n in ast.walk(types) if isinstance(n, ast.Name)}
            if {"set", "frozenset"} <= names:
                env = self.env_of(state)
                v = test.args[0].id
                if env.get(v) == frozenset([R]):
                    env[v] = frozenset([NS])
                    return self.mk(state[0], env)
        return state


def analyse_mutators(ctx):
    """Run MutatorFlow on every mutator of the three Trait* base classes.
    Cached per context."""
    def compute():
        repo, classes = container_classes(ctx)
        out = []
        for kind, (mod, base, obj) in classes.items():
            for m in MUTATORS[kind] + ["__init__"]:
                if m not in base.methods:
                    continue
                fl = MutatorFlow(repo, mod, base, base.methods[m], kind)
                fl.run(fl.init_state())
                out.append((kind, m, fl))
        return out
    return ctx.memo("container-flows", compute)


def _emit(res, fl, kinds, prefix):
    """Turn the flags of one flow whose key starts with one of ``kinds`` into
    findings; everything else counts as a discharged obligation."""
    hits = [f for f in fl.findings() if f[0][0] in kinds]
    for key, msg, loc, path in hits:
        res.violation(f"{fl.qualname}:{':'.join(map(str, key))}", loc, msg, path)
    return hits


@rule("C04.validated-flow", ["C04"],
      "only validator output (or own contents) reaches an underlying mutation")
def c04_validated_flow(ctx, res):
    n_args = 0
    for kind, m, fl in analyse_mutators(ctx):
        adds = [x for x in fl.mutations if x[0] in ELEMENT_ARGS[kind]]
        if not adds:
            continue
        n_args += fl.checked_args
        res.instance(fl.qualname, fl.module.loc(fl.func),
                     mutations=sorted({x[0] for x in adds}),
                     element_args=fl.checked_args)
        hits = _emit(res, fl, {"validated-flow"}, "")
        res.obligations += max(fl.checked_args - len(hits), 0)
        res.discharged += max(fl.checked_args - len(hits), 0)
    res.floor(17)


@rule("C04.validate-first", ["C04", "C19"],
      "all validation precedes the underlying mutation on every path")
def c04_validate_first(ctx, res):
    for kind, m, fl in analyse_mutators(ctx):
        if not fl.mutations:
            res.instance(fl.qualname, fl.module.loc(fl.func), nontrivial=False,
                         note="no direct built-in mutation")
            continue
        res.instance(fl.qualname, fl.module.loc(fl.func),
                     validations=fl.validations,
                     mutations=[x[0] for x in fl.mutations])
        hits = _emit(res, fl, {"validate-first"}, "")
        if not hits:
            res.oblige(True, fl.qualname, "", "")
    res.floor(36)


def _guard_ok(fl, test, notify_nodes):
    """silence guard: names tested == names passed as delta arguments of the
    notify calls it guards, or a boolean computed from the container's
    pre-state."""
    func = fl.func
    delta = set()
    for nid in notify_nodes:
        for n in ast.walk(fl.cfg.nodes[nid].ast):
            if isinstance(n, ast.Call) and is_self_call(n, "notify", fl.selfname):
                for role, a in fl.notify_args(n).items():
                    if role == "index":
                        continue
                    delta |= names_in(a)
    delta.discard(fl.selfname)
    delta -= set(dir(builtins))
    names = names_in(test) - set(dir(builtins))
    # expand derived locals through their (unique) definitions
    defs = {}
    for n in ast.walk(func):
        if isinstance(n, ast.Assign) and len(n.targets) == 1 \
                and isinstance(n.targets[0], ast.Name):
            defs.setdefault(n.targets[0].id, []).append(n.value)
    for _ in range(3):
        new = set()
        for x in names:
            if x not in delta and x in defs and len(defs[x]) == 1:
                new |= names_in(defs[x][0]) - set(dir(builtins))
            else:
                new.add(x)
        names = new
    if fl.selfname in names:
        return True, names, delta
    if names & set(fl.params):
        # a raw parameter says nothing about whether the delta is empty
        return False, names, delta
    return names == delta and bool(delta), names, delta


def delta_rule(kind):
    prop = PROP_OF[kind]

    @rule(f"{prop}.delta", [prop, "C19"],
          f"Trait{kind.capitalize()}: one notify per successful mutation, "
          f"after it, with pre-state `removed` and validated `added`")
    def _r(ctx, res, kind=kind):
        count = 0
        for k, m, fl in analyse_mutators(ctx):
            if k != kind or m == "__init__":
                continue
            count += 1
            res.instance(fl.qualname, fl.module.loc(fl.func),
                         notify_sites=len(fl.notifies),
                         mutations=[x[0] for x in fl.mutations])
            g = fl.cfg
            if not fl.mutations:
                res.violation(f"{fl.qualname}:no-mutation", fl.module.loc(fl.func),
                              "mutator override performs no underlying mutation")
                continue
            if not fl.notifies:
                res.violation(f"{fl.qualname}:no-notify", fl.module.loc(fl.func),
                              "mutator override never calls notify()")
                continue
            hits = _emit(res, fl, {"notify-before-mutation", "notify-twice",
                                   "notify-order", "delta-args"}, "")
            res.oblige(not [h for h in hits if h[0][0] != "delta-args"],
                       fl.qualname + ":order", "", "") if not hits else None
            # paths that mutate and return without notifying: allowed only
            # through a silence guard over the delta operands
            post_exit = [st for st in fl.states[g.exit.id] if st[0] == POST]
            if post_exit:
                seen_tests = set()
                for nid in sorted(g.reachable()):
                    n = g.nodes[nid]
                    if n.kind != "cond":
                        continue
                    if not any(st[0] == POST for st in fl.states[nid]):
                        continue
                    if not _decides_notify(fl, nid):
                        continue
                    test = n.info if n.info is not None else n.ast
                    if id(test) in seen_tests:
                        continue
                    seen_tests.add(id(test))
                    guarded = sorted(g.reachable(nid) & set(fl.notifies))
                    ok, names, delta = _guard_ok(fl, test, guarded)
                    res.oblige(ok, f"{fl.qualname}:silence-guard:{norm(test)}",
                               f"{fl.module.rel}:{n.line}",
                               f"notify() is skipped under `{norm(test)}` "
                               f"which tests {sorted(names)} but the delta "
                               f"passed to notify() is {sorted(delta)}")
            else:
                res.oblige(True, fl.qualname + ":always-notifies", "", "")
        res.floor(len(MUTATORS[kind]))
    return _r


def _decides_notify(fl, nid):
    """cond node from which notify is reachable and one branch can reach the
    exit avoiding every notify node."""
    g = fl.cfg
    nset = set(fl.notifies)

    def reach_avoiding(start):
        seen, stack = {start}, [start]
        while stack:
            x = stack.pop()
            if x in nset:
                continue
            for lab, y in g.succ[x]:
                if lab == "exc":
                    continue
                if y not in seen:
                    seen.add(y)
                    stack.append(y)
        return seen
    all_reach = g.reachable(nid)
    if not (all_reach & nset):
        return False
    for lab, tgt in g.succ[nid]:
        if lab == "exc":
            continue
        if tgt in nset:
            continue
        if g.exit.id in reach_avoiding(tgt):
            # the other branch must lead towards notify
            return True
    return False


for _k in ("list", "dict", "set"):
    delta_rule(_k)
