"""Container rules: C04 (validity), C05/C06/C07 (deltas), part of C19.

All rules run over TraitList / TraitDict / TraitSet and their *Object
subclasses in trait_{list,dict,set}_object.py.
"""
from __future__ import annotations

import ast
import builtins

from ..core import AnalysisError, rule
from ..pyfacts import (get_pyrepo, is_self_attr, is_self_call, is_super_call,
                       names_in, norm)
from ..pyflow import PyFlow

FILES = {
    "list": ("traits/trait_list_object.py", "TraitList", "TraitListObject"),
    "dict": ("traits/trait_dict_object.py", "TraitDict", "TraitDictObject"),
    "set": ("traits/trait_set_object.py", "TraitSet", "TraitSetObject"),
}
PROP_OF = {"list": "C05", "dict": "C06", "set": "C07"}

# In-place mutators of the built-in types (Python data model; frozen table).
MUTATORS = {
    "list": ["__delitem__", "__iadd__", "__imul__", "__setitem__", "append",
             "clear", "extend", "insert", "pop", "remove", "reverse", "sort"],
    "dict": ["__delitem__", "__ior__", "__setitem__", "clear", "pop",
             "popitem", "setdefault", "update"],
    "set": ["__iand__", "__ior__", "__isub__", "__ixor__", "add", "clear",
            "difference_update", "discard", "intersection_update", "pop",
            "remove", "symmetric_difference_update", "update"],
}
# Everything else the interpreter's built-in type offers, confirmed not to
# mutate the receiver in place.  A name in neither table fails closed.
NON_MUTATORS = {
    "list": {"__add__", "__class__", "__class_getitem__", "__contains__",
             "__delattr__", "__dir__", "__doc__", "__eq__", "__format__",
             "__ge__", "__getattribute__", "__getitem__", "__getstate__",
             "__gt__", "__hash__", "__init__", "__init_subclass__",
             "__iter__", "__le__", "__len__", "__lt__", "__mul__", "__ne__",
             "__new__", "__reduce__", "__reduce_ex__", "__repr__",
             "__reversed__", "__rmul__", "__setattr__", "__sizeof__",
             "__str__", "__subclasshook__", "copy", "count", "index"},
    "dict": {"__class__", "__class_getitem__", "__contains__", "__delattr__",
             "__dir__", "__doc__", "__eq__", "__format__", "__ge__",
             "__getattribute__", "__getitem__", "__getstate__", "__gt__",
             "__hash__", "__init__", "__init_subclass__", "__iter__",
             "__le__", "__len__", "__lt__", "__ne__", "__new__", "__or__",
             "__reduce__", "__reduce_ex__", "__repr__", "__reversed__",
             "__ror__", "__setattr__", "__sizeof__", "__str__",
             "__subclasshook__", "copy", "fromkeys", "get", "items", "keys",
             "values"},
    "set": {"__and__", "__class__", "__class_getitem__", "__contains__",
            "__delattr__", "__dir__", "__doc__", "__eq__", "__format__",
            "__ge__", "__getattribute__", "__getstate__", "__gt__",
            "__hash__", "__init__", "__init_subclass__", "__iter__",
            "__le__", "__len__", "__lt__", "__ne__", "__new__", "__or__",
            "__rand__", "__reduce__", "__reduce_ex__", "__repr__", "__ror__",
            "__rsub__", "__rxor__", "__setattr__", "__sizeof__", "__str__",
            "__sub__", "__subclasshook__", "__xor__", "copy", "difference",
            "intersection", "isdisjoint", "issubset", "issuperset",
            "symmetric_difference", "union"},
}
# Which positional arguments of a built-in mutator carry new elements
# ("*" = all positional and keyword arguments).  Mutators absent from this
# table can only remove or reorder existing members.
ELEMENT_ARGS = {
    "list": {"__init__": [0], "__iadd__": [0], "__setitem__": [1],
             "append": [0], "extend": [0], "insert": [1]},
    "dict": {"__init__": "*", "__setitem__": [0, 1], "__ior__": [0],
             "update": "*", "setdefault": [0, 1]},
    # set intersection is *not* removal-only: CPython builds the result from
    # whichever operand it iterates, so an equal element of the argument (the
    # float 1.0 for the integer 1) can replace the set's own element (D42)
    "set": {"__init__": [0], "__ior__": [0], "__ixor__": [0], "add": [0],
            "update": "*", "symmetric_difference_update": [0],
            "intersection_update": "*", "__iand__": [0]},
}
# Built-in in-place operators return NotImplemented for an operand that is
# not a set/frozenset, so passing such an operand through cannot add members.
SET_INPLACE_OPS = {"__ior__", "__ixor__", "__iand__", "__isub__"}

VALIDATORS = {"item_validator", "key_validator", "value_validator"}
NOTIFY_SIG = {"list": ["index", "removed", "added"],
              "dict": ["removed", "added", "changed"],
              "set": ["removed", "added"]}

# provenance labels
V, R, OPRE, OPOST, MRES, C, NS = "V", "R", "OPRE", "OPOST", "MRES", "C", "NS"
# membership-relevant validator output (set items, dict keys): membership in
# the pre-state unknown / known absent / known present; ODIFF = post-state
# minus a pre-state snapshot
VMQ, VMN, VMP, ODIFF, RDIFF = "VM?", "VM-", "VM+", "ODIFF", "RDIFF"
MEMBER_VALIDATOR = {"set": "item_validator", "dict": "key_validator"}
# phases
PRE, POST, DONE = "pre", "post", "notified"

SELF_READS = {"copy", "items", "values", "keys", "intersection", "difference",
              "union", "symmetric_difference", "get", "index", "count",
              "__getitem__"}
PASS_THROUGH_FUNCS = {"set", "list", "dict", "tuple", "frozenset", "sorted",
                      "reversed", "iter", "next", "enumerate", "zip"}
SCALAR_FUNCS = {"len", "isinstance", "hasattr", "bool", "callable", "id",
                "hash", "range", "type"}
LOCAL_ADDERS = {"append", "add", "extend", "update", "insert", "setdefault"}


def check_dir_tables(kind):
    bt = getattr(builtins, kind)
    names = set(dir(bt))
    unknown = names - set(MUTATORS[kind]) - NON_MUTATORS[kind]
    if unknown:
        raise AnalysisError(
            f"built-in {kind} has attributes not classified as mutator or "
            f"non-mutator: {sorted(unknown)}")
    missing = set(MUTATORS[kind]) - names
    if missing:
        raise AnalysisError(f"mutator table names not on {kind}: {missing}")


def container_classes(ctx):
    repo = get_pyrepo(ctx)
    out = {}
    for kind, (rel, base, obj) in FILES.items():
        out[kind] = (repo.module(rel), repo.cls(rel, base), repo.cls(rel, obj))
    return repo, out


# ---------------------------------------------------------------------------
# C04.exhaustive

@rule("C04.exhaustive", ["C04"],
      "every in-place mutator of list/dict/set is overridden in Trait*")
def c04_exhaustive(ctx, res):
    repo, classes = container_classes(ctx)
    for kind, (mod, base, obj) in classes.items():
        check_dir_tables(kind)
        if repo.builtin_base(base) != kind:
            raise AnalysisError(f"{base.name} no longer derives from {kind}")
        for m in MUTATORS[kind] + ["__init__"]:
            key = f"{base.name}.{m}"
            defined = m in base.methods
            res.instance(key, mod.loc(base.methods[m]) if defined
                         else mod.loc(base.node))
            res.oblige(defined, key, mod.loc(base.node),
                       f"built-in mutator {kind}.{m} is not overridden in "
                       f"{base.name}: it would bypass validation and "
                       f"notification")
    res.floor(36)


# ---------------------------------------------------------------------------
# the shared flow analysis

class MutatorFlow(PyFlow):
    """State = (phase, env, flags) with env a frozenset of (var, labels)."""

    def __init__(self, repo, module, cls, func, kind):
        super().__init__(module, func, f"{cls.name}.{func.name}")
        self.repo = repo
        self.cls = cls
        self.kind = kind
        a = func.args
        self.params = [x.arg for x in a.posonlyargs + a.args + a.kwonlyargs]
        if a.vararg:
            self.params.append(a.vararg.arg)
        if a.kwarg:
            self.params.append(a.kwarg.arg)
        self.selfname = self.params[0] if self.params else "self"
        self.mutations = []     # (mutator name, node line)
        self.mutation_calls = []
        self.mutation_mem = {}  # id(call) -> membership decisions per path
        self.notifies = []      # cfg node ids containing a notify call
        self.validations = 0
        self.checked_args = 0

    # -- state helpers -----------------------------------------------------

    def init_state(self):
        env = {p: frozenset([R]) for p in self.params[1:]}
        return (PRE, frozenset(env.items()))

    @staticmethod
    def env_of(state):
        return dict(state[1])

    @staticmethod
    def mk(phase, env):
        return (phase, frozenset(env.items()))

    # -- event classification ---------------------------------------------

    def builtin_mutation(self, call):
        """Name of the built-in mutator invoked on self by this call, or
        None.  Recognises super().m(...) when the next definer is the
        built-in base, and list.m(self, ...)."""
        m = is_super_call(call)
        if m is not None:
            r = self.repo.resolve_method(self.cls, m, after=self.cls)
            if r and r[0] == "builtin" and (m in MUTATORS[self.kind]
                                            or m == "__init__"):
                return m, call.args, call.keywords
            return None
        if isinstance(call, ast.Call) and isinstance(call.func, ast.Attribute) \
                and isinstance(call.func.value, ast.Name) \
                and call.func.value.id == self.kind and call.args \
                and isinstance(call.args[0], ast.Name) \
                and call.args[0].id == self.selfname:
            m = call.func.attr
            if m in MUTATORS[self.kind] or m == "__init__":
                return m, call.args[1:], call.keywords
        return None

    def classify(self, e, node):
        if isinstance(e, ast.Call):
            if isinstance(e.func, ast.Attribute) \
                    and is_self_attr(e.func, None, self.selfname) \
                    and e.func.attr in VALIDATORS:
                return [("V", True)]
            bm = self.builtin_mutation(e)
            if bm:
                return [("M", True)]
            if is_self_call(e, "notify", self.selfname):
                return [("N", False)]
        if isinstance(e, (ast.Assign, ast.AugAssign)):
            return [("A", False)]
        if isinstance(e, ast.Call) and isinstance(e.func, ast.Attribute) \
                and isinstance(e.func.value, ast.Name) \
                and e.func.attr in LOCAL_ADDERS \
                and e.func.value.id != self.selfname:
            return [("LA", False)]
        return []

    # -- provenance --------------------------------------------------------

    def own(self, phase):
        return frozenset([OPRE if phase == PRE else OPOST])

    def prov(self, e, env, phase):
        P = lambda x: self.prov(x, env, phase)  # noqa: E731
        if e is None:
            return frozenset([C])
        if isinstance(e, ast.Name):
            if e.id == self.selfname:
                return self.own(phase)
            return env.get(e.id, frozenset([C]))
        if isinstance(e, ast.Constant):
            return frozenset([C])
        if isinstance(e, (ast.List, ast.Tuple, ast.Set)):
            out = frozenset()
            for x in e.elts:
                out |= P(x.value if isinstance(x, ast.Starred) else x)
            return out or frozenset([C])
        if isinstance(e, ast.Dict):
            out = frozenset()
            for k, v in zip(e.keys, e.values):
                out |= P(k) | P(v)
            return out or frozenset([C])
        if isinstance(e, (ast.ListComp, ast.SetComp, ast.GeneratorExp,
                          ast.DictComp)):
            env2 = dict(env)
            for g in e.generators:
                lab = self.prov(g.iter, env2, phase)
                for n in names_in(g.target):
                    env2[n] = lab
            if isinstance(e, ast.DictComp):
                return (self.prov(e.key, env2, phase)
                        | self.prov(e.value, env2, phase))
            return self.prov(e.elt, env2, phase)
        if isinstance(e, ast.Starred):
            return P(e.value)
        if isinstance(e, ast.IfExp):
            return P(e.body) | P(e.orelse)
        if isinstance(e, ast.BoolOp):
            out = frozenset()
            for x in e.values:
                out |= P(x)
            return out
        if isinstance(e, ast.Compare):
            mt = self.membership_test(e, phase)
            if mt:
                return frozenset([("IN:" if mt[1] else "NIN:") + mt[0]])
            return frozenset([C])
        if isinstance(e, ast.UnaryOp):
            return frozenset([C]) if isinstance(e.op, ast.Not) else P(e.operand)
        if isinstance(e, ast.BinOp):
            if isinstance(e.op, ast.Sub) and OPRE in P(e.right) \
                    and VMQ in P(e.left):
                return (P(e.left) - {VMQ}) | {VMN}
            return P(e.left) | P(e.right)
        if isinstance(e, ast.Subscript):
            return P(e.value)
        if isinstance(e, ast.Attribute):
            if is_self_attr(e, None, self.selfname):
                return frozenset([C])   # configuration attribute, not contents
            return P(e.value)
        if isinstance(e, ast.Lambda):
            return frozenset([C])
        if isinstance(e, ast.JoinedStr):
            return frozenset([C])
        if isinstance(e, ast.Call):
            f = e.func
            if isinstance(f, ast.Attribute) \
                    and is_self_attr(f, None, self.selfname):
                if f.attr in VALIDATORS:
                    if MEMBER_VALIDATOR.get(self.kind) == f.attr:
                        return frozenset([VMQ])
                    return frozenset([V])
                if f.attr == "difference" and phase != PRE and any(
                        OPRE in P(a) for a in e.args):
                    return frozenset([ODIFF])
                if f.attr in SELF_READS or self.kind_has(f.attr):
                    return self.own(phase)
                out = self.own(phase)
                for a in e.args:
                    out |= P(a)
                return out
            if self.builtin_mutation(e) or is_super_call(e):
                return frozenset([MRES])
            if isinstance(f, ast.Name):
                if f.id in SCALAR_FUNCS:
                    return frozenset([C])
                out = frozenset()
                for a in e.args:
                    out |= P(a)
                for k in e.keywords:
                    out |= P(k.value)
                return out or frozenset([C])
            if isinstance(f, ast.Attribute):
                recv = P(f.value)
                if f.attr == "difference" and phase != PRE and OPRE in recv \
                        and any(OPOST in P(a) for a in e.args):
                    return frozenset([RDIFF])   # snapshot minus post-state
                if f.attr in ("difference", "intersection") and any(
                        OPRE in P(a) for a in e.args) and VMQ in recv:
                    return (recv - {VMQ}) | {
                        VMN if f.attr == "difference" else VMP}
                if f.attr in ("difference", "intersection", "copy", "items",
                              "values", "keys", "__getitem__", "get"):
                    return recv
                out = recv
                for a in e.args:
                    out |= P(a)
                for k in e.keywords:
                    out |= P(k.value)
                return out
        # anything else: union over children (conservative)
        out = frozenset()
        for ch in ast.iter_child_nodes(e):
            if isinstance(ch, ast.expr):
                out |= P(ch)
        return out or frozenset([C])

    def membership_test(self, e, phase):
        """(name, positive) when ``e`` is `<name> in self` / `not in self`
        evaluated against the pre-state"""
        if phase == PRE and isinstance(e, ast.Compare) and len(e.ops) == 1 \
                and isinstance(e.ops[0], (ast.In, ast.NotIn)) \
                and isinstance(e.left, ast.Name) \
                and isinstance(e.comparators[0], ast.Name) \
                and e.comparators[0].id == self.selfname:
            return e.left.id, isinstance(e.ops[0], ast.In)
        return None

    def refine_membership(self, test, truth, state):
        """relabel a validated value once a pre-state membership test on it
        has been decided"""
        while isinstance(test, ast.UnaryOp) and isinstance(test.op, ast.Not):
            test, truth = test.operand, not truth
        env = self.env_of(state)
        name = present = None
        mt = self.membership_test(test, state[0])
        if mt:
            name, present = mt[0], (mt[1] == truth)
        elif isinstance(test, ast.Name):
            for lab in env.get(test.id, ()):
                if isinstance(lab, str) and lab.startswith(("IN:", "NIN:")):
                    name = lab.split(":", 1)[1]
                    present = lab.startswith("IN:") == truth
        if name is not None and env.get(name) == frozenset([R]):
            # raw parameter: remember the decision for preconditions of
            # emulated operations (setdefault)
            env["#mem:" + name] = frozenset(["present" if present
                                             else "absent"])
            return self.mk(state[0], env)
        if name is None or VMQ not in env.get(name, ()):
            return state
        env[name] = (env[name] - {VMQ}) | {VMP if present else VMN}
        return self.mk(state[0], env)

    def kind_has(self, name):
        return name in NON_MUTATORS[self.kind] and not name.startswith("__")

    # -- transfer ------------------------------------------------------------

    def step(self, state, ev, e, node):
        phase, _ = state
        env = self.env_of(state)
        if ev == "V":
            self.validations += 1
            if phase != PRE:
                self.flag(("validate-first", norm(e)),
                          f"validator call `{norm(e)}` after the underlying "
                          f"mutation: a rejection would leave the container "
                          f"already changed")
            return state
        if ev == "A":
            if isinstance(e, ast.Assign):
                lab = self.prov(e.value, env, phase)
                for t in e.targets:
                    if isinstance(t, (ast.Tuple, ast.List)) and isinstance(
                            e.value, (ast.Tuple, ast.List)) and len(
                            t.elts) == len(e.value.elts) and not any(
                            isinstance(x, ast.Starred)
                            for x in t.elts + e.value.elts):
                        # a, b = x, y: element-wise
                        labs = [self.prov(v, env, phase)
                                for v in e.value.elts]
                        for tt, ll in zip(t.elts, labs):
                            self.assign(tt, ll, env, phase)
                        continue
                    self.assign(t, lab, env, phase)
            else:
                lab = self.prov(e.value, env, phase) \
                    | self.prov(e.target, env, phase)
                self.assign(e.target, lab, env, phase, weak=True)
            return self.mk(phase, env)
        if ev == "LA":
            name = e.func.value.id
            lab = env.get(name, frozenset([C]))
            for a in e.args:
                lab |= self.prov(a, env, phase)
            env[name] = lab - {C} or frozenset([C])
            return self.mk(phase, env)
        if ev == "M":
            m, args, kws = self.builtin_mutation(e)
            self.mutations.append((m, getattr(e, "lineno", 0)))
            self.mutation_calls.append((m, list(args), list(kws), e, phase))
            env["#op"] = frozenset([m])     # the built-in operation performed
            self.mutation_mem.setdefault(id(e), []).append(frozenset(
                (k[5:], next(iter(v))) for k, v in env.items()
                if k.startswith("#mem:")))
            if phase != PRE:
                self.flag(("second-mutation", m),
                          f"a second underlying mutation `{norm(e)[:60]}` on "
                          f"one path: a single operation must map to a "
                          f"single built-in operation")
            if m != "__init__":
                for a in list(args) + [k.value for k in kws]:
                    lazy = [g for g in ast.walk(a) if isinstance(
                        g, ast.GeneratorExp) or (
                        isinstance(g, ast.Call) and isinstance(g.func, ast.Name)
                        and g.func.id in ("map", "filter"))]
                    for g in lazy:
                        if any(isinstance(n, ast.Attribute)
                               and is_self_attr(n, None, self.selfname)
                               and n.attr in VALIDATORS for n in ast.walk(g)):
                            self.flag(("validate-first", "lazy:" + m),
                                      f"`{norm(g)[:70]}` is evaluated lazily "
                                      f"*inside* the underlying "
                                      f"{self.kind}.{m}: validation is "
                                      f"interleaved with the mutation, so a "
                                      f"rejected item leaves the earlier "
                                      f"ones already stored (and nobody is "
                                      f"notified)")
            spec = ELEMENT_ARGS[self.kind].get(m)
            if spec is not None:
                if spec == "*":
                    carried = list(args) + [k.value for k in kws]
                else:
                    carried = [args[i] for i in spec if i < len(args)]
                for a in carried:
                    self.checked_args += 1
                    lab = self.prov(a, env, phase)
                    bad = lab & {R, NS}
                    if bad == {NS} and self.kind == "set" \
                            and m in SET_INPLACE_OPS:
                        bad = set()
                    if bad:
                        self.flag(("validated-flow", m, norm(a)),
                                  f"argument `{norm(a)}` of the underlying "
                                  f"{self.kind}.{m} derives from unvalidated "
                                  f"input (labels {sorted(lab)})")
            if phase == DONE:
                self.flag(("notify-order", m),
                          f"underlying {self.kind}.{m} after notify")
            return self.mk(POST if phase == PRE else phase, env)
        if ev == "N":
            if node.id not in self.notifies:
                self.notifies.append(node.id)
            if phase == PRE:
                self.flag(("notify-before-mutation", norm(e)),
                          "notify() reached on a path with no underlying "
                          "mutation before it")
            elif phase == DONE:
                self.flag(("notify-twice", norm(e)),
                          "second notify() on one path")
            self.check_notify_args(e, env, phase)
            return self.mk(DONE, env)
        return state

    def assign(self, t, lab, env, phase, weak=False):
        if isinstance(t, ast.Name):
            env[t.id] = lab
        elif isinstance(t, (ast.Tuple, ast.List)):
            for x in t.elts:
                self.assign(x, lab, env, phase, weak)
        elif isinstance(t, ast.Starred):
            self.assign(t.value, lab, env, phase, weak)
        elif isinstance(t, ast.Subscript) and isinstance(t.value, ast.Name) \
                and t.value.id != self.selfname:
            name = t.value.id
            cur = env.get(name, frozenset([C]))
            new = cur | lab | self.prov(t.slice, env, phase)
            env[name] = new - {C} or frozenset([C])
        # attribute stores and stores into self[...] carry no local provenance

    def notify_args(self, call):
        sig = NOTIFY_SIG[self.kind]
        out = {}
        for i, a in enumerate(call.args):
            if i < len(sig):
                out[sig[i]] = a
        for k in call.keywords:
            if k.arg:
                out[k.arg] = k.value
        return out

    def check_notify_args(self, call, env, phase):
        args = self.notify_args(call)
        for role, a in args.items():
            lab = self.prov(a, env, phase)
            if isinstance(a, ast.Name) and a.id == self.selfname:
                self.flag(("delta-args", "live-alias", role),
                          f"`{role}` argument of notify() is the live "
                          f"container itself, not a snapshot: the event a "
                          f"listener keeps changes with every later "
                          f"mutation (replaying it no longer yields the "
                          f"state after this operation)")
            if role == "added":
                bad = lab & {R, NS, OPRE}
                if bad:
                    self.flag(("delta-args", "added", norm(a)),
                              f"`added` argument `{norm(a)}` of notify() "
                              f"derives from {sorted(bad)} (must be validator "
                              f"output or a post-mutation read)")
                if self.kind == "set" and self.func.name in SET_INPLACE_OPS \
                        and env.get("#op", frozenset()) & SET_INPLACE_OPS \
                        and lab & {OPRE, VMQ, VMN, VMP, V} \
                        and "#setop" not in env:
                    self.flag(("delta-args", "predicted", norm(a)),
                              f"`added` argument `{norm(a)}` of notify() is "
                              f"predicted from the operand although the "
                              f"built-in set.{self.func.name} refuses "
                              f"operands that are not sets")
                stale = lab & {VMQ, VMP}
                if self.kind == "set":
                    stale |= lab & {OPOST}
                if stale and self.kind in MEMBER_VALIDATOR:
                    what = "items" if self.kind == "set" else "keys"
                    self.flag(("delta-args", "added-membership", norm(a)),
                              f"`added` argument `{norm(a)}` of notify() can "
                              f"contain {what} that were already present "
                              f"before the operation (labels "
                              f"{sorted(map(str, stale))}): validated "
                              f"{what} must be filtered against the "
                              f"pre-state (`.difference(self)` / `not in "
                              f"self`) - a transforming validator can map a "
                              f"new value onto an existing member")
            elif role == "removed":
                if self.kind == "set" and self.func.name in SET_INPLACE_OPS \
                        and env.get("#op", frozenset()) & SET_INPLACE_OPS \
                        and lab & {OPRE, VMQ, VMN, VMP, V} \
                        and "#setop" not in env:
                    self.flag(("delta-args", "predicted", norm(a)),
                              f"`removed` argument `{norm(a)}` of notify() "
                              f"is *predicted* from the pre-state and the "
                              f"operand, but the built-in "
                              f"set.{self.func.name} refuses operands that "
                              f"are not sets (returns NotImplemented, the "
                              f"set stays unchanged): on that path the "
                              f"event announces removals that never "
                              f"happened. Compare a snapshot with the "
                              f"result, or predict only under "
                              f"isinstance(value, (set, frozenset))")
                if OPOST in lab:
                    self.flag(("delta-args", "removed", norm(a)),
                              f"`removed` argument `{norm(a)}` of notify() is "
                              f"read from the container after the mutation")
            elif role == "changed":
                if lab & {VMQ, VMN} and self.kind == "dict":
                    self.flag(("delta-args", "changed-membership", norm(a)),
                              f"`changed` argument `{norm(a)}` of notify() "
                              f"can contain keys that were not present "
                              f"before the operation")
                bad = lab & {R, NS, OPOST}
                if bad:
                    self.flag(("delta-args", "changed", norm(a)),
                              f"`changed` argument `{norm(a)}` of notify() "
                              f"derives from {sorted(bad)} (must be validated "
                              f"keys with values read before the mutation)")

    def node_exprs(self, node):
        out = super().node_exprs(node)
        return out

    def transfer(self, node, state):
        if node.kind == "fornext":
            # bind the loop target to the provenance of the iterable
            phase, _ = state
            env = self.env_of(state)
            lab = self.prov(node.ast.iter, env, phase)
            for n in names_in(node.ast.target):
                env[n] = lab
            st = self.mk(phase, env)
            return [("T", st), ("F", state)]
        return super().transfer(node, state)

    def assume(self, test, truth, state):
        state = self.refine_membership(test, truth, state)
        if truth and isinstance(test, ast.Call) \
                and isinstance(test.func, ast.Name) \
                and test.func.id == "isinstance" and len(test.args) == 2 \
                and isinstance(test.args[0], ast.Name) \
                and {"set", "frozenset"} <= {
                    n.id for n in ast.walk(test.args[1])
                    if isinstance(n, ast.Name)}:
            env = self.env_of(state)
            env["#setop"] = frozenset([C])
            state = self.mk(state[0], env)
        # isinstance(<param>, (set, frozenset)) is False: operand is not a set
        if not truth and isinstance(test, ast.Call) \
                and isinstance(test.func, ast.Name) \
                and test.func.id == "isinstance" and len(test.args) == 2 \
                and isinstance(test.args[0], ast.Name):
            types = test.args[1]
            names = {n.id for n in ast.walk(types) if isinstance(n, ast.Name)}
            if {"set", "frozenset"} <= names:
                env = self.env_of(state)
                v = test.args[0].id
                if env.get(v) == frozenset([R]):
                    env[v] = frozenset([NS])
                    return self.mk(state[0], env)
        return state


def analyse_mutators(ctx):
    """Run MutatorFlow on every mutator of the three Trait* base classes.
    Cached per context."""
    def compute():
        repo, classes = container_classes(ctx)
        out = []
        for kind, (mod, base, obj) in classes.items():
            for m in MUTATORS[kind] + ["__init__"]:
                if m not in base.methods:
                    continue
                from ..pyfacts import inline_helpers
                fn_inl = inline_helpers(mod, base, base.methods[m])
                fl = MutatorFlow(repo, mod, base, fn_inl, kind)
                fl.run(fl.init_state())
                out.append((kind, m, fl))
        return out
    return ctx.memo("container-flows", compute)


def _emit(res, fl, kinds, prefix):
    """Turn the flags of one flow whose key starts with one of ``kinds`` into
    findings; everything else counts as a discharged obligation."""
    hits = [f for f in fl.findings() if f[0][0] in kinds]
    for key, msg, loc, path in hits:
        res.violation(f"{fl.qualname}:{':'.join(map(str, key))}", loc, msg, path)
    return hits


@rule("C04.validated-flow", ["C04"],
      "only validator output (or own contents) reaches an underlying mutation")
def c04_validated_flow(ctx, res):
    n_args = 0
    for kind, m, fl in analyse_mutators(ctx):
        adds = [x for x in fl.mutations if x[0] in ELEMENT_ARGS[kind]]
        if not adds:
            continue
        n_args += fl.checked_args
        res.instance(fl.qualname, fl.module.loc(fl.func),
                     mutations=sorted({x[0] for x in adds}),
                     element_args=fl.checked_args)
        hits = _emit(res, fl, {"validated-flow"}, "")
        res.obligations += max(fl.checked_args - len(hits), 0)
        res.discharged += max(fl.checked_args - len(hits), 0)
    res.floor(17)


@rule("C04.validate-first", ["C04", "C19"],
      "all validation precedes the underlying mutation on every path")
def c04_validate_first(ctx, res):
    for kind, m, fl in analyse_mutators(ctx):
        if not fl.mutations:
            res.instance(fl.qualname, fl.module.loc(fl.func), nontrivial=False,
                         note="no direct built-in mutation")
            continue
        res.instance(fl.qualname, fl.module.loc(fl.func),
                     validations=fl.validations,
                     mutations=[x[0] for x in fl.mutations])
        hits = _emit(res, fl, {"validate-first"}, "")
        if not hits:
            res.oblige(True, fl.qualname, "", "")
    res.floor(36)


def _guard_ok(fl, test, notify_nodes):
    """silence guard: names tested == names passed as delta arguments of the
    notify calls it guards, or a boolean computed from the container's
    pre-state."""
    func = fl.func
    delta = set()
    for nid in notify_nodes:
        for n in ast.walk(fl.cfg.nodes[nid].ast):
            if isinstance(n, ast.Call) and is_self_call(n, "notify", fl.selfname):
                for role, a in fl.notify_args(n).items():
                    if role == "index":
                        continue
                    delta |= names_in(a)
    delta.discard(fl.selfname)
    delta -= set(dir(builtins))
    names = names_in(test) - set(dir(builtins))
    # expand derived locals through their (unique) definitions
    defs = {}
    for n in ast.walk(func):
        if isinstance(n, ast.Assign) and len(n.targets) == 1 \
                and isinstance(n.targets[0], ast.Name):
            defs.setdefault(n.targets[0].id, []).append(n.value)
    for _ in range(3):
        new = set()
        for x in names:
            if x not in delta and x in defs and x not in fl.params:
                # every definition counts (a flag set to a constant on one
                # branch and computed on the other)
                for d in defs[x]:
                    new |= names_in(d) - set(dir(builtins))
            else:
                new.add(x)
        names = new
    if fl.selfname in names:
        return True, names, delta
    if names & set(fl.params):
        # a raw parameter says nothing about whether the delta is empty
        return False, names, delta
    return names == delta and bool(delta), names, delta


def delta_rule(kind):
    prop = PROP_OF[kind]

    @rule(f"{prop}.delta", [prop, "C19", "C08"],
          f"Trait{kind.capitalize()}: one notify per successful mutation, "
          f"after it, with pre-state `removed` and validated `added`")
    def _r(ctx, res, kind=kind):
        count = 0
        for k, m, fl in analyse_mutators(ctx):
            if k != kind or m == "__init__":
                continue
            count += 1
            res.instance(fl.qualname, fl.module.loc(fl.func),
                         notify_sites=len(fl.notifies),
                         mutations=[x[0] for x in fl.mutations])
            g = fl.cfg
            if not fl.mutations:
                res.violation(f"{fl.qualname}:no-mutation", fl.module.loc(fl.func),
                              "mutator override performs no underlying mutation")
                continue
            if not fl.notifies:
                res.violation(f"{fl.qualname}:no-notify", fl.module.loc(fl.func),
                              "mutator override never calls notify()")
                continue
            hits = _emit(res, fl, {"notify-before-mutation", "notify-twice",
                                   "notify-order", "delta-args",
                                   "validate-first"}, "")
            res.oblige(not [h for h in hits if h[0][0] != "delta-args"],
                       fl.qualname + ":order", "", "") if not hits else None
            # paths that mutate and return without notifying: allowed only
            # through a silence guard over the delta operands
            post_exit = [st for st in fl.states[g.exit.id] if st[0] == POST]
            if post_exit:
                seen_tests = set()
                for nid in sorted(g.reachable()):
                    n = g.nodes[nid]
                    if n.kind != "cond":
                        continue
                    if not any(st[0] == POST for st in fl.states[nid]):
                        continue
                    if not _decides_notify(fl, nid):
                        continue
                    test = n.info if n.info is not None else n.ast
                    if id(test) in seen_tests:
                        continue
                    seen_tests.add(id(test))
                    guarded = sorted(g.reachable(nid) & set(fl.notifies))
                    ok, names, delta = _guard_ok(fl, test, guarded)
                    res.oblige(ok, f"{fl.qualname}:silence-guard:{norm(test)}",
                               f"{fl.module.rel}:{n.line}",
                               f"notify() is skipped under `{norm(test)}` "
                               f"which tests {sorted(names)} but the delta "
                               f"passed to notify() is {sorted(delta)}")
            else:
                res.oblige(True, fl.qualname + ":always-notifies", "", "")
        res.floor(len(MUTATORS[kind]))
    return _r


def _decides_notify(fl, nid):
    """cond node from which notify is reachable and one branch can reach the
    exit avoiding every notify node."""
    g = fl.cfg
    nset = set(fl.notifies)

    def reach_avoiding(start):
        seen, stack = {start}, [start]
        while stack:
            x = stack.pop()
            if x in nset:
                continue
            for lab, y in g.succ[x]:
                if lab == "exc":
                    continue
                if y not in seen:
                    seen.add(y)
                    stack.append(y)
        return seen
    all_reach = g.reachable(nid)
    if not (all_reach & nset):
        return False
    for lab, tgt in g.succ[nid]:
        if lab == "exc":
            continue
        if tgt in nset:
            continue
        if g.exit.id in reach_avoiding(tgt):
            # the other branch must lead towards notify
            return True
    return False


for _k in ("list", "dict", "set"):
    delta_rule(_k)


# ---------------------------------------------------------------------------
# helpers: comparison constraints and linear length expressions

_NEG = {"<": ">=", "<=": ">", ">": "<=", ">=": "<", "==": "!=", "!=": "=="}
_OPS = {ast.Lt: "<", ast.LtE: "<=", ast.Gt: ">", ast.GtE: ">=",
        ast.Eq: "==", ast.NotEq: "!=", ast.Is: "is", ast.IsNot: "is not"}


def _canon(a, op, b):
    """(x, '<'|'<=', y) canonical form of an ordering constraint."""
    if op in (">", ">="):
        return (b, "<" if op == ">" else "<=", a)
    return (a, op, b)


def compare_links(test):
    """Links of a Compare as [(lhs_text, op, rhs_text)] or None."""
    if not isinstance(test, ast.Compare):
        return None
    out, left = [], test.left
    for op, right in zip(test.ops, test.comparators):
        o = _OPS.get(type(op))
        if o is None:
            return None
        out.append((norm(left), o, norm(right)))
        left = right
    return out


def constraints_of(test, truth):
    """Ordering constraints implied by ``test`` evaluating to ``truth``:
    list of canonical triples, plus ('NOTALL', frozenset(triples)) for a false
    chain."""
    links = compare_links(test)
    if not links:
        return []
    if truth:
        return [_canon(*l) for l in links if l[1] in ("<", "<=", ">", ">=")]
    if len(links) == 1:
        a, op, b = links[0]
        if op in _NEG and op in ("<", "<=", ">", ">="):
            return [_canon(a, _NEG[op], b)]
        return []
    return [("NOTALL", frozenset(_canon(*l) for l in links))]


class FactFlow(PyFlow):
    """Collects, per path, the set of (atomic test text, truth) facts and the
    ordering constraints they imply.  State = frozenset of facts."""

    def assume(self, test, truth, state):
        facts = set(state)
        facts.add(("T" if truth else "F", norm(test)))
        for c in constraints_of(test, truth):
            facts.add(("C", c))
        return frozenset(facts)


# ---------------------------------------------------------------------------
# C04.length-test: _validate_length rejects exactly outside minlen..maxlen

@rule("C04.length-test", ["C04"],
      "_validate_length raises iff not (minlen <= new_length <= maxlen)")
def c04_length_test(ctx, res):
    repo, classes = container_classes(ctx)
    mod, base, obj = classes["list"]
    if "_validate_length" not in obj.methods:
        raise AnalysisError("TraitListObject._validate_length missing")
    fn = obj.methods["_validate_length"]
    n = fn.args.args[1].arg

    class F(FactFlow):
        pass
    fl = F(mod, fn, "TraitListObject._validate_length")
    fl.run(frozenset())
    g = fl.cfg

    def is_len_attr(t, attr):
        return t.endswith("." + attr)

    def bound(c):
        """classify canonical triple: 'lo' = minlen <= n, 'lo!' = n < minlen,
        'hi' = n <= maxlen, 'hi!' = maxlen < n, or None"""
        a, op, b = c
        if is_len_attr(a, "minlen") and b == n:
            return "lo" if op == "<=" else "lo-strict"
        if a == n and is_len_attr(b, "minlen"):
            return "lo!" if op == "<" else "lo!-weak"
        if a == n and is_len_attr(b, "maxlen"):
            return "hi" if op == "<=" else "hi-strict"
        if is_len_attr(a, "maxlen") and b == n:
            return "hi!" if op == "<" else "hi!-weak"
        return None

    res.instance("TraitListObject._validate_length", mod.loc(fn),
                 exit_states=len(fl.states[g.exit.id]),
                 raise_states=len(fl.states[g.raise_exit.id]))
    # accepting paths: either the trait is None (detached list) or both bounds
    for st in fl.states[g.exit.id]:
        cs = {bound(c[1]) for c in st if c[0] == "C" and c[1][0] != "NOTALL"}
        none_path = any(f[0] == "T" and " is None" in f[1] for f in st)
        ok = none_path or {"lo", "hi"} <= cs
        res.oblige(ok, "TraitListObject._validate_length:accept",
                   mod.loc(fn),
                   f"a path accepts new_length without establishing "
                   f"minlen <= {n} <= maxlen (facts: "
                   f"{sorted(str(x) for x in st)})")
    rej = 0
    for st in fl.states[g.raise_exit.id]:
        cs = set()
        for c in st:
            if c[0] != "C":
                continue
            if c[1][0] == "NOTALL":
                if {bound(x) for x in c[1][1]} == {"lo", "hi"}:
                    cs.add("notall")
            else:
                cs.add(bound(c[1]))
        if not (cs & {"lo!", "hi!", "notall"}):
            # an exception edge out of a call before the test is not the
            # rejection path; only paths that passed a bound test count
            if not any(c[0] == "C" for c in st):
                continue
            res.violation("TraitListObject._validate_length:reject",
                          mod.loc(fn),
                          f"rejection path does not correspond to a violated "
                          f"bound: {sorted(str(x) for x in st)}")
        else:
            rej += 1
            res.oblige(True, "", "", "")
    res.oblige(rej > 0, "TraitListObject._validate_length:has-reject",
               mod.loc(fn), "no path raises for an out-of-bounds length")
    # the raise is a TraitError
    raises = [x for x in ast.walk(fn) if isinstance(x, ast.Raise)]
    res.oblige(bool(raises) and all(
        isinstance(r.exc, ast.Call) and norm(r.exc.func) == "TraitError"
        for r in raises), "TraitListObject._validate_length:TraitError",
        mod.loc(fn), "length rejection is not a TraitError")


# ---------------------------------------------------------------------------
# C04.length-guard

LENGTH_CHANGING = ["__delitem__", "__iadd__", "__imul__", "__setitem__",
                   "append", "clear", "extend", "insert", "pop", "remove"]


class LengthGuardFlow(PyFlow):
    """state = (guarded: bool, facts: frozenset)"""

    def __init__(self, repo, module, cls, func):
        super().__init__(module, func, f"{cls.name}.{func.name}")
        self.repo, self.cls = repo, cls
        self.guards = []     # ast Call nodes
        self.supers = 0
        a = func.args
        self.params = [x.arg for x in a.args]
        self.selfname = self.params[0]

    def classify(self, e, node):
        if is_self_call(e, "_validate_length", self.selfname):
            return [("G", True)]
        m = is_super_call(e)
        if m is not None and (m in MUTATORS["list"] or m == "__init__"):
            return [("S", True)]
        return []

    def step(self, state, ev, e, node):
        guarded, facts = state
        if ev == "G":
            if e not in self.guards:
                self.guards.append(e)
            return (True, facts)
        if ev == "S":
            self.supers += 1
            if not guarded:
                ok = False
                if self.func.name == "__setitem__" and len(self.params) > 1:
                    k = self.params[1]
                    notslice = ("F", f"isinstance({k}, slice)") in facts
                    extended = {("F", f"{k}.step is None"),
                                ("F", f"{k}.step == 1")} <= facts
                    ok = notslice or extended
                if not ok:
                    self.flag(("length-guard", norm(e)),
                              f"`{norm(e)}` reachable without a preceding "
                              f"self._validate_length(...) on this path")
            return state
        return state

    def assume(self, test, truth, state):
        guarded, facts = state
        from ..pyfacts import atomic_facts
        return (guarded, facts | atomic_facts(self.func, test, truth))


@rule("C04.length-guard", ["C04"],
      "every length-changing mutation of TraitListObject is preceded by "
      "_validate_length on every path")
def c04_length_guard(ctx, res):
    repo, classes = container_classes(ctx)
    mod, base, obj = classes["list"]
    for m in LENGTH_CHANGING + ["__init__"]:
        key = f"{obj.name}.{m}"
        if m not in obj.methods:
            res.instance(key, mod.loc(obj.node))
            res.violation(key + ":not-overridden", mod.loc(obj.node),
                          f"length-changing mutator {m} is not overridden in "
                          f"{obj.name}: minlen/maxlen would not be enforced")
            continue
        fn = obj.methods[m]
        fl = LengthGuardFlow(repo, mod, obj, fn)
        fl.run((False, frozenset()))
        res.instance(key, mod.loc(fn), guards=[norm(g) for g in fl.guards])
        if fl.supers == 0:
            res.violation(key + ":no-delegation", mod.loc(fn),
                          "override never delegates to the validated "
                          "TraitList implementation")
            continue
        hits = fl.findings()
        for k, msg, loc, path in hits:
            res.violation(f"{key}:{k[0]}", loc, msg, path)
        if not hits:
            res.oblige(True, key, "", "")
        # the guard must be about the *new length of this list*
        for gcall in fl.guards:
            arg = gcall.args[0] if gcall.args else None
            txt = norm(arg) if arg is not None else ""
            names = names_in(arg) if arg is not None else set()
            # resolve locals one level
            for n2 in ast.walk(fn):
                if isinstance(n2, ast.Assign) and len(n2.targets) == 1 \
                        and isinstance(n2.targets[0], ast.Name) \
                        and n2.targets[0].id in names:
                    txt += " " + norm(n2.value)
            ok = (f"len({fl.selfname})" in txt
                  or (isinstance(arg, ast.Constant) and arg.value == 0)
                  or (m == "__init__" and "len(" in txt))
            res.oblige(ok, f"{key}:guard-arg", mod.loc(gcall),
                       f"_validate_length argument `{norm(arg)}` is not "
                       f"derived from len(self)")
    res.floor(11)


# ---------------------------------------------------------------------------
# C04.length-expr (Tier B): the guard's argument is the data-model length

class Lin:
    """Tiny linear-expression normaliser over opaque atoms."""

    def __init__(self, terms=None, const=0):
        self.terms = dict(terms or {})
        self.const = const

    def key(self):
        return (tuple(sorted((k, v) for k, v in self.terms.items() if v)),
                self.const)

    def add(self, o, sign=1):
        t = dict(self.terms)
        for k, v in o.terms.items():
            t[k] = t.get(k, 0) + sign * v
        return Lin(t, self.const + sign * o.const)

    def scale(self, k):
        return Lin({a: v * k for a, v in self.terms.items()}, self.const * k)

    def is_const(self):
        return not any(self.terms.values())


def lin_of(e, subst):
    """Normalise an int-valued expression.  Returns ('lin', Lin) or
    ('clamp', Lin) for max(<lin>, 0); raises ValueError when unrecognised."""
    if isinstance(e, ast.Constant) and isinstance(e.value, int):
        return ("lin", Lin(const=e.value))
    if isinstance(e, ast.Name):
        if e.id in subst:
            return lin_of(subst[e.id], subst)
        return ("lin", Lin({e.id: 1}))
    # the integer value of an index-like argument is the argument
    if isinstance(e, ast.Call) and len(e.args) == 1 and not e.keywords \
            and norm(e.func) in ("operator.index", "int", "index"):
        return lin_of(e.args[0], subst)
    if isinstance(e, ast.Call) and isinstance(e.func, ast.Name):
        if e.func.id == "len" and len(e.args) == 1:
            a = e.args[0]
            while isinstance(a, ast.Name) and a.id in subst:
                a = subst[a.id]
            # len(list(x)) == number of items of x
            if isinstance(a, ast.Call) and isinstance(a.func, ast.Name) \
                    and a.func.id == "list" and len(a.args) == 1:
                a = a.args[0]
            return ("lin", Lin({f"len({norm(a)})": 1}))
        if e.func.id == "max" and len(e.args) == 2:
            parts = [lin_of(a, subst) for a in e.args]
            zeros = [p for p in parts if p[0] == "lin" and p[1].is_const()
                     and p[1].const == 0]
            others = [p for p in parts if p not in zeros]
            if len(zeros) == 1 and len(others) == 1 and others[0][0] == "lin":
                return ("clamp", others[0][1])
        raise ValueError(norm(e))
    if isinstance(e, ast.BinOp):
        l, r = lin_of(e.left, subst), lin_of(e.right, subst)
        if l[0] != "lin" or r[0] != "lin":
            raise ValueError(norm(e))
        if isinstance(e.op, ast.Add):
            return ("lin", l[1].add(r[1]))
        if isinstance(e.op, ast.Sub):
            return ("lin", l[1].add(r[1], -1))
        if isinstance(e.op, ast.Mult):
            if l[1].is_const():
                return ("lin", r[1].scale(l[1].const))
            if r[1].is_const():
                return ("lin", l[1].scale(r[1].const))
            # product of two atoms: keep as an opaque commutative atom
            if len(l[1].key()[0]) == 1 and len(r[1].key()[0]) == 1 \
                    and not l[1].const and not r[1].const:
                a, b = sorted([l[1].key()[0][0][0], r[1].key()[0][0][0]])
                return ("lin", Lin({f"{a}*{b}": 1}))
        raise ValueError(norm(e))
    if isinstance(e, ast.IfExp):
        raise ValueError(norm(e))
    raise ValueError(norm(e))


def _expected_length(m, params, selfname):
    """New length of a list after mutator ``m`` (Python data model), as
    (kind, Lin) alternatives keyed by the parameter names in use."""
    L = Lin({f"len({selfname})": 1})
    one = Lin(const=1)
    p = params[1:] + ["?", "?"]
    if m in ("append", "insert"):
        return [("lin", L.add(one))]
    if m == "clear":
        return [("lin", Lin(const=0))]
    if m in ("pop", "remove"):
        return [("clamp", L.add(one, -1))]
    if m in ("__iadd__", "extend"):
        return [("lin", L.add(Lin({f"len({p[0]})": 1})))]
    if m == "__imul__":
        a, b = sorted([f"len({selfname})", p[0]])
        return [("clamp", Lin({f"{a}*{b}": 1}))]
    if m == "__setitem__":
        return [("lin", L.add(Lin({f"len({selfname}[{p[0]}])": 1}), -1)
                 .add(Lin({f"len({p[1]})": 1})))]
    if m == "__delitem__":
        return [("clamp", L.add(Lin({f"len({selfname}[{p[0]}])": 1}), -1)),
                ("clamp", L.add(one, -1))]
    return None


@rule("C04.length-expr", ["C04"],
      "the length passed to _validate_length is the data-model length of the "
      "list after the operation (linear normal form)")
def c04_length_expr(ctx, res):
    repo, classes = container_classes(ctx)
    mod, base, obj = classes["list"]
    for m in LENGTH_CHANGING:
        if m not in obj.methods:
            continue
        fn = obj.methods[m]
        params = [a.arg for a in fn.args.args]
        selfname = params[0]
        subst, multi = {}, set()
        # `if c: x = a  else: x = b` is the statement form of x = a if c else b
        merged = {}
        for n2 in ast.walk(fn):
            if isinstance(n2, ast.If) and len(n2.body) == 1 \
                    and len(n2.orelse) == 1 \
                    and all(isinstance(b, ast.Assign) and len(b.targets) == 1
                            and isinstance(b.targets[0], ast.Name)
                            for b in (n2.body[0], n2.orelse[0])) \
                    and n2.body[0].targets[0].id == n2.orelse[0].targets[0].id:
                nm = n2.body[0].targets[0].id
                merged[id(n2.body[0])] = merged[id(n2.orelse[0])] = nm
                if nm in subst:
                    multi.add(nm)
                subst[nm] = ast.IfExp(n2.test, n2.body[0].value,
                                      n2.orelse[0].value)
        for n2 in ast.walk(fn):
            if isinstance(n2, ast.Assign) and len(n2.targets) == 1 \
                    and isinstance(n2.targets[0], ast.Name):
                if id(n2) in merged:
                    continue
                nm = n2.targets[0].id
                if nm in subst:
                    multi.add(nm)
                subst[nm] = n2.value
        # `value = list(value)`: a parameter rebound to its own list copy
        for nm in list(subst):
            v = subst[nm]
            if nm in params and isinstance(v, ast.Call) \
                    and isinstance(v.func, ast.Name) and v.func.id == "list" \
                    and len(v.args) == 1 and isinstance(v.args[0], ast.Name) \
                    and v.args[0].id == nm:
                del subst[nm]
        for nm in multi:
            subst.pop(nm, None)
        expected = _expected_length(m, params, selfname)
        calls = [c for c in ast.walk(fn)
                 if is_self_call(c, "_validate_length", selfname)]
        for c in calls:
            key = f"{obj.name}.{m}:length-expr"
            arg = c.args[0]
            alts = []
            if isinstance(arg, ast.Name) and arg.id in subst:
                arg = subst[arg.id]
            # removed_count = len(self[key]) if isinstance(key, slice) else 1
            exprs = [arg]
            try:
                exprs = _expand_ifexp(arg, subst)
                got = [lin_of(x, subst) for x in exprs]
            except ValueError as e:
                raise AnalysisError(
                    f"C04.length-expr: unrecognised length expression "
                    f"`{norm(c.args[0])}` in {obj.name}.{m} ({e})")
            res.instance(f"{obj.name}.{m}", mod.loc(c), expr=norm(c.args[0]))
            exp_keys = {(k, l.key()) for k, l in expected}
            got_keys = {(k, l.key()) for k, l in got}
            res.oblige(got_keys == exp_keys, key, mod.loc(c),
                       f"length checked is `{norm(c.args[0])}` but the list "
                       f"will have a different length after {m} "
                       f"(normal forms {sorted(map(str, got_keys))} vs "
                       f"{sorted(map(str, exp_keys))})")
    res.floor(10)


def _expand_ifexp(e, subst):
    """Split an expression on the IfExp definitions of its local names."""
    for n in ast.walk(e):
        if isinstance(n, ast.Name) and n.id in subst \
                and isinstance(subst[n.id], ast.IfExp):
            ife = subst[n.id]
            out = []
            for branch in (ife.body, ife.orelse):
                s2 = dict(subst)
                s2[n.id] = branch
                out.extend(_expand_ifexp(e, s2) if False else [(e, s2)])
            res = []
            for ex, s2 in out:
                res.append(_Subst(ex, s2))
            return res
    return [e]


class _Subst:
    """expression paired with its own substitution (used by lin_of)"""

    def __init__(self, e, subst):
        self.e, self.subst = e, subst


_lin_of_orig = lin_of


def lin_of(e, subst):  # noqa: F811
    if isinstance(e, _Subst):
        return _lin_of_orig(e.e, e.subst)
    return _lin_of_orig(e, subst)


# ---------------------------------------------------------------------------
# C04.wrap: List/Set/Dict.validate wrap the value for a live object

TT = "traits/trait_types.py"
WRAP = {"List": ("list", "TraitListObject"), "Set": ("set", "TraitSetObject"),
        "Dict": ("dict", "TraitDictObject")}
COERCING = {"CList": "List", "CSet": "Set"}


class ReturnFlow(FactFlow):
    """Collect (return expression, facts) for every return statement."""

    def __init__(self, *a, **k):
        super().__init__(*a, **k)
        self.returns = []

    def classify(self, e, node):
        if isinstance(e, ast.Return):
            return [("RET", False)]
        return []

    def step(self, state, ev, e, node):
        self.returns.append((e, state, node.id))
        return state


@rule("C04.wrap", ["C04", "C14"],
      "List/Set/Dict.validate return a Trait*Object bound to the owner for a "
      "live object, never the raw container")
def c04_wrap(ctx, res):
    repo = get_pyrepo(ctx)
    mod = repo.module(TT)
    for cname, (btype, wrapper) in WRAP.items():
        cls = repo.cls(TT, cname)
        if "validate" not in cls.methods:
            raise AnalysisError(f"{cname}.validate missing")
        fn = cls.methods["validate"]
        ps = [a.arg for a in fn.args.args]
        selfn, objn, namen, valn = ps[:4]
        fl = ReturnFlow(mod, fn, f"{cname}.validate")
        fl.run(frozenset())
        res.instance(f"{cname}.validate", mod.loc(fn),
                     returns=len(fl.returns))
        wrapped = 0
        for ret, facts, nid in fl.returns:
            v = ret.value
            key = f"{cname}.validate:return:{norm(v) if v else 'None'}"
            obj_none = ("T", f"{objn} is None") in facts
            type_ok = ("T", f"isinstance({valn}, {btype})") in facts
            res.oblige(type_ok, key + ":type", mod.loc(ret),
                       f"value returned without isinstance({valn}, {btype}) "
                       f"established on the path")
            if cname == "List":
                cs = {c[1] for c in facts if c[0] == "C"}
                need = {(f"{selfn}.minlen", "<=", f"len({valn})"),
                        (f"len({valn})", "<=", f"{selfn}.maxlen")}
                res.oblige(need <= cs, key + ":length", mod.loc(ret),
                           f"list accepted without minlen <= len({valn}) <= "
                           f"maxlen on the path (have {sorted(cs)})")
            if obj_none:
                res.oblige(True, key, "", "")
                continue
            ok = (isinstance(v, ast.Call) and norm(v.func) == wrapper
                  and [norm(a) for a in v.args] == [selfn, objn, namen, valn]
                  and not v.keywords)
            wrapped += ok
            res.oblige(ok, key, mod.loc(ret),
                       f"for a live object validate() returns `{norm(v) if v else None}` "
                       f"instead of {wrapper}({selfn}, {objn}, {namen}, {valn}): "
                       f"the stored container would not validate or notify")
        res.oblige(wrapped >= 1, f"{cname}.validate:wraps", mod.loc(fn),
                   f"no path constructs {wrapper}")
    for cname, parent in COERCING.items():
        cls = repo.cls(TT, cname)
        fn = cls.methods.get("validate")
        if fn is None:
            res.instance(f"{cname}.validate", mod.loc(cls.node), note="inherits")
            res.oblige(True, cname, "", "")
            continue
        ps = [a.arg for a in fn.args.args]
        fl = ReturnFlow(mod, fn, f"{cname}.validate")
        fl.run(frozenset())
        res.instance(f"{cname}.validate", mod.loc(fn), returns=len(fl.returns))
        for ret, facts, nid in fl.returns:
            v = ret.value
            ok = (is_super_call(v) == "validate" and len(v.args) == 3
                  and [norm(a) for a in v.args[:2]] == ps[1:3])
            res.oblige(ok, f"{cname}.validate:return:{norm(v) if v else None}",
                       mod.loc(ret),
                       f"{cname}.validate does not delegate to "
                       f"{parent}.validate (which wraps the container)")
    res.floor(5)


# ---------------------------------------------------------------------------
# C04.validator-binding

BINDING = {
    "list": [("item_validator", "item_trait")],
    "dict": [("key_validator", "key_trait"), ("value_validator", "value_trait")],
    "set": [("item_validator", "item_trait")],
}


def _resolve_alias(fn, name):
    """unique local definition of ``name`` or None"""
    defs = [n.value for n in ast.walk(fn)
            if isinstance(n, ast.Assign) and len(n.targets) == 1
            and isinstance(n.targets[0], ast.Name) and n.targets[0].id == name]
    return defs[0] if len(defs) == 1 else None


@rule("C04.validator-binding", ["C04", "C14", "C07", "C06", "C05"],
      "Trait*Object binds the inner trait's validate as the element validator "
      "and returns its result")
def c04_validator_binding(ctx, res):
    repo, classes = container_classes(ctx)
    for kind, (mod, base, obj) in classes.items():
        init = obj.methods.get("__init__")
        if init is None:
            raise AnalysisError(f"{obj.name}.__init__ missing")
        selfn = init.args.args[0].arg
        sup = [c for c in ast.walk(init) if is_super_call(c) == "__init__"]
        if len(sup) != 1:
            raise AnalysisError(f"{obj.name}.__init__: super().__init__ call "
                                f"not found exactly once")
        kws = {k.arg: k.value for k in sup[0].keywords}
        for kwname, inner in BINDING[kind]:
            key = f"{obj.name}:{kwname}"
            v = kws.get(kwname)
            ok = v is not None and is_self_attr(v, None, selfn)
            res.instance(key, mod.loc(sup[0]),
                         bound=norm(v) if v is not None else None)
            if not res.oblige(ok, key + ":bound", mod.loc(sup[0]),
                              f"{obj.name}.__init__ does not pass a bound "
                              f"method as {kwname}= to {base.name}.__init__ "
                              f"(elements would not be validated)"):
                continue
            meth = obj.methods.get(v.attr)
            if meth is None:
                res.violation(key + ":method", mod.loc(sup[0]),
                              f"{norm(v)} is not a method of {obj.name}")
                continue
            _check_validator_method(res, mod, obj, meth, inner, key)
        # the notifier must be installed too (items events; C05-C07, C14)
        nv = kws.get("notifiers")
        ok = nv is not None and any(is_self_attr(x, "notifier", selfn)
                                    for x in ast.walk(nv))
        res.oblige(ok, f"{obj.name}:notifiers", mod.loc(sup[0]),
                   f"{obj.name}.__init__ does not install self.notifier")
    res.floor(4)


# When may a Trait*Object validator hand the element back unvalidated?  The
# three classes differ on the pinned tree (confirmed by reading); the table
# freezes each one's policy so that a change of policy is reported.
#   attr-missing       the attribute is not there yet (object being unpickled)
#   owner-dead         the owning HasTraits object is None / collected
#   no-inner-validator the inner trait has no validate (Any)
PASS_THROUGH_POLICY = {
    "TraitListObject._item_validator": {"owner-dead", "no-inner-validator"},
    "TraitDictObject._key_validator": {"attr-missing", "owner-dead",
                                       "no-inner-validator"},
    "TraitDictObject._value_validator": {"attr-missing", "owner-dead",
                                         "no-inner-validator"},
    "TraitSetObject._validator": {"attr-missing", "no-inner-validator"},
}


def _none_subject_kind(meth, selfn, text):
    """classify the subject of a `<subject> is None` fact"""
    subj = text[:-len(" is None")].strip()
    try:
        e = ast.parse(subj, mode="eval").body
    except SyntaxError:
        return "?"
    for _ in range(4):
        if isinstance(e, ast.Name):
            d = _resolve_alias(meth, e.id)
            if d is None:
                break
            e = d
        else:
            break
    t = norm(e)
    if t.endswith(".validate"):
        return "no-inner-validator"
    if isinstance(e, ast.Call):
        f = e.func
        if isinstance(f, ast.Name) and f.id == "getattr" and len(e.args) >= 2 \
                and norm(e.args[0]) == selfn:
            return "attr-missing"
        # a call of the stored reference: self.object() / ref() /
        # getattr(self, 'object', ...)()
        return "owner-dead"
    if isinstance(e, ast.Attribute) and norm(e.value) == selfn:
        return "attr-missing"
    return "?"


class _GetattrConst(ast.NodeTransformer):
    """getattr(X, 'name') with a constant name and no default -> X.name"""

    def visit_Call(self, node):
        self.generic_visit(node)
        if isinstance(node.func, ast.Name) and node.func.id == "getattr" \
                and len(node.args) == 2 \
                and isinstance(node.args[1], ast.Constant) \
                and isinstance(node.args[1].value, str):
            return ast.copy_location(
                ast.Attribute(node.args[0], node.args[1].value, ast.Load()),
                node)
        return node


def _specialise_delegation(obj, meth):
    """a validator that only delegates - `return self._h(<consts>, value,
    ...)` - is replaced by the helper's body specialised for those arguments
    (the helper may have early returns, which statement inlining refuses)"""
    import copy
    from ..pyfacts import _Renamer
    body = [s_ for s_ in meth.body if not (
        isinstance(s_, ast.Expr) and isinstance(s_.value, ast.Constant))]
    if len(body) != 1 or not isinstance(body[0], ast.Return) \
            or not isinstance(body[0].value, ast.Call):
        return meth
    call = body[0].value
    selfn = meth.args.args[0].arg
    f = call.func
    if not (isinstance(f, ast.Attribute) and isinstance(f.value, ast.Name)
            and f.value.id == selfn and f.attr in obj.methods
            and obj.methods[f.attr] is not None) or call.keywords:
        return meth
    helper = obj.methods[f.attr]
    hps = [a.arg for a in helper.args.args]
    if len(hps) != len(call.args) + 1 or helper.args.vararg \
            or helper.args.kwarg:
        return meth
    if not all(isinstance(a, (ast.Name, ast.Constant)) for a in call.args):
        return meth
    mapping = {hps[0]: ast.Name(selfn, ast.Load())}
    mapping.update(dict(zip(hps[1:], call.args)))
    new = copy.deepcopy(helper)
    new.body = [_GetattrConst().visit(_Renamer(mapping).visit(s_))
                for s_ in new.body]
    new.name = meth.name
    new.args = copy.deepcopy(meth.args)
    ast.fix_missing_locations(new)
    return new


def _check_validator_method(res, mod, obj, meth, inner, key):
    meth = _specialise_delegation(obj, meth)
    ps = [a.arg for a in meth.args.args]
    selfn, valn = ps[0], ps[1]
    qual = f"{obj.name}.{meth.name}"
    policy = PASS_THROUGH_POLICY.get(qual)
    if policy is None:
        raise AnalysisError(f"{qual}: no pass-through policy row (new "
                            f"validator method: read it and add one)")
    fl = ReturnFlow(mod, meth, f"{obj.name}.{meth.name}")
    fl.run(frozenset())
    validated_returns = 0
    for ret, facts, nid in fl.returns:
        v = ret.value
        k2 = f"{key}:{meth.name}:return:{norm(v) if v else None}"
        # `X is not None` found false is `X is None` found true
        facts = {("T", f[1][:-len(" is not None")] + " is None")
                 if f[0] == "F" and f[1].endswith(" is not None") else f
                 for f in facts}
        if isinstance(v, ast.Name) and v.id == valn:
            none_fact = any(f[0] == "T" and f[1].endswith(" is None")
                            for f in facts)
            res.oblige(none_fact, k2, mod.loc(ret),
                       f"{meth.name} returns the unvalidated `{valn}` on a "
                       f"path where neither the owner, the trait nor its "
                       f"validate is None")
            kinds = {_none_subject_kind(meth, selfn, f[1]) for f in facts
                     if f[0] == "T" and f[1].endswith(" is None")}
            extra = sorted(kinds - policy)
            res.oblige(not extra, f"{key}:{meth.name}:pass-through-policy",
                       mod.loc(ret),
                       f"{qual} hands `{valn}` back unvalidated when "
                       f"{extra} - on the pinned tree it does so only for "
                       f"{sorted(policy)}: e.g. a deep-copied "
                       f"{obj.name[5:-6].lower()} (owner None) would stop "
                       f"validating its items")
            continue
        # must be <something resolving to X.<inner>.validate>(obj, name, value)
        ok = False
        if isinstance(v, ast.Call):
            f = v.func
            if isinstance(f, ast.Name):
                f = _resolve_alias(meth, f.id) or f
            ftxt = norm(f)
            ok = (ftxt.endswith(f".{inner}.validate")
                  and len(v.args) == 3 and norm(v.args[2]) == valn)
        validated_returns += ok
        res.oblige(ok, k2, mod.loc(ret),
                   f"{meth.name} returns `{norm(v) if v else None}`, not the "
                   f"result of <trait>.{inner}.validate(object, name, {valn})")
    res.oblige(validated_returns >= 1, f"{key}:{meth.name}:validates",
               mod.loc(meth), f"{meth.name} never calls {inner}.validate")


# ---------------------------------------------------------------------------
# refinement: every override delegates to the same built-in operation

# Overrides that deliberately perform a different built-in operation.
DIFFERENT_OP = {
    ("dict", "setdefault"): ("__setitem__",
                             "dict.setdefault cannot take a validated key "
                             "that differs from the key tested; the absent "
                             "case is a plain store of validated key/value"),
    ("set", "intersection_update"): (
        "difference_update",
        "set.intersection_update may keep the argument's equal element in "
        "place of the set's own validated one; removing the own elements "
        "that are not common keeps the validated ones (D42)"),
    ("set", "__iand__"): (
        "difference_update",
        "as intersection_update; non-set operands are answered with "
        "NotImplemented by the non-mutating set.__and__"),
}
# emulations whose precondition is the caller's key being absent
ABSENT_PRECONDITION = {("dict", "setdefault")}


def refine_rule(kind):
    prop = PROP_OF[kind]

    @rule(f"{prop}.same-operation", [prop],
          f"each Trait{kind.capitalize()} mutator performs exactly the "
          f"built-in operation it overrides, with the positional (index / key "
          f"/ count) arguments passed through unchanged")
    def _r(ctx, res, kind=kind):
        for k, m, fl in analyse_mutators(ctx):
            if k != kind or m == "__init__":
                continue
            res.instance(fl.qualname, fl.module.loc(fl.func),
                         operations=sorted({c[0] for c in fl.mutation_calls}))
            want = DIFFERENT_OP.get((kind, m), (m,))[0]
            params = fl.params[1:]
            elem = ELEMENT_ARGS[kind].get(want)
            seen = set()
            for name, args, kws, call, phase in fl.mutation_calls:
                if id(call) in seen:
                    continue
                seen.add(id(call))
                res.oblige(name == want,
                           f"{fl.qualname}:operation:{name}",
                           fl.module.loc(call),
                           f"{fl.qualname} performs the built-in "
                           f"{kind}.{name} where {kind}.{want} is overridden: "
                           f"results, exceptions and edge cases of the "
                           f"built-in {want} are no longer inherited")
                if (kind, m) in ABSENT_PRECONDITION and name == want:
                    # the emulated operation acts only when the caller's key
                    # is absent: every path to the store has decided
                    # `<key> in self` false
                    keyp = params[0]
                    mems = fl.mutation_mem.get(id(call), [])
                    res.oblige(bool(mems) and all(
                        (keyp, "absent") in f for f in mems),
                        f"{fl.qualname}:precondition:absent",
                        fl.module.loc(call),
                        f"{fl.qualname} reaches the underlying "
                        f"{kind}.{name} on a path that has not decided "
                        f"`{keyp} in self` to be false: built-in "
                        f"{kind}.{m} leaves a present key alone whatever "
                        f"its value (a key holding None / a falsy value "
                        f"would be overwritten and announced as changed)")
                if name != want or (kind, m) in DIFFERENT_OP:
                    continue
                # positional pass-through of the non-element arguments
                for i, a in enumerate(args):
                    if elem == "*" or (elem and i in elem):
                        continue
                    if isinstance(a, ast.Starred):
                        ok = i < len(params) and norm(a.value) == params[i]
                    else:
                        ok = i < len(params) and norm(a) == params[i]
                    res.oblige(ok, f"{fl.qualname}:passthrough:{i}",
                               fl.module.loc(call),
                               f"argument {i} of the underlying {kind}.{name} "
                               f"is `{norm(a)}`, not the caller's "
                               f"`{params[i] if i < len(params) else '?'}`: "
                               f"out-of-range / unusual indices would no "
                               f"longer behave (or fail) like the built-in")
                for kw in kws:
                    res.oblige(kw.arg in params and norm(kw.value) == kw.arg,
                               f"{fl.qualname}:passthrough:{kw.arg}",
                               fl.module.loc(call),
                               f"keyword {kw.arg}= of the underlying call is "
                               f"`{norm(kw.value)}`")
            for key, msg, loc, path in [f for f in fl.findings()
                                        if f[0][0] == "second-mutation"]:
                res.violation(f"{fl.qualname}:second-mutation", loc, msg, path)
            # no detour through a *different* overridden mutator of the same
            # object: the built-in operation's own argument checks, results
            # and exceptions (TypeError for a non-integer multiplier, ...)
            # are inherited only when that very operation is invoked
            for n in ast.walk(fl.func):
                if isinstance(n, ast.Call) and isinstance(n.func, ast.Attribute) \
                        and isinstance(n.func.value, ast.Name) \
                        and n.func.value.id == fl.selfname \
                        and n.func.attr in MUTATORS[kind] \
                        and n.func.attr != m:
                    res.violation(
                        f"{fl.qualname}:via-other-mutator:{n.func.attr}",
                        fl.module.loc(n),
                        f"{fl.qualname} performs (part of) its work through "
                        f"self.{n.func.attr}() instead of the built-in "
                        f"{kind}.{want}: inputs the built-in rejects (or "
                        f"treats differently) are no longer handled like "
                        f"{kind}.{m} handles them")
        res.floor(len(MUTATORS[kind]))
    return _r


for _k in ("list", "dict", "set"):
    refine_rule(_k)
