"""C16: legacy extended-name listeners (traits_listener.py, has_traits.py)."""
from __future__ import annotations

import ast

from ..core import AnalysisError, rule
from ..pyfacts import get_pyrepo, is_self_attr, is_self_call, names_in, norm
from .containers import FactFlow

TL = "traits/traits_listener.py"
HT = "traits/has_traits.py"


def _parents(fn):
    par = {}
    for p in ast.walk(fn):
        for c in ast.iter_child_nodes(p):
            par[id(c)] = p
    return par


def derives(fn, expr, depth=5):
    """(names, attribute texts, call texts) that ``expr`` transitively
    derives from.  A name bound by a for-loop that lexically encloses the use
    resolves to that loop's iterable only (flow-sensitive enough for loop
    variables reused by sibling loops); other names resolve through their
    assignments."""
    par = _parents(fn)

    def enclosing_for(node, name):
        p = par.get(id(node))
        while p is not None:
            if isinstance(p, (ast.For, ast.comprehension)) \
                    and name in names_in(p.target):
                return p
            p = par.get(id(p))
        return None
    names, attrs, calls = set(), set(), set()
    todo, seen = [expr], set()
    for _ in range(depth):
        nxt = []
        for e in todo:
            for n in ast.walk(e):
                if isinstance(n, ast.Attribute):
                    attrs.add(norm(n))
                if isinstance(n, ast.Call):
                    calls.add(norm(n))
                if isinstance(n, ast.Name):
                    names.add(n.id)
                    if (n.id, id(e)) in seen:
                        continue
                    seen.add((n.id, id(e)))
                    loop = enclosing_for(n, n.id)
                    if loop is not None:
                        nxt.append(loop.iter)
                        continue
                    for s in ast.walk(fn):
                        if isinstance(s, ast.Assign) and any(
                                n.id in names_in(t) for t in s.targets):
                            nxt.append(s.value)
        todo = nxt
    return names, attrs, calls


def side_of(fn, expr, oldp, newp):
    """'old', 'new' or '?' : which side of the change an expression belongs
    to."""
    names, attrs, calls = derives(fn, expr)
    old_marks = {oldp in names, f"{newp}.removed" in attrs,
                 f"{newp}.changed" in attrs}
    new_marks = {f"{newp}.added" in attrs,
                 any(c.startswith("getattr(object, ") for c in calls)}
    direct_new = newp in names and not any(
        a in (f"{newp}.removed", f"{newp}.changed", f"{newp}.added")
        for a in attrs)
    is_old = True in old_marks
    is_new = True in new_marks or direct_new
    # `dict[key]` with key from new.changed reads the *current* value
    if any(c.startswith("getattr(object, ") for c in calls):
        is_old = False
        is_new = True
    if is_old and not is_new:
        return "old"
    if is_new and not is_old:
        return "new"
    return "?"


def _next_aliases(fn):
    """local names bound to ``self.next``"""
    out = set()
    for n in ast.walk(fn):
        if isinstance(n, ast.Assign) and norm(n.value) == "self.next":
            for t in n.targets:
                if isinstance(t, ast.Name):
                    out.add(t.id)
    return out


def _is_next_attr(fn, e, attr, _cache={}):
    """``self.next.<attr>`` or ``<alias of self.next>.<attr>``"""
    if not (isinstance(e, ast.Attribute) and e.attr == attr):
        return False
    if norm(e.value) == "self.next":
        return True
    return isinstance(e.value, ast.Name) and e.value.id in _next_aliases(fn)


def _bound_aliases(fn, attr):
    aliases = set()
    for n in ast.walk(fn):
        if isinstance(n, ast.Assign) and _is_next_attr(fn, n.value, attr):
            for t in n.targets:
                if isinstance(t, ast.Name):
                    aliases.add(t.id)
    return aliases


def _is_call_to(fn, n, attr):
    if not isinstance(n, ast.Call):
        return False
    return _is_next_attr(fn, n.func, attr) or (
        isinstance(n.func, ast.Name)
        and n.func.id in _bound_aliases(fn, attr))


def _calls_to(fn, attr):
    """calls of self.next.<attr>(x) including through local aliases of the
    bound method or of ``self.next``"""
    return [n for n in ast.walk(fn) if _is_call_to(fn, n, attr)]


@rule("C16.polarity", ["C16"],
      "every intermediate-link handler unregisters the next listener from "
      "what left and registers it on what arrived")
def polarity(ctx, res):
    repo = get_pyrepo(ctx)
    mod = repo.module(TL)
    cls = repo.cls(TL, "ListenerItem")
    for meth in ("handle_simple", "handle_dst", "handle_list", "handle_dict",
                 "handle_dict_items"):
        fn = cls.methods.get(meth)
        if fn is None:
            raise AnalysisError(f"ListenerItem.{meth} missing")
        ps = [a.arg for a in fn.args.args]
        oldp, newp = ps[3], ps[4]
        un = _calls_to(fn, "unregister")
        rg = _calls_to(fn, "register")
        key = f"ListenerItem.{meth}"
        res.instance(key, mod.loc(fn), unregister=len(un), register=len(rg))
        if meth == "handle_dict_items":
            # bulk part delegates, changed part handled here.  The three
            # parts of one event are independent (update() with old and new
            # keys carries `changed` *and* `added`): the added/removed part
            # is processed on every path, whatever `changed` holds
            from ..cfg import enumerate_paths
            from ..pycfg import build_cfg
            g_ = build_cfg(repo.inlined(TL, "ListenerItem.handle_dict_items"),
                           "handle_dict_items")
            missing = None
            npaths = 0
            for path in enumerate_paths(g_, max_paths=5000):
                if path and g_.nodes[path[-1][0]].id == g_.raise_exit.id:
                    continue
                npaths += 1
                seen_parts = set()
                for nid, lab in path:
                    a_ = g_.nodes[nid].ast
                    if a_ is None or g_.nodes[nid].kind == "cond":
                        continue
                    t_ = norm(a_) if not isinstance(a_, ast.For) \
                        else norm(a_.iter)
                    for part in ("removed", "added"):
                        if f"{newp}.{part}" in t_:
                            seen_parts.add(part)
                if seen_parts != {"removed", "added"} and missing is None:
                    missing = (sorted({"removed", "added"} - seen_parts),
                               [lab for nid, lab in path if lab in ("T", "F")
                                and g_.nodes[nid].kind == "cond"])
            res.oblige(missing is None and npaths > 0,
                       key + ":parts-independent", mod.loc(fn),
                       f"a path of handle_dict_items never processes "
                       f"`{newp}.{'/'.join(missing[0]) if missing else ''}`: "
                       f"an event that carries changed *and* added/removed "
                       f"entries (dict.update with old and new keys) leaves "
                       f"the new values without listeners")
        else:
            res.oblige(bool(un) and bool(rg), key + ":both", mod.loc(fn),
                       f"{meth} must both unregister (old side) and register "
                       f"(new side); found {len(un)} / {len(rg)}")
            # must-pass-through: a path that leaves the handler without
            # having unregistered is justified only by a test on the *old*
            # side (nothing was attached), one without registration only by
            # a test on the *new* side
            from ..cfg import enumerate_paths
            from ..pycfg import build_cfg
            fi = repo.inlined(TL, f"ListenerItem.{meth}")
            g_ = build_cfg(fi, meth)

            def _mentions(a_, what):
                if a_ is None:
                    return False
                tgt = a_.iter if isinstance(a_, ast.For) else a_
                subtree = a_ if isinstance(a_, ast.For) else tgt
                for c_ in ast.walk(subtree):
                    if isinstance(c_, ast.Call) and (
                            (isinstance(c_.func, ast.Attribute)
                             and c_.func.attr == what)
                            or (isinstance(c_.func, ast.Name)
                                and c_.func.id == what)):
                        return True
                return False
            for what, sidep, label in (("unregister", oldp, "old"),
                                       ("register", newp, "new")):
                bad = None
                for path in enumerate_paths(g_, max_paths=4000):
                    if path and g_.nodes[path[-1][0]].id == g_.raise_exit.id:
                        continue
                    did = False
                    justified = False
                    for nid, lab in path:
                        nd = g_.nodes[nid]
                        if nd.kind == "cond":
                            if sidep in {x.id for x in ast.walk(nd.ast)
                                         if isinstance(x, ast.Name)}:
                                justified = True
                        elif _mentions(nd.ast, what):
                            did = True
                    if not did and not justified and bad is None:
                        bad = [g_.nodes[nid].line for nid, lab in path
                               if g_.nodes[nid].kind == "cond"]
                res.oblige(bad is None, f"{key}:{what}-skipped", mod.loc(fn),
                           f"{meth} can return without any "
                           f"`{what}` although no test on the {label} value "
                           f"`{sidep}` says there is nothing to {what} "
                           f"(conditions at lines {bad}): "
                           + ("the object that left stays hooked and keeps "
                              "firing the handler" if what == "unregister"
                              else "the object that arrived is never hooked"))
        # inside the item loops the (un)registration is unconditional: a
        # test that depends on the element (`if obj not in new`, equality
        # with another item, ...) leaves a listener on a detached object or
        # skips an attached one - the bookkeeping is by identity
        par = _parents(fn)
        for c in un + rg:
            node, loopvars, guards = c, set(), []
            while id(node) in par:
                up = par[id(node)]
                if isinstance(up, ast.If):
                    guards.append(up.test)
                if isinstance(up, ast.For):
                    loopvars |= set(names_in(up.target))
                node = up
            dep = [g for g in guards
                   if loopvars & {n.id for n in ast.walk(g)
                                  if isinstance(n, ast.Name)}]
            res.oblige(not dep, key + ":per-element-condition", mod.loc(c),
                       f"`{norm(c)[:40]}` runs only if "
                       f"`{norm(dep[0])[:60] if dep else ''}`: whether an "
                       f"item is (un)registered must not depend on the item "
                       f"(an equal but different object replacing it keeps "
                       f"the old one registered)")
        for c in un:
            s = side_of(fn, c.args[0], oldp, newp) if c.args else "?"
            res.oblige(s == "old", key + ":unregister-side", mod.loc(c),
                       f"`{norm(c)}` unregisters something from the "
                       f"{s}-side of the change; listeners stay on detached "
                       f"objects / are removed from attached ones")
        for c in rg:
            s = side_of(fn, c.args[0], oldp, newp) if c.args else "?"
            res.oblige(s == "new", key + ":register-side", mod.loc(c),
                       f"`{norm(c)}` registers on something from the "
                       f"{s}-side of the change")
    # the *_items handlers delegate with (removed, added) in that order
    for meth, target in (("handle_list_items", "handle_list"),
                         ("handle_dict_items", "handle_dict")):
        fn = cls.methods.get(meth)
        ps = [a.arg for a in fn.args.args]
        calls = [c for c in ast.walk(fn) if is_self_call(c, target)]
        key = f"ListenerItem.{meth}"
        res.instance(key + ":delegation", mod.loc(fn))
        ok = len(calls) == 1 and [norm(a) for a in calls[0].args[2:]] == [
            f"{ps[4]}.removed", f"{ps[4]}.added"]
        res.oblige(ok, key + ":delegation", mod.loc(fn),
                   f"{meth} must call self.{target}(object, name, "
                   f"{ps[4]}.removed, {ps[4]}.added)")
    # HasTraits._*_changed_handler
    mod2 = repo.module(HT)
    for meth, oldsrc, newsrc in (
            ("_instance_changed_handler", "old", "new"),
            ("_list_changed_handler", "old", "new"),
            ("_list_items_changed_handler", "event.removed", "event.added")):
        fn = repo.func(HT, f"HasTraits.{meth}")
        key = f"HasTraits.{meth}"
        calls = [c for c in ast.walk(fn) if isinstance(c, ast.Call)
                 and isinstance(c.func, ast.Attribute)
                 and c.func.attr == "on_trait_change"]
        res.instance(key, mod2.loc(fn), calls=len(calls))
        seen = set()
        for c in calls:
            rm = {k.arg: norm(k.value) for k in c.keywords}.get("remove")
            names, attrs, _ = derives(fn, c.func.value)
            src = "?"
            for cand in (oldsrc, newsrc):
                if cand in names or cand in attrs:
                    src = cand
            is_old = src == oldsrc
            seen.add(src)
            res.oblige(src != "?" and (rm == "True") == is_old,
                       key + ":polarity", mod2.loc(c),
                       f"`{norm(c)[:60]}` on an item from `{src}` with "
                       f"remove={rm}")
        res.oblige(seen == {oldsrc, newsrc}, key + ":both", mod2.loc(fn),
                   f"{meth} handles only {sorted(seen)}")
    res.floor(9)


@rule("C16.unregister-first", ["C16"],
      "within one change event every unregistration of the next listener "
      "precedes every registration (register ignores an object that is still "
      "active; a later unregister of the same object would leave it without "
      "a listener although it is still reachable)")
def unregister_first(ctx, res):
    repo = get_pyrepo(ctx)
    mod = repo.module(TL)
    cls = repo.cls(TL, "ListenerItem")
    handlers = ("handle_simple", "handle_dst", "handle_list", "handle_dict",
                "handle_list_items", "handle_dict_items")
    # which handlers (transitively) unregister / register
    for meth in handlers:
        fn = cls.methods.get(meth)
        if fn is None:
            raise AnalysisError(f"ListenerItem.{meth} missing")
        key = f"ListenerItem.{meth}"

        class F(FactFlow):
            def __init__(s, *a):
                super().__init__(*a)
                s.bad = []

            def classify(s, e, node):
                if _is_call_to(fn, e, "unregister"):
                    return [("U", False)]
                if _is_call_to(fn, e, "register"):
                    return [("R", False)]
                if isinstance(e, ast.Call) and any(
                        is_self_call(e, h) for h in handlers):
                    # delegated handler: unregisters then registers
                    return [("U", False), ("R", False)]
                return []

            def step(s, st, ev, e, node):
                if ev == "R":
                    return st | {("SEEN", "register", mod.loc(e))}
                seen = [f for f in st if f[0] == "SEEN"]
                if seen:
                    s.bad.append((e, seen[0][2], node.id, st))
                return st
        fl = F(mod, fn, key)
        fl.run(frozenset())
        res.instance(key + ":order", mod.loc(fn))
        done = set()
        if not fl.bad:
            res.oblige(True, key + ":unregister-after-register", mod.loc(fn),
                       "")
        for e, regloc, nid, st in fl.bad:
            if mod.loc(e) in done:
                continue
            done.add(mod.loc(e))
            res.violation(key + ":unregister-after-register", mod.loc(e),
                          f"`{norm(e)[:50]}` can run after the registration "
                          f"at {regloc} within the same event: an object "
                          f"present on both sides of the change (reordered "
                          f"list, value moved to another key) ends up "
                          f"unregistered while still reachable",
                          fl.witness_lines(nid, st))
    res.floor(6)


@rule("C16.flag-threading", ["C16"],
      "every (un)registration made by a listener passes the `remove` "
      "parameter through, so that unregister undoes exactly what register did")
def flag_threading(ctx, res):
    repo = get_pyrepo(ctx)
    mod = repo.module(TL)
    cls = repo.cls(TL, "ListenerItem")
    for meth in ("_register_anytrait", "_register_simple", "_register_list",
                 "_register_dict"):
        fn = cls.methods.get(meth)
        if fn is None:
            raise AnalysisError(f"ListenerItem.{meth} missing")
        ps = [a.arg for a in fn.args.args]
        rmp = ps[3]
        calls = [c for c in ast.walk(fn) if isinstance(c, ast.Call)
                 and isinstance(c.func, ast.Attribute)
                 and c.func.attr == "_on_trait_change"]
        key = f"ListenerItem.{meth}"
        res.instance(key, mod.loc(fn), registrations=len(calls))
        if not calls:
            raise AnalysisError(f"{key}: no _on_trait_change calls")
        for c in calls:
            kws = {k.arg: norm(k.value) for k in c.keywords}
            res.oblige(kws.get("remove") == rmp, key + ":remove",
                       mod.loc(c),
                       f"`_on_trait_change({norm(c.args[0]) if c.args else ''}"
                       f", ...)` passes remove={kws.get('remove')}; must be "
                       f"the `{rmp}` parameter (a handler would be left "
                       f"behind / added on removal)")
            res.oblige(kws.get("target") == "self._get_target()",
                       key + ":target", mod.loc(c),
                       "registration without target=self._get_target()")
            res.oblige(norm(c.func.value) == ps[1], key + ":object",
                       mod.loc(c), f"registration on `{norm(c.func.value)}` "
                       f"instead of the `{ps[1]}` parameter")
        if meth == "_register_anytrait":
            continue

        # continuation to the next listener follows the flag
        class F(FactFlow):
            def __init__(s, *a):
                super().__init__(*a)
                s.sites = []

            def classify(s, e, node):
                if isinstance(e, ast.Attribute) and norm(e) in (
                        "next.register", "next.unregister"):
                    return [("N", False)]
                return []

            def step(s, st, ev, e, node):
                s.sites.append((e, st, node.id))
                return st | {("SAW", e.attr)}
        fl = F(mod, fn, key)
        fl.run(frozenset())
        for e, facts, nid in fl.sites:
            want_remove = e.attr == "unregister"
            ok = (("T", rmp) in facts) if want_remove \
                else (("F", rmp) in facts)
            res.oblige(ok, key + f":next.{e.attr}", mod.loc(e),
                       f"`next.{e.attr}` is used on a path where `{rmp}` is "
                       f"{'false' if want_remove else 'true'}",
                       fl.witness_lines(nid, facts))
        res.oblige({x[0].attr for x in fl.sites} == {"register", "unregister"},
                   key + ":next-both", mod.loc(fn),
                   "the continuation to the next listener must both register "
                   "and unregister")
        # deferred registration postpones the hook-up only while nothing has
        # been assigned: every exit that skips the continuation has decided
        # both `self.deferred` and `<name> not in <object>.__dict__`
        g = fl.cfg
        namep = ps[2]
        skipped = []
        for st in fl.states[g.exit.id]:
            if ("F", rmp) not in st:
                continue
            if any(f[0] == "SAW" for f in st):
                continue
            deferred = ("T", "self.deferred") in st
            absent = ("F", f"{namep} in {ps[1]}.__dict__") in st or \
                ("T", f"{namep} not in {ps[1]}.__dict__") in st
            if not (deferred and absent):
                skipped.append(st)
        res.oblige(not skipped, key + ":deferred-only-when-unassigned",
                   mod.loc(fn),
                   f"{meth} can return without registering the next listener "
                   f"on the current value although the value is already "
                   f"assigned (facts: "
                   f"{sorted(str(f) for f in (skipped[0] if skipped else []))[:6]}"
                   f"): a deferred (decorator / post_init) listener is then "
                   f"never hooked to items that were set before it was "
                   f"installed - `_register_simple` registers in that case")
    # register()/unregister() bookkeeping
    reg = cls.methods["register"]
    unreg = cls.methods["unregister"]
    res.instance("ListenerItem.register/unregister", mod.loc(reg))
    calls = [c for c in ast.walk(reg) if isinstance(c, ast.Call)
             and norm(c.func) == "getattr(self, type)"]
    res.oblige(len(calls) == 1 and norm(calls[0].args[2]) == "False",
               "ListenerItem.register:remove-false", mod.loc(reg),
               "register must invoke the _register_* method with remove=False")
    calls = [c for c in ast.walk(unreg) if isinstance(c, ast.Call)
             and norm(c.func) == "getattr(self, type)"]
    res.oblige(len(calls) == 1 and norm(calls[0].args[2]) == "True",
               "ListenerItem.unregister:remove-true", mod.loc(unreg),
               "unregister must invoke the _register_* method with remove=True")
    pops = [c for c in ast.walk(unreg) if isinstance(c, ast.Call)
            and norm(c.func) == "self.active.pop"]
    res.oblige(bool(pops), "ListenerItem.unregister:pop", mod.loc(unreg),
               "unregister does not pop the entry of self.active (a later "
               "register of the same object would be skipped as a cycle)")
    stores = [n for n in ast.walk(reg) if isinstance(n, ast.Assign)
              and any(norm(t).startswith("self.active[") for t in n.targets)]
    res.oblige(bool(stores), "ListenerItem.register:active", mod.loc(reg),
               "register does not record the object in self.active")
    res.floor(5)


@rule("C16.remove-path", ["C16"],
      "on_trait_change(remove=True) with an extended name unregisters the "
      "listener from the object graph and drops its table entry")
def remove_path(ctx, res):
    repo = get_pyrepo(ctx)
    mod = repo.module(HT)
    from ..pyfacts import normalize_guards
    fn = normalize_guards(repo.func(HT, "HasTraits.on_trait_change"))
    ps = [a.arg for a in fn.args.args]
    rm_if = [n for n in ast.walk(fn) if isinstance(n, ast.If)
             and norm(n.test) == "remove" and n.orelse]
    if not rm_if:
        raise AnalysisError("on_trait_change: `if remove: ... else:` missing")
    blk = rm_if[-1]
    res.instance("HasTraits.on_trait_change:remove", mod.loc(blk))
    body = ast.Module(blk.body, [])
    match_if = [n for n in ast.walk(body) if isinstance(n, ast.If)
                and ".equals(" in norm(n.test)]
    ok = False
    if match_if:
        m = match_if[0]
        txt = [norm(s) for s in ast.walk(ast.Module(m.body, []))
               if isinstance(s, (ast.Expr, ast.Delete))]
        ok = (any(t.endswith(".listener.unregister(self)") for t in txt)
              and any(t.endswith(".dispose()") for t in txt)
              and any(t.startswith("del listeners[") for t in txt))
    res.oblige(ok, "on_trait_change:remove-found", mod.loc(blk),
               "when the handler is found, removal must delete the wrapper "
               "from the table, call listener.unregister(self) and dispose()")
    # the search examines every recorded wrapper: the loop is left early
    # only from inside the match branch
    loops = [l for l in ast.walk(body) if isinstance(l, ast.For)
             and any(n is match_if[0] for n in ast.walk(l))] if match_if else []
    if match_if and not loops:
        raise AnalysisError("on_trait_change: search loop not found")
    for lp in loops[-1:]:
        def exits_outside(stmts, inside):
            bad_ = []
            for s_ in stmts:
                if isinstance(s_, (ast.Break, ast.Return)) and not inside:
                    bad_.append(s_)
                elif isinstance(s_, ast.If):
                    ins = inside or s_ is match_if[0]
                    bad_ += exits_outside(s_.body, ins)
                    bad_ += exits_outside(s_.orelse, inside)
                elif isinstance(s_, (ast.For, ast.While)):
                    continue
                elif isinstance(s_, (ast.With, ast.Try)):
                    bad_ += exits_outside(getattr(s_, "body", []), inside)
            return bad_
        early = exits_outside(lp.body, False)
        res.oblige(not early, "on_trait_change:remove-search-complete",
                   mod.loc(early[0]) if early else mod.loc(lp),
                   "the loop that looks for the handler's wrapper is left "
                   "outside the match branch: only the first wrapper recorded "
                   "under the name is ever examined, so removing a handler "
                   "that was not registered first does nothing")
    # the add branch registers and records
    add = ast.Module(blk.orelse, [])
    txt = [norm(s) for s in ast.walk(add) if isinstance(s, ast.Expr)]
    res.oblige(any(t == "listener.register(self)" for t in txt)
               and any(t.startswith("listeners.append(") for t in txt),
               "on_trait_change:add", mod.loc(blk),
               "the add branch must register the listener on self and record "
               "the wrapper")
    # quick exit for plain names forwards the remove flag
    quick = [c for c in ast.walk(fn) if is_self_call(c, "_on_trait_change")]
    res.oblige(any([norm(a) for a in c.args[:3]] == [ps[1], ps[2], ps[3]]
                   for c in quick), "on_trait_change:quick-exit", mod.loc(fn),
               "plain names must be forwarded to _on_trait_change(handler, "
               "name, remove, ...)")
    res.floor(1)


# ---------------------------------------------------------------------------
# C16.kind-dispatch-agrees: the legacy listener chooses between simple / list
# / dict / set handling by looking the trait handler's default-value kind up
# in `type_map`, at two sibling sites (registration of existing traits and
# `_new_trait_added` for traits added later).  Both must look up the same
# thing: an attribute that the keys of the table are values of.

@rule("C16.kind-dispatch-agrees", ["C16"],
      "every lookup in the legacy listener's kind table uses the handler's "
      "`default_value_type` (the sibling sites agree and the key is the "
      "attribute the table's DefaultValue keys are values of)")
def kind_dispatch_agrees(ctx, res):
    repo = get_pyrepo(ctx)
    mod = repo.module(TL)
    if "type_map" not in mod.assigns:
        raise AnalysisError("traits_listener.type_map missing")
    tm = mod.assigns["type_map"]
    keys = [norm(k) for k in tm.keys] if isinstance(tm, ast.Dict) else []
    if not keys or not all(k.startswith("DefaultValue.") for k in keys):
        raise AnalysisError("type_map: keys are not DefaultValue members")
    sites = [c for c in ast.walk(mod.tree) if isinstance(c, ast.Call)
             and norm(c.func) in ("type_map.get", "type_map.__getitem__")
             and c.args]
    sites += [s.slice for s in ast.walk(mod.tree)
              if isinstance(s, ast.Subscript) and norm(s.value) == "type_map"]
    n = 0
    for c in sites:
        k = c.args[0] if isinstance(c, ast.Call) else c
        n += 1
        res.instance(f"type_map-lookup:{getattr(k, 'lineno', 0)}", mod.loc(k),
                     lookup_key=norm(k))
        res.oblige(isinstance(k, ast.Attribute)
                   and k.attr == "default_value_type",
                   f"type_map-lookup:{norm(k)}", mod.loc(k),
                   f"the listener kind is looked up with `{norm(k)}`; the "
                   f"table is keyed by DefaultValue kinds, i.e. by a "
                   f"handler's `default_value_type` (the sibling site uses "
                   f"it): any other attribute reads as None and a container "
                   f"trait is hooked as a simple link - its items are never "
                   f"reached")
    res.floor(1)


# ---------------------------------------------------------------------------
# C16.maintenance-dispatch: besides the user's handler, every `_register_*`
# installs the listener's own link-maintenance handlers (handle_simple /
# handle_list / handle_dict / ..._items / handle_error), which move the next
# listener from what left to what arrived.  They must run synchronously and
# must see every change including (Uninitialized -> default): that is what
# dispatch="extended" gives.  The user's dispatch ("same" filters the default
# event, "ui" / "new" run later on another thread) is for the user's handler
# only.  The sibling `_register_*` methods must agree on this.

@rule("C16.maintenance-dispatch", ["C16"],
      "every _register_* method installs the listener's own link-maintenance "
      "handlers with dispatch='extended' (never the user's dispatch)")
def maintenance_dispatch(ctx, res):
    repo = get_pyrepo(ctx)
    mod = repo.module(TL)
    cls = repo.cls(TL, "ListenerItem")
    # the maintenance handlers: own handle_* methods that move the next
    # listener (they mention self.next), directly or through another one
    maint = set()
    for _ in range(3):
        for m_, f_ in cls.methods.items():
            if not m_.startswith("handle_") or f_ is None:
                continue
            t_ = ast.unparse(f_)
            if "self.next" in t_ or any(f"self.{x}(" in t_ for x in maint):
                maint.add(m_)
    if len(maint) < 4:
        raise AnalysisError(f"ListenerItem: maintenance handlers {maint}")
    n = 0
    done = set()
    for meth, fn in sorted(cls.methods.items()):
        if not meth.startswith("_register_") or fn is None or id(fn) in done:
            continue
        done.add(id(fn))
        # locals that can hold a maintenance handler
        own = set()
        for a in ast.walk(fn):
            if isinstance(a, ast.Assign) and isinstance(a.value, ast.Attribute) \
                    and isinstance(a.value.value, ast.Name) \
                    and a.value.value.id == "self" and a.value.attr in maint:
                own |= {t.id for t in a.targets if isinstance(t, ast.Name)}
        for c in ast.walk(fn):
            if not (isinstance(c, ast.Call) and isinstance(c.func, ast.Attribute)
                    and c.func.attr == "_on_trait_change" and c.args):
                continue
            h = c.args[0]
            is_own = (isinstance(h, ast.Name) and h.id in own) or (
                isinstance(h, ast.Attribute) and isinstance(h.value, ast.Name)
                and h.value.id == "self" and h.attr in maint)
            if not is_own:
                continue
            n += 1
            d = next((k.value for k in c.keywords if k.arg == "dispatch"), None)
            key = f"ListenerItem.{meth}:{norm(h)}"
            res.instance(key, mod.loc(c))
            res.oblige(isinstance(d, ast.Constant) and d.value == "extended",
                       key + ":dispatch", mod.loc(c),
                       f"{meth} installs the link-maintenance handler "
                       f"`{norm(h)}` with dispatch="
                       f"`{norm(d) if d is not None else 'default'}`"
                       f": the maintenance then inherits the user's "
                       f"dispatch - the (Uninitialized -> default) event is "
                       f"filtered (deferred listeners never reach a default "
                       f"value) and 'ui'/'new' run it on another thread; the "
                       f"sibling _register_* methods use 'extended'")
    res.floor(5)


# ---------------------------------------------------------------------------
# who may write the `notify` flag of a listener node

@rule("C16.notify-writer", ["C16"],
      "the notify flag of a parsed listener node ('.' = notify, ':' = quiet) "
      "is set only through the node's own polymorphic set_notify(): a group "
      "forwards it to its items, a plain attribute store on a group is "
      "ignored")
def notify_writer(ctx, res):
    repo = get_pyrepo(ctx)
    mod = repo.module(TL)
    setters = []
    for cname, cls in mod.classes.items():
        fn = cls.methods.get("set_notify")
        if fn is not None:
            setters.append((cname, fn))
    if len(setters) < 2:
        raise AnalysisError("set_notify implementations not found")
    par = {}
    for fn_owner in ast.walk(mod.tree):
        if isinstance(fn_owner, (ast.FunctionDef, ast.AsyncFunctionDef)):
            for x in ast.walk(fn_owner):
                par.setdefault(id(x), fn_owner)
    stores = [t for n in ast.walk(mod.tree)
              if isinstance(n, (ast.Assign, ast.AugAssign, ast.AnnAssign))
              for t in (n.targets if isinstance(n, ast.Assign) else [n.target])
              if isinstance(t, ast.Attribute) and t.attr == "notify"]
    calls = [c for c in ast.walk(mod.tree) if isinstance(c, ast.Call)
             and isinstance(c.func, ast.Name) and c.func.id == "setattr"
             and len(c.args) >= 2 and isinstance(c.args[1], ast.Constant)
             and c.args[1].value == "notify"]
    res.instance("set_notify", mod.loc(setters[0][1]),
                 implementations=[c for c, _ in setters], stores=len(stores))
    ok = True
    for t in stores + calls:
        owner = par.get(id(t))
        inside = owner is not None and owner.name in ("set_notify", "__init__") \
            and isinstance(t, ast.Attribute) \
            and isinstance(t.value, ast.Name) \
            and t.value.id == owner.args.args[0].arg
        if not inside:
            ok = False
            res.violation(f"notify-store:{owner.name if owner else 'module'}",
                          mod.loc(t),
                          f"`{norm(t)[:50]}` writes the notify flag of a "
                          f"listener node directly (in "
                          f"{owner.name if owner else 'module code'}): a "
                          f"ListenerGroup keeps no flag of its own and "
                          f"forwards set_notify() to its items, so a ':' "
                          f"after a bracketed group would still notify")
    uses = [c for c in ast.walk(mod.tree) if isinstance(c, ast.Call)
            and isinstance(c.func, ast.Attribute)
            and c.func.attr == "set_notify"]
    res.oblige(len(uses) >= 2, "set_notify:used", mod.loc(setters[0][1]),
               "the parser no longer sets the notify flag through "
               "set_notify()")
    if ok:
        res.oblige(True, "notify-store", "", "")
    res.floor(1)


# ---------------------------------------------------------------------------
# round-6 clauses

@rule("C16.maintenance-unfiltered", ["C16"],
      "the notify wrapper behind dispatch='extended' - the one that carries "
      "the listener's own link-maintenance handlers - delivers every change "
      "event: it applies no change filter (an intermediate object replaced by "
      "an *equal* one must still be re-hooked)")
def maintenance_unfiltered(ctx, res):
    repo = get_pyrepo(ctx)
    TN_ = "traits/trait_notifiers.py"
    mod = repo.module(TN_)
    # which class serves 'extended'
    target = None
    for a in ast.walk(repo.module(HT).tree):
        if isinstance(a, ast.Dict):
            for k, v in zip(a.keys, a.values):
                if isinstance(k, ast.Constant) and k.value == "extended" \
                        and isinstance(v, ast.Name):
                    target = v.id
    if target is None or target not in mod.classes:
        raise AnalysisError("dispatch table entry for 'extended' not found")
    cls = mod.classes[target]
    res.instance(target, mod.loc(cls.node))
    ok = True
    for mname in ("_dispatch_change_event", "__call__", "dispatch"):
        fn = cls.methods.get(mname)
        if fn is None:
            continue
        for c in ast.walk(fn):
            if isinstance(c, ast.Call) and isinstance(c.func, ast.Name) \
                    and c.func.id == "_change_accepted":
                ok = False
                res.violation(f"{target}.{mname}:filtered", mod.loc(c),
                              f"{target}.{mname} consults _change_accepted: "
                              f"the link-maintenance handlers of "
                              f"on_trait_change are installed with "
                              f"dispatch='extended' and must see every "
                              f"change - a link replaced by an equal (but "
                              f"different) object would keep the listener on "
                              f"the old object and miss the new one")
    if ok:
        res.oblige(True, target, "", "")
    res.floor(1)


@rule("C16.table-entry-lifetime", ["C16"],
      "the per-name entry of an object's listener table is deleted only once "
      "its wrapper list is empty: collecting (or removing) one registration "
      "must not evict the others filed under the same extended name")
def table_entry_lifetime(ctx, res):
    repo = get_pyrepo(ctx)
    from ..pyfacts import atomic_facts, normalize_guards
    sites = [(TL, "ListenerNotifyWrapper.listener_deleted"),
             (HT, "HasTraits.on_trait_change")]
    n = 0
    for rel, qual in sites:
        mod = repo.module(rel)
        fn = normalize_guards(repo.func(rel, qual))
        # the local bound to the per-object table (…get(TraitsListener…) /
        # setdefault) and the local bound to one name's wrapper list
        table = lst = None
        for a in ast.walk(fn):
            if isinstance(a, ast.Assign) and len(a.targets) == 1 \
                    and isinstance(a.targets[0], ast.Name):
                v = norm(a.value)
                if "TraitsListener" in v and "__dict__" in v:
                    table = a.targets[0].id
        if table is None:
            raise AnalysisError(f"{qual}: listener table local not found")
        par = {}
        for p_ in ast.walk(fn):
            for c_ in ast.iter_child_nodes(p_):
                par[id(c_)] = p_
        dels = []
        for x in ast.walk(fn):
            if isinstance(x, ast.Delete):
                for t in x.targets:
                    if isinstance(t, ast.Subscript) and norm(t.value) == table:
                        dels.append((x, "del"))
            if isinstance(x, ast.Call) and isinstance(x.func, ast.Attribute) \
                    and x.func.attr in ("pop", "popitem", "clear") \
                    and norm(x.func.value) == table:
                dels.append((x, x.func.attr))
        res.instance(qual, mod.loc(fn), deletions=len(dels))
        n += 1
        ok = True
        for x, how in dels:
            guards = []
            y = par.get(id(x))
            prev = x
            while y is not None and y is not fn:
                if isinstance(y, ast.If):
                    in_body = any(prev is b or any(prev is z for z in ast.walk(b))
                                  for b in y.body)
                    guards.append(atomic_facts(fn, y.test, in_body))
                prev = y
                y = par.get(id(y))
            emptiness = any(
                any((t == "T" and (a.startswith("len(") and a.endswith(") == 0")))
                    or (t == "F" and not a.startswith("len(")
                        and " " not in a and a != table)
                    or (t == "T" and a.startswith("not "))
                    for t, a in g) for g in guards)
            if not emptiness:
                ok = False
                res.violation(f"{qual}:entry-deleted-unconditionally",
                              mod.loc(x),
                              f"{qual} removes the per-name entry of the "
                              f"listener table (`{norm(x)[:50]}`) without "
                              f"having found its wrapper list empty: the "
                              f"other registrations under that extended name "
                              f"disappear from the table - they stop being "
                              f"maintained and can no longer be removed")
        if ok:
            res.oblige(True, qual, "", "")
    res.floor(2)


# ---------------------------------------------------------------------------
# C16.dst-dispatch: a change of an intermediate link reaches the handler

@rule("C16.dst-dispatch", ["C16"],
      "ListenerItem.handle_dst - the handler of a '.' link for handlers that "
      "take the destination's (object, name, old, new) - calls the user's "
      "handler on every path, except when the link had no value before "
      "(`old is Uninitialized`: the first materialisation is not a change) or "
      "the handler has been garbage collected; any other way of returning "
      "silently (old is None, new is None, an equality test) loses a "
      "notification that observe() delivers")
def dst_dispatch(ctx, res):
    from ..cfg import enumerate_paths
    from ..pycfg import build_cfg
    from ..pyfacts import atomic_facts
    repo = get_pyrepo(ctx)
    mod = repo.module(TL)
    fn = repo.inlined(TL, "ListenerItem.handle_dst")
    ps = [a.arg for a in fn.args.args]
    if len(ps) < 5:
        raise AnalysisError("handle_dst signature")
    oldp = ps[3]
    # the local(s) holding the dereferenced handler
    whs = {a.targets[0].id for a in ast.walk(fn)
           if isinstance(a, ast.Assign) and isinstance(a.targets[0], ast.Name)
           and "wrapped_handler_ref" in norm(a.value)}
    if not whs:
        raise AnalysisError("handle_dst: wrapped handler not dereferenced")

    def is_dispatch(n):
        return any(isinstance(c, ast.Call) and (
            (isinstance(c.func, ast.Name) and c.func.id in whs)
            or "wrapped_handler_ref()(" in norm(c))
            for c in ast.walk(n)) if n is not None else False
    allowed = {("F", f"{oldp} is not Uninitialized"),
               ("T", f"{oldp} is Uninitialized")}
    for w in whs:
        allowed |= {("F", f"{w} is not None"), ("T", f"{w} is None")}
    g = build_cfg(fn, "handle_dst")
    n_paths = n_disp = 0
    bad = None
    for path in enumerate_paths(g, max_paths=4000):
        if path and path[-1][0] == g.raise_exit.id:
            continue
        n_paths += 1
        facts, did = set(), False
        for nid, lab in path:
            nd = g.nodes[nid]
            if nd.kind == "cond" and lab in ("T", "F"):
                facts |= atomic_facts(fn, nd.ast, lab == "T")
            elif nd.kind != "cond" and is_dispatch(nd.ast):
                did = True
        if did:
            n_disp += 1
            continue
        if not (facts & allowed) and bad is None:
            bad = sorted(f"{t}:{a}" for t, a in facts)
    res.instance("ListenerItem.handle_dst", mod.loc(fn), paths=n_paths,
                 dispatching=n_disp)
    if n_disp < 1:
        raise AnalysisError("handle_dst: no path calls the handler")
    res.oblige(bad is None, "handle_dst:silent-reason", mod.loc(fn),
               f"handle_dst can return without calling the handler on a path "
               f"whose tests are {bad}: none of them says that the link had "
               f"no previous value or that the handler is dead - a change of "
               f"the link (for instance from None to an object) is not "
               f"reported to (new) / (name, new) handlers")
    res.floor(1)
