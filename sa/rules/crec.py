"""C18.recursion-bound: no unbounded recursion that stays inside C."""
from __future__ import annotations

from ..cexpr import callee, strip
from ..cfacts import CREL, get_cfacts
from ..core import AnalysisError, rule

# recursion guards recognised.  The interpreter's own counter must dominate
# the recursive call it protects (a guard around one of two recursive calls
# protects only that one); the repo's hop-counter idiom is recognised per
# function.
DOMINATING_GUARDS = {"Py_EnterRecursiveCall": "CPython's C recursion counter"}
GUARD_CALLS = {
    "delegation_recursion_error": "explicit hop counter of the delegation "
                                  "loops (bounded at 100 hops)",
}
# cycles that are bounded by construction, with the reason
BOUNDED_BY_CONSTRUCTION = {
    frozenset(["validate_trait_tuple_check", "validate_trait_tuple",
               "validate_trait_complex"]):
        "recursion over the nesting of a trait *definition* (Tuple/compound "
        "descriptors built by Python code as finite trees)",
}


def _slot_functions(facts, cast):
    out = set()
    for d in facts.decls:
        if d.kind == "VarDecl" and "PyTypeObject" in (d.type or ""):
            for x in d.walk():
                if x.kind == "CStyleCastExpr" and cast in (x.type or ""):
                    for r in x.walk():
                        if r.kind == "DeclRefExpr" \
                                and r.refkind == "FunctionDecl":
                            out.add(r.ref)
    return out


def _field_tables(facts):
    gs = facts.func("_trait_getstate")
    ft = {}
    from ..cfacts import func_index_calls
    for c, a0, a1, _boxed in func_index_calls(facts, gs):
        if a0.kind == "MemberExpr" and a1.kind == "DeclRefExpr":
            ft[a0.name] = a1.ref
    if len(ft) < 4:
        raise AnalysisError("function-pointer field tables not found")
    return ft


# calls that run a Python callable: CPython bounds recursion through them
# (frame depth for Python functions, Py_EnterRecursiveCall in tp_call)
PY_INVOKERS = {"PyObject_Call", "PyObject_CallMethod", "PyObject_CallObject",
               "PyObject_CallFunction", "PyObject_CallFunctionObjArgs",
               "PyObject_CallMethodObjArgs", "PyObject_CallOneArg",
               "PyObject_CallNoArgs"}


def _dominated_by_python_call(ctx, facts, fname):
    """ids of the CallExprs of ``fname`` that are dominated by a call of a
    Python callable, or by Py_EnterRecursiveCall, made earlier in the same
    activation"""
    from ..ccfg import get_ccfg
    g = get_ccfg(ctx, facts, fname)
    dom = g.dominators()
    calls_in = {}
    for n in g.nodes:
        if n.ast is None:
            continue
        calls_in[n.id] = [x for x in n.ast.walk() if x.kind == "CallExpr"]
    has_py = {nid for nid, cs in calls_in.items()
              if any(callee(c) in PY_INVOKERS or callee(c) in DOMINATING_GUARDS
                     for c in cs)}
    out = set()
    for nid, cs in calls_in.items():
        if nid not in dom:
            continue
        if (dom[nid] - {nid}) & has_py:
            out |= {id(c) for c in cs}
    return out


def c_call_graph(facts, ctx=None):
    ft = _field_tables(facts)
    slots = {"tp_getattro": _slot_functions(facts, "getattrofunc"),
             "tp_setattro": _slot_functions(facts, "setattrofunc")}
    defined = set(facts.defined_functions())
    edges = {f: {} for f in defined}
    for f in defined:
        shielded = None
        for x in facts.func(f).walk():
            if x.kind != "CallExpr":
                continue
            c = callee(x)
            if ctx is not None and (c in defined or c.startswith("->")):
                if shielded is None:
                    shielded = _dominated_by_python_call(ctx, facts, f)
                if id(x) in shielded:
                    continue    # each round passes through a Python call
            tgt = []
            how = "direct"
            if c in defined:
                tgt = [c]
            elif c.startswith("->"):
                fld = c[2:]
                if fld in ft:
                    tgt = [m for m in facts.table(ft[fld]) if m in defined]
                    how = f"through the {fld} slot"
                elif fld in slots:
                    tgt = sorted(slots[fld])
                    how = f"through {fld}"
            for t in tgt:
                edges[f].setdefault(t, (how, x.line))
    return edges


def _sccs(edges):
    index, low, onst, st, out = {}, {}, set(), [], []
    counter = [0]
    import sys
    sys.setrecursionlimit(10000)

    def go(v):
        index[v] = low[v] = counter[0]
        counter[0] += 1
        st.append(v)
        onst.add(v)
        for w in edges[v]:
            if w not in index:
                go(w)
                low[v] = min(low[v], low[w])
            elif w in onst:
                low[v] = min(low[v], index[w])
        if low[v] == index[v]:
            comp = []
            while True:
                w = st.pop()
                onst.discard(w)
                comp.append(w)
                if w == v:
                    break
            out.append(comp)
    for v in sorted(edges):
        if v not in index:
            go(v)
    return out


@rule("C18.recursion-bound", ["C18", "C11"],
      "every recursion cycle that stays inside the extension (direct calls, "
      "handler slots, tp_getattro/tp_setattro of its own types - no Python "
      "frame in between) contains a recursion guard: cyclic delegation must "
      "end in an exception, not in a C stack overflow")
def recursion_bound(ctx, res):
    facts = get_cfacts(ctx)
    edges = c_call_graph(facts, ctx)
    n_cyc = 0
    for comp in _sccs(edges):
        cyc = len(comp) > 1 or comp[0] in edges[comp[0]]
        if not cyc:
            continue
        n_cyc += 1
        comp = sorted(comp)
        key = "cycle:" + "+".join(comp)[:120]
        guards = {}
        for f in comp:
            for x in facts.func(f).walk():
                if x.kind == "CallExpr" and callee(x) in GUARD_CALLS:
                    guards[f] = callee(x)
        res.instance(key, facts.loc(facts.func(comp[0])), functions=comp,
                     guards=guards)
        why = None
        for fs, reason in BOUNDED_BY_CONSTRUCTION.items():
            if set(comp) <= fs:
                why = reason
        if why is None:
            # the same recursion with a step extracted into a helper: the
            # additional members are validator helpers (validate_*) and the
            # cycle still runs through the documented core
            for fs, reason in BOUNDED_BY_CONSTRUCTION.items():
                extra = set(comp) - fs
                if set(comp) & fs and extra and all(
                        f.startswith("validate_") for f in extra):
                    why = reason + " (with extracted helper(s) " \
                        + ", ".join(sorted(extra)) + ")"
        if why:
            res.note(f"{key}: bounded by construction - {why}")
            res.oblige(True, key, "", "")
            continue
        # every simple cycle must pass through a guarded function: remove the
        # guarded functions and look for a remaining cycle
        rest = {f: {t: v for t, v in edges[f].items()
                    if t in comp and t not in guards}
                for f in comp if f not in guards}
        bad = None
        for sub in _sccs(rest):
            if len(sub) > 1 or sub[0] in rest[sub[0]]:
                bad = sorted(sub)
                break
        if bad is None:
            res.oblige(True, key, "", "")
            continue
        # witness: one cycle
        path, cur, seen = [bad[0]], bad[0], {bad[0]}
        while True:
            nxt = [t for t in rest[cur] if t in bad]
            t = next((x for x in nxt if x == path[0]), None) if len(path) > 1 \
                or path[0] in nxt else None
            if t is not None:
                path.append(t)
                break
            t = next((x for x in nxt if x not in seen), None)
            if t is None:
                path.append(nxt[0])
                break
            path.append(t)
            seen.add(t)
            cur = t
        hops = []
        for a, b in zip(path, path[1:]):
            how, line = rest[a][b]
            hops.append(f"{a} -> {b} ({how}, line {line})")
        res.violation("unguarded:" + "+".join(bad)[:100],
                      f"{CREL}:{rest[path[0]][path[1]][1]}",
                      "recursion cycle without a guard, entirely in C: "
                      + "; ".join(hops) + " - objects that defer to each "
                      "other (a delegation cycle) overflow the C stack and "
                      "crash the interpreter instead of raising",
                      [f"{CREL}:{rest[a][b][1]}" for a, b in zip(path, path[1:])])
    res.floor(2)


@rule("C18.recursion-pairing", ["C18"],
      "every successful Py_EnterRecursiveCall is matched by exactly one "
      "Py_LeaveRecursiveCall on every exit of the function (a missing one "
      "leaks a level of the interpreter's recursion budget per call)")
def recursion_pairing(ctx, res):
    from ..csym import cached_paths, flush_paths
    facts = get_cfacts(ctx)
    n = 0
    for fname in facts.defined_functions():
        if not any(x.kind == "CallExpr" and callee(x) == "Py_EnterRecursiveCall"
                   for x in facts.func(fname).walk()):
            continue
        n += 1
        ps = cached_paths(ctx, facts, fname)
        if ps is None:
            raise AnalysisError(f"{fname}: too many paths")
        res.instance(fname, facts.loc(facts.func(fname)), paths=len(ps))
        bad = None
        for p in ps:
            depth = 0
            for it in p.trace:
                if it[0] == "atom" and isinstance(it[2], bool) \
                        and it[1].startswith("Py_EnterRecursiveCall("):
                    if it[2] is False:
                        depth += 1          # entered
                elif it[0] == "call" and it[1] == "Py_LeaveRecursiveCall":
                    depth -= 1
                    if depth < 0 and bad is None:
                        bad = (p, "leaves a recursion level it never entered",
                               it[4])
            if depth > 0 and bad is None and p.outcome[0] == "RETURN":
                bad = (p, "returns without Py_LeaveRecursiveCall after a "
                          "successful Py_EnterRecursiveCall",
                       p.lines[-1] if p.lines else 0)
        res.oblige(bad is None, f"{fname}:enter-leave",
                   f"{CREL}:{bad[2]}" if bad else "",
                   f"{fname} {bad[1] if bad else ''}",
                   [f"{CREL}:{l}" for l in dict.fromkeys(bad[0].lines) if l]
                   if bad else None)
    flush_paths(ctx)
    if n == 0:
        res.note("no function uses Py_EnterRecursiveCall")
        res.instance("(none)", CREL)
