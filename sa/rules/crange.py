"""C01.range-table / C03.range / C01.mask-encoding: complete decision tables of
the range tests (C and Python) over the ordering domain."""
from __future__ import annotations

import ast
import itertools

from .. import dt
from ..ccfg import get_ccfg
from ..cexpr import (callee, cnorm, find_assign_in, int_value, is_null,
                     strip, var)
from ..cfacts import CREL, get_cfacts
from ..core import AnalysisError, rule
from ..pycfg import build_cfg
from ..pyfacts import get_pyrepo, is_self_call, norm

TT = "traits/trait_types.py"


def spec_accepts(v):
    lo_ok = v["low_none"] or v["rel_low"] == dt.GT or (
        v["rel_low"] == dt.EQ and not v["ex_low"])
    hi_ok = v["high_none"] or v["rel_high"] == dt.LT or (
        v["rel_high"] == dt.EQ and not v["ex_high"])
    return lo_ok and hi_ok


def valuations():
    for ln, hn, el, eh, rl, rh in itertools.product(
            (False, True), (False, True), (False, True), (False, True),
            dt.REL, dt.REL):
        yield dict(low_none=ln, high_none=hn, ex_low=el, ex_high=eh,
                   rel_low=rl, rel_high=rh)


def describe(v):
    return (f"low={'None' if v['low_none'] else 'value ' + v['rel_low'] + ' low'}"
            f"{' (exclusive)' if v['ex_low'] else ''}, "
            f"high={'None' if v['high_none'] else 'value ' + v['rel_high'] + ' high'}"
            f"{' (exclusive)' if v['ex_high'] else ''}")


# ---------------------------------------------------------------------------
# mask encoding (Python writer)

def mask_encoding(ctx):
    """{'ex_low': bit, 'ex_high': bit} and descriptor slots from
    BaseRange.__init__."""
    repo = get_pyrepo(ctx)
    fn = repo.func(TT, "BaseRange.__init__")
    bits = {}
    for n in ast.walk(fn):
        if isinstance(n, ast.If) and isinstance(n.test, ast.Name) \
                and n.test.id in ("exclude_low", "exclude_high") \
                and not n.orelse:
            for s in n.body:
                if isinstance(s, ast.AugAssign) and isinstance(s.op, ast.BitOr) \
                        and isinstance(s.value, ast.Constant):
                    bits["ex_low" if n.test.id == "exclude_low"
                         else "ex_high"] = (s.value.value, s.target.id
                                            if isinstance(s.target, ast.Name)
                                            else None)
    if set(bits) != {"ex_low", "ex_high"}:
        raise AnalysisError("BaseRange.__init__: exclude-mask encoding idiom "
                            "`if exclude_x: mask |= K` not found for both flags")
    maskvar = bits["ex_low"][1]
    slots = None
    for n in ast.walk(fn):
        if isinstance(n, ast.Call) and is_self_call(n, "init_fast_validate"):
            names = [a.id if isinstance(a, ast.Name) else None for a in n.args]
            slots = {nm: i for i, nm in enumerate(names) if nm}
    if not slots or not {"low", "high", maskvar} <= set(slots):
        raise AnalysisError("BaseRange.__init__: init_fast_validate(kind, "
                            "low, high, mask) call not found")
    return ({k: v[0] for k, v in bits.items()},
            {"low": slots["low"], "high": slots["high"],
             "mask": slots[maskvar]}, fn)


# ---------------------------------------------------------------------------
# C front end

def c_range_table(ctx):
    facts = get_cfacts(ctx)
    g = get_ccfg(ctx, facts, "in_float_range")
    params = [p.name for p in facts.params("in_float_range")]
    valuep, infop = params[0], params[1]
    bits, slots, _ = mask_encoding(ctx)
    # roles of the locals from the descriptor slot they are loaded from
    role_of_var = {valuep: "value"}
    for node in g.nodes:
        if node.ast is None:
            continue
        for name, rhs in find_assign_in(node.ast):
            idx = None
            for x in rhs.walk():
                if x.kind == "ArraySubscriptExpr" and "ob_item" in cnorm(x.ch[0]) \
                        and infop in cnorm(x.ch[0]):
                    idx = int_value(x.ch[1])
            if idx is not None:
                for role, slot in slots.items():
                    if slot == idx:
                        role_of_var[name] = role
    # locals that hold the unboxed double of a variable with a role
    fn_ast = facts.func("in_float_range")
    for _ in range(3):
        for x in fn_ast.walk():
            name = rhs = None
            if x.kind == "VarDecl" and x.ch:
                name, rhs = x.name, x.ch[-1]
            elif x.kind == "BinaryOperator" and x.op == "=" \
                    and var(x.ch[0]) is not None:
                name, rhs = var(x.ch[0]), x.ch[1]
            if name is None or name in role_of_var:
                continue
            r = strip(rhs)
            src = None
            if r.kind == "CallExpr" and callee(r) in ("PyFloat_AS_DOUBLE",
                                                      "PyFloat_AsDouble"):
                src = var(r.ch[1])
            elif r.kind == "MemberExpr" and r.name == "ob_fval":
                src = var(r.ch[0])
            elif var(r) is not None:
                src = var(r)
            if src in role_of_var and role_of_var[src] != "mask":
                role_of_var[name] = role_of_var[src]
    # a scratch local that is re-used for several operands (`bound = low's
    # double; ...; bound = high's double`): its role at a use is that of the
    # textually last assignment before the use (the function has no loops)
    multi_roles = {}
    for x in fn_ast.walk():
        name = rhs = None
        if x.kind == "VarDecl" and x.ch:
            name, rhs = x.name, x.ch[-1]
        elif x.kind == "BinaryOperator" and x.op == "=" \
                and var(x.ch[0]) is not None:
            name, rhs = var(x.ch[0]), x.ch[1]
        if name is None:
            continue
        r = strip(rhs)
        src = None
        if r.kind == "CallExpr" and callee(r) in ("PyFloat_AS_DOUBLE",
                                                  "PyFloat_AsDouble"):
            src = var(r.ch[1])
        elif r.kind == "MemberExpr" and r.name == "ob_fval":
            src = var(r.ch[0])
        elif var(r) is not None:
            src = var(r)
        if src in role_of_var and role_of_var[src] in ("low", "high", "value"):
            multi_roles.setdefault(name, []).append(
                (x.line or 0, role_of_var[src]))
    multi_roles = {k: sorted(v) for k, v in multi_roles.items()
                   if len({r for _, r in v}) > 1}
    if any(g.has_back_edge() for _ in [0]) if hasattr(g, "has_back_edge") \
            else False:
        multi_roles = {}
    # locals assigned exactly once (flags computed from the mask, ...)
    _defs = {}
    for x in fn_ast.walk():
        if x.kind == "VarDecl" and x.ch:
            _defs.setdefault(x.name, []).append(x.ch[-1])
        elif x.kind == "BinaryOperator" and x.op == "=" \
                and var(x.ch[0]) is not None:
            _defs.setdefault(var(x.ch[0]), []).append(x.ch[1])
    local_defs = {k: v[0] for k, v in _defs.items() if len(v) == 1}
    if set(role_of_var.values()) != {"value", "low", "high", "mask"}:
        raise AnalysisError(f"in_float_range: could not resolve low/high/mask "
                            f"from the descriptor slots ({role_of_var})")

    def outcome(node):
        if node.kind == "return":
            v = int_value(node.ast.ch[0]) if node.ast.ch else None
            if v is None:
                raise AnalysisError("in_float_range returns a non-constant")
            return ("RET", v)
        return None

    rows = dt.rows_from_cfg(g, outcome, with_stmts=True)
    # flow-sensitive view of the int/double locals along one row: a scratch
    # double gets the role of the operand last loaded into it, an int local
    # the truth value of the test last assigned to it
    flow = {"role": {}, "flag": {}}

    def operand_role(e):
        e = strip(e)
        if e.kind == "CallExpr" and callee(e) in ("PyFloat_AS_DOUBLE",
                                                  "PyFloat_AsDouble"):
            e = strip(e.ch[1])
        elif e.kind == "MemberExpr" and e.name == "ob_fval":
            e = strip(e.ch[0])
        v = var(e)
        if v in flow["role"]:
            return flow["role"][v]
        if v in multi_roles:
            line = e.line or 0
            cur = None
            for ln, role in multi_roles[v]:
                if ln <= line:
                    cur = role
            return cur
        return role_of_var.get(v)

    def interp_for(val):
        mask = (bits["ex_low"] if val["ex_low"] else 0) | (
            bits["ex_high"] if val["ex_high"] else 0)

        flow["role"].clear()
        flow["flag"].clear()

        def interp(node):
            return ev(node.ast)

        def assign(node):
            """a statement on the row: remember what an int/double local
            holds from here on"""
            for name, rhs in find_assign_in(node.ast):
                if name in role_of_var and name not in multi_roles:
                    continue
                r = strip(rhs)
                src = None
                if r.kind == "CallExpr" and callee(r) in (
                        "PyFloat_AS_DOUBLE", "PyFloat_AsDouble"):
                    src = var(r.ch[1])
                elif r.kind == "MemberExpr" and r.name == "ob_fval":
                    src = var(r.ch[0])
                if src in role_of_var and role_of_var[src] in (
                        "low", "high", "value"):
                    flow["role"][name] = role_of_var[src]
                    flow["flag"].pop(name, None)
                    continue
                v_ = ev(rhs)
                if v_ is not None and not isinstance(v_, tuple) and v_ != "ANY":
                    flow["flag"][name] = bool(v_)
                elif isinstance(v_, tuple):
                    flow["flag"][name] = v_
                else:
                    flow["flag"].pop(name, None)
        interp.assign = assign
        interp.reset = lambda: (flow["role"].clear(), flow["flag"].clear())

        def ev(e):
            e = strip(e)
            if e.kind == "DeclRefExpr" and e.ref in flow["flag"]:
                return flow["flag"][e.ref]
            if e.kind == "DeclRefExpr" and e.ref in local_defs \
                    and e.ref not in role_of_var:
                # a flag local: `int exclude_low = (mask & 1) != 0;`
                return ev(local_defs[e.ref])
            if e.kind == "ConditionalOperator" and len(e.ch) == 3:
                c = ev(e.ch[0])
                if c is None or isinstance(c, tuple):
                    return c
                return ev(e.ch[1]) if c else ev(e.ch[2])
            if e.kind == "UnaryOperator" and e.op == "!":
                v = ev(e.ch[0])
                return v if v is None or isinstance(v, tuple) or v == "ANY" else not v
            if e.kind == "BinaryOperator" and e.op in ("&&", "||"):
                a = ev(e.ch[0])
                if a is None or isinstance(a, tuple):
                    return a
                if (e.op == "&&") != bool(a):
                    return bool(a)
                return ev(e.ch[1])
            if e.kind == "CallExpr" and callee(e) == "PyErr_Occurred":
                return False
            if e.kind == "BinaryOperator" and e.op in ("==", "!=", "<", "<=",
                                                       ">", ">="):
                l, r = strip(e.ch[0]), strip(e.ch[1])
                # None tests
                for a, b in ((l, r), (r, l)):
                    if cnorm(b) == "&_Py_NoneStruct" and \
                            role_of_var.get(var(a)) in ("low", "high"):
                        is_none = val[role_of_var[var(a)] + "_none"]
                        return is_none if e.op == "==" else not is_none
                    # a tuple item is never NULL
                    if is_null(b) and role_of_var.get(var(a)) in ("low", "high") \
                            and e.op in ("==", "!="):
                        return e.op == "!="
                # mask tests: (mask & K) != 0, mask == K
                if l.kind == "BinaryOperator" and l.op == "&":
                    a, b = strip(l.ch[0]), strip(l.ch[1])
                    k = int_value(b) if role_of_var.get(var(a)) == "mask" \
                        else int_value(a)
                    rv = int_value(r)
                    if k is not None and rv is not None:
                        return dt.cmp_holds(e.op, _rel(mask & k, rv))
                if role_of_var.get(var(l)) == "mask" and int_value(r) is not None:
                    return dt.cmp_holds(e.op, _rel(mask, int_value(r)))
                # ordering atoms
                lr, rr = operand_role(l), operand_role(r)
                if {lr, rr} in ({"value", "low"}, {"value", "high"}):
                    bound = "low" if "low" in (lr, rr) else "high"
                    if val[bound + "_none"]:
                        return ("NONE-COMPARE", bound)
                    rel = val["rel_" + bound]       # rel(value, bound)
                    if lr != "value":
                        rel = dt.FLIP[rel]
                    return dt.cmp_holds(e.op, rel)
                return None
            if e.kind == "BinaryOperator" and e.op == "&":
                a, b = strip(e.ch[0]), strip(e.ch[1])
                k = int_value(b) if role_of_var.get(var(a)) == "mask" \
                    else int_value(a)
                if k is not None:
                    return (mask & k) != 0
            return None
        return interp
    return rows, interp_for, g


def _rel(a, b):
    return dt.LT if a < b else (dt.GT if a > b else dt.EQ)


# ---------------------------------------------------------------------------
# Python front end

def py_range_table(ctx, method):
    repo = get_pyrepo(ctx)
    mod = repo.module(TT)
    fn = repo.inlined(TT, f"BaseRange.{method}")
    g = build_cfg(fn, f"{TT}:BaseRange.{method}")
    # flags kept in locals (`above_low = ...; if above_low:`)
    _ld = {}
    for a_ in ast.walk(fn):
        if isinstance(a_, ast.Assign) and len(a_.targets) == 1 \
                and isinstance(a_.targets[0], ast.Name):
            _ld.setdefault(a_.targets[0].id, []).append(a_.value)
    flag_defs = {k: v[0] for k, v in _ld.items() if len(v) == 1 and isinstance(
        v[0], (ast.BoolOp, ast.Compare, ast.UnaryOp))}
    params = [a.arg for a in fn.args.args]

    def outcome(node):
        a = node.ast
        if node.kind == "stmt":
            if isinstance(a, ast.Return):
                return ("ACCEPT", norm(a.value) if a.value else None)
            if isinstance(a, ast.Expr) and is_self_call(a.value, "error"):
                return ("REJECT",)
            if isinstance(a, ast.Raise):
                return ("RAISE",)
        return None

    rows = dt.rows_from_cfg(g, outcome)

    def role(e):
        t = norm(e)
        last = t.split(".")[-1]
        if last.endswith("exclude_low"):
            return "ex_low"
        if last.endswith("exclude_high"):
            return "ex_high"
        if last.endswith("low"):
            return "low"
        if last.endswith("high"):
            return "high"
        if isinstance(e, (ast.Name,)):
            return "value"
        return None

    def interp_for(val):
        def interp(node):
            return ev(node.ast)

        def ev(e):
            if isinstance(e, ast.Name) and e.id in flag_defs:
                return ev(flag_defs[e.id])
            if isinstance(e, ast.UnaryOp) and isinstance(e.op, ast.Not):
                v = ev(e.operand)
                return v if v is None or isinstance(v, tuple) or v == "ANY" else not v
            if isinstance(e, ast.BoolOp):
                is_and = isinstance(e.op, ast.And)
                for x in e.values:
                    v = ev(x)
                    if v is None or isinstance(v, tuple) or v == "ANY":
                        return v
                    if bool(v) != is_and:
                        return bool(v)
                return is_and
            if isinstance(e, (ast.Name, ast.Attribute)):
                r = role(e)
                if r in ("ex_low", "ex_high"):
                    return val[r]
                return None
            if isinstance(e, ast.Compare) and len(e.ops) == 1:
                l, r = e.left, e.comparators[0]
                op = e.ops[0]
                if isinstance(op, (ast.Is, ast.IsNot)):
                    for a, b in ((l, r), (r, l)):
                        if isinstance(b, ast.Constant) and b.value is None \
                                and role(a) in ("low", "high"):
                            isn = val[role(a) + "_none"]
                            return isn if isinstance(op, ast.Is) else not isn
                    if isinstance(l, ast.Call) and isinstance(l.func, ast.Name) \
                            and l.func.id == "type":
                        return "ANY"    # exact-type dispatch of a conversion
                    return None
                if type(op) in dt.PY_CMP:
                    lr, rr = role(l), role(r)
                    if {lr, rr} in ({"value", "low"}, {"value", "high"}):
                        bound = "low" if "low" in (lr, rr) else "high"
                        if val[bound + "_none"]:
                            return ("NONE-COMPARE", bound)
                        rel = val["rel_" + bound]
                        if lr != "value":
                            rel = dt.FLIP[rel]
                        return dt.cmp_holds(dt.PY_CMP[type(op)], rel)
                return None
            if isinstance(e, ast.Call) and isinstance(e.func, ast.Name) \
                    and e.func.id == "isinstance":
                # `isinstance(value, str)` in _validate: numeric input
                return False
            if isinstance(e, ast.Compare) and len(e.ops) == 1 \
                    and isinstance(e.ops[0], (ast.Is, ast.IsNot)) \
                    and isinstance(e.left, ast.Call) \
                    and isinstance(e.left.func, ast.Name) \
                    and e.left.func.id == "type":
                # exact-type dispatch of an (inlined) conversion helper: both
                # arms yield the converted number, the range decision does
                # not depend on it
                return "ANY"
            return None
        return interp
    return rows, interp_for, g, mod, fn


def _decide(rows, interp_for, val, accept_outcomes, where):
    """'ACCEPT' / 'REJECT' / ('BAD', reason) for one valuation."""
    interp = interp_for(val)
    matches = []
    for r in rows:
        ok = True
        if hasattr(interp, "reset"):
            interp.reset()
        for node, truth in r.atoms:
            if truth is None:
                if hasattr(interp, "assign"):
                    interp.assign(node)
                continue
            v = interp(node)
            if v is None:
                raise AnalysisError(
                    f"{where}: uninterpretable condition at line {node.line}")
            if v == "ANY":
                continue
            if isinstance(v, tuple):
                return ("BAD", f"compares against a None {v[1]} bound "
                               f"(line {node.line})"), r
            if bool(v) != truth:
                ok = False
                break
        if ok:
            matches.append(r)
    outs = {r.outcome for r in matches}
    if len(outs) != 1:
        raise AnalysisError(f"{where}: table is not deterministic for "
                            f"{describe(val)}: {outs}")
    oc = next(iter(outs))
    return ("ACCEPT" if accept_outcomes(oc) else "REJECT"), matches[0]


@rule("C01.range-table", ["C01", "C03"],
      "complete decision table of the range tests over the ordering domain "
      "{<,=,>,unordered} equals `low <=/< value <=/< high`")
def range_table(ctx, res):
    # ---- C ----------------------------------------------------------------
    rows, interp_for, g = c_range_table(ctx)
    res.instance("in_float_range", f"{CREL}:{g.nodes[g.entry.id].line or ''}",
                 rows=len(rows))
    c_dec = {}
    bad_c = []
    for val in valuations():
        key = tuple(sorted(val.items()))
        d, row = _decide(rows, interp_for, val,
                         lambda oc: oc == ("RET", 1), "in_float_range")
        c_dec[key] = d
        want = "ACCEPT" if spec_accepts(val) else "REJECT"
        ok = d == want
        if isinstance(d, tuple):
            ok = False
        if not ok:
            bad_c.append((val, d, want, row))
        else:
            res.oblige(True, "", "", "")
    _report(res, "in_float_range", CREL, bad_c, "C")
    # ---- Python -------------------------------------------------------------
    py_dec = {}
    for method in ("float_validate", "int_validate", "_validate"):
        prow, pinterp, pg, mod, fn = py_range_table(ctx, method)
        res.instance(f"BaseRange.{method}", mod.loc(fn), rows=len(prow))
        bad_py = []
        for val in valuations():
            if method == "_validate" and val["low_none"] and val["high_none"]:
                continue   # separate isinstance branch, no bound test
            key = tuple(sorted(val.items()))
            d, row = _decide(prow, pinterp, val,
                             lambda oc: oc[0] == "ACCEPT",
                             f"BaseRange.{method}")
            if method == "float_validate":
                py_dec[key] = d
            want = "ACCEPT" if spec_accepts(val) else "REJECT"
            if d != want:
                bad_py.append((val, d, want, row))
            else:
                res.oblige(True, "", "", "")
        _report(res, f"BaseRange.{method}", TT, bad_py, "Python")
    # ---- C == Python (C03.range) ------------------------------------------
    diff = [k for k in c_dec if c_dec[k] != py_dec.get(k)]
    res.oblige(True, "", "", "") if not diff else None
    for k in diff[:8]:
        val = dict(k)
        if c_dec[k] == ("ACCEPT" if spec_accepts(val) else "REJECT") or \
                py_dec[k] == ("ACCEPT" if spec_accepts(val) else "REJECT"):
            continue     # already reported against the criterion above
        res.violation(f"range:C-vs-Python:{_short(val)}", CREL,
                      f"in_float_range gives {c_dec[k]} but "
                      f"BaseRange.float_validate gives {py_dec[k]} for "
                      f"[{describe(val)}]")
    res.floor(4)


def _report(res, func, rel, bad, lang):
    """One finding per function and class of disagreement (ordered rows /
    rows with an unordered operand), carrying every offending row."""
    groups = {}
    for val, d, want, row in bad:
        kind = ("unordered" if dt.UN in (
            (not val["low_none"] and val["rel_low"]),
            (not val["high_none"] and val["rel_high"])) else "ordered")
        if isinstance(d, tuple):
            kind = "none-compare"
        groups.setdefault(kind, []).append((val, d, want, row))
    for kind, items in sorted(groups.items()):
        val, d, want, row = items[0]
        res.violation(
            f"{func}:{kind}", f"{rel}:{row.lines[-1] if row.lines else 0}",
            f"{lang} range test gives {d} for [{describe(val)}] but the "
            f"declared criterion `low <=/< value <=/< high` says {want} "
            f"({len(items)} abstract rows of this kind disagree: "
            f"{', '.join(_short(i[0]) for i in items[:12])})",
            [f"{rel}:{l}" for l in row.lines if l],
            extra={"rows": [_short(i[0]) for i in items]})


def _short(v):
    return (f"{'N' if v['low_none'] else v['rel_low']}"
            f"{'x' if v['ex_low'] else ''}-"
            f"{'N' if v['high_none'] else v['rel_high']}"
            f"{'x' if v['ex_high'] else ''}")


@rule("C01.mask-encoding", ["C01", "C03"],
      "the exclude-mask bits written by BaseRange.__init__ are the bits "
      "in_float_range tests with the low resp. high comparisons")
def mask_rule(ctx, res):
    bits, slots, fn = mask_encoding(ctx)
    res.instance("BaseRange.__init__:mask", f"{TT}:{fn.lineno}", bits=bits,
                 slots=slots)
    res.oblige(bits["ex_low"] != bits["ex_high"]
               and bits["ex_low"] & bits["ex_high"] == 0,
               "BaseRange.__init__:mask-bits", f"{TT}:{fn.lineno}",
               f"exclude_low/exclude_high are encoded with overlapping bits "
               f"{bits}")
    # the C reader side is decided by C01.range-table (roles are taken from
    # this encoding); here: the descriptor slots read by the C function exist
    facts = get_cfacts(ctx)
    f = facts.func("in_float_range")
    idxs = set()
    for x in f.walk():
        if x.kind == "ArraySubscriptExpr" and "ob_item" in cnorm(x.ch[0]):
            idxs.add(int_value(x.ch[1]))
    res.instance("in_float_range:slots", facts.loc(f), read=sorted(idxs))
    res.oblige(idxs == set(slots.values()), "in_float_range:slots",
               facts.loc(f),
               f"in_float_range reads descriptor slots {sorted(idxs)}; "
               f"BaseRange writes low/high/mask to {slots}")
    res.floor(2)


# ---------------------------------------------------------------------------
# C01.array-shape-table: the per-dimension test of AbstractArray.validate
# touches the dimension only through comparisons with the declared entry
# (None | int | (low, high-or-None)): a complete decision table over
# {entry kind} x {dim ? low} x {dim ? high} x {high is None}.

TN = "traits/trait_numeric.py"


@rule("C01.array-shape-table", ["C01"],
      "AbstractArray.validate accepts a dimension iff the declared shape "
      "entry allows it: None - any; n - equal; (low, high) - low <= dim and "
      "(high is None or dim <= high); complete decision table")
def array_shape_table(ctx, res):
    import copy
    repo = get_pyrepo(ctx)
    mod = repo.module(TN)
    fn = repo.func(TN, "AbstractArray.validate")
    # the per-dimension loop `for i, dim in enumerate(<value shape>)` whose
    # body reads `item = <declared shape>[i]`: in validate itself or in a
    # module-level helper it calls
    def value_shape_exprs(f):
        """texts that denote the shape of the value being validated"""
        vs = set()
        me = f.args.args[0].arg if f.args.args else "self"

        def of_value(a):
            return isinstance(a, ast.Attribute) and a.attr == "shape" \
                and norm(a.value) != me
        for a in ast.walk(f):
            if of_value(a):
                vs.add(norm(a))
            if isinstance(a, ast.Assign) and of_value(a.value) \
                    and isinstance(a.targets[0], ast.Name):
                vs.add(a.targets[0].id)
        return vs

    def dim_loops(f):
        out = []
        for s_ in ast.walk(f):
            # `for item, dim in zip(<declared shape>, <value shape>)` is the
            # same loop: rewritten to the enumerate spelling
            if isinstance(s_, ast.For) and isinstance(s_.target, ast.Tuple) \
                    and len(s_.target.elts) == 2 \
                    and isinstance(s_.iter, ast.Call) \
                    and norm(s_.iter.func) == "zip" \
                    and len(s_.iter.args) == 2:
                vs = value_shape_exprs(f)
                a0, a1 = s_.iter.args
                t0, t1 = s_.target.elts
                if norm(a1) in vs and norm(a0) not in vs:
                    decl, val, itemt, dimt = a0, a1, t0, t1
                elif norm(a0) in vs and norm(a1) not in vs:
                    decl, val, itemt, dimt = a1, a0, t1, t0
                else:
                    continue
                if not (isinstance(itemt, ast.Name) and isinstance(dimt, ast.Name)):
                    continue
                new = ast.For(
                    target=ast.Tuple([ast.Name("__i", ast.Store()), dimt],
                                     ast.Store()),
                    iter=ast.Call(ast.Name("enumerate", ast.Load()), [val], []),
                    body=[ast.Assign([ast.Name(itemt.id, ast.Store())],
                                     ast.Subscript(decl, ast.Name("__i", ast.Load()),
                                                   ast.Load()))] + list(s_.body),
                    orelse=s_.orelse)
                ast.copy_location(new, s_)
                ast.fix_missing_locations(new)
                new._orig = s_
                out.append(new)
                continue
            if isinstance(s_, ast.For) and isinstance(s_.target, ast.Tuple) \
                    and len(s_.target.elts) == 2 \
                    and "enumerate" in norm(s_.iter):
                i_ = norm(s_.target.elts[0])
                if any(isinstance(a, ast.Assign)
                       and isinstance(a.value, ast.Subscript)
                       and norm(a.value.slice) == i_
                       and isinstance(a.targets[0], ast.Name)
                       for a in s_.body):
                    out.append(s_)
        return out
    cands = [(fn, l) for l in dim_loops(fn)]
    for c in ast.walk(fn):
        if isinstance(c, ast.Call) and isinstance(c.func, ast.Name) \
                and c.func.id in mod.functions:
            h = mod.functions[c.func.id]
            cands += [(h, l) for l in dim_loops(h)]
    if len(cands) != 1:
        raise AnalysisError(f"AbstractArray.validate: per-dimension loop "
                            f"({len(cands)} candidates)")
    host, loop = cands[0]
    # the number of axes: the loop runs only when the value has exactly as
    # many dimensions as the declared shape (a zip/enumerate over shapes of
    # different lengths silently ignores the surplus axes)
    orig = getattr(loop, "_orig", loop)
    declt = valt = None
    for a in loop.body:
        if isinstance(a, ast.Assign) and isinstance(a.value, ast.Subscript) \
                and norm(a.value.slice) == norm(loop.target.elts[0]):
            declt = norm(a.value.value)
    if isinstance(loop.iter, ast.Call) and loop.iter.args:
        valt = norm(loop.iter.args[0])

    def is_rank_test(t, want_eq):
        if not (isinstance(t, ast.Compare) and len(t.ops) == 1
                and isinstance(t.ops[0], ast.Eq if want_eq else ast.NotEq)):
            return False
        pair = {norm(t.left), norm(t.comparators[0])}
        return pair == {f"len({declt})", f"len({valt})"}

    def find_parent(f, target):
        for n in ast.walk(f):
            for fld in ("body", "orelse"):
                lst = getattr(n, fld, None)
                if isinstance(lst, list) and target in lst:
                    return n, lst
        return None, None
    par, lst = find_parent(host, orig)
    guarded = isinstance(par, ast.If) and lst is par.body \
        and is_rank_test(par.test, True)
    if not guarded and lst is not None:
        for prev in lst[:lst.index(orig)]:
            if isinstance(prev, ast.If) and is_rank_test(prev.test, False) \
                    and prev.body and isinstance(
                        prev.body[-1], (ast.Raise, ast.Return, ast.Expr)):
                guarded = True
    res.instance("AbstractArray.validate:rank", mod.loc(orig),
                 declared=declt, value=valt)
    res.oblige(guarded, "AbstractArray.validate:rank-guard", mod.loc(orig),
               f"the per-dimension loop over `{declt}` / `{valt}` is not "
               f"guarded by `len({declt}) == len({valt})`: a value with more "
               f"(or fewer) axes than the declared shape has its surplus axes "
               f"ignored and is stored")
    idx, dimv = [norm(t) for t in loop.target.elts]
    itemv = None
    for a in loop.body:
        if isinstance(a, ast.Assign) and isinstance(a.value, ast.Subscript) \
                and norm(a.value.slice) == idx \
                and isinstance(a.targets[0], ast.Name):
            itemv = a.targets[0].id
    if itemv is None:
        raise AnalysisError("AbstractArray.validate: shape entry local")
    # leaving the loop early rejects (break with a for-else accept, or a
    # falsy return from a predicate helper)
    if host is fn:
        if not (loop.orelse and any(isinstance(r, ast.Return)
                                    for r in loop.orelse)):
            raise AnalysisError("AbstractArray.validate: the loop's else "
                                "clause does not return the value")
    else:
        after = host.body[host.body.index(loop) + 1:] \
            if loop in host.body else []
        if not (after and isinstance(after[0], ast.Return)
                and norm(after[0].value) == "True"):
            raise AnalysisError(f"{host.name}: does not return True after "
                                f"the per-dimension loop")

    class Brk(ast.NodeTransformer):
        def visit_Break(self, node):
            return ast.copy_location(ast.Return(ast.Constant("REJECT")), node)

        def visit_Continue(self, node):
            return ast.copy_location(ast.Return(ast.Constant("ACCEPT")), node)

        def visit_Return(self, node):
            if host is not fn and node.value is not None \
                    and norm(node.value) in ("False", "None", "0"):
                return ast.copy_location(
                    ast.Return(ast.Constant("REJECT")), node)
            raise AnalysisError(f"{host.name}: unexpected return inside the "
                                f"per-dimension loop")

        def visit_For(self, node):
            return node

        def visit_While(self, node):
            return node
    body = [Brk().visit(copy.deepcopy(s)) for s in loop.body]
    body.append(ast.Return(ast.Constant("ACCEPT")))
    w = ast.FunctionDef(name="dim", args=host.args, body=body,
                        decorator_list=[], lineno=loop.lineno, col_offset=0)
    ast.fix_missing_locations(w)
    g = build_cfg(w, "AbstractArray.validate.dim")
    env0 = {}
    for a in body:
        if isinstance(a, ast.Assign) and isinstance(a.targets[0], ast.Name) \
                and a.targets[0].id != itemv:
            env0[a.targets[0].id] = a.value

    class Raises(Exception):
        pass

    def operand(e, env):
        """DIM | ITEM | LOW | HIGH | NONE | ('const', v)"""
        if isinstance(e, ast.Name) and e.id in env:
            return operand(env[e.id], env)
        t = norm(e)
        if t == dimv:
            return "DIM"
        if t == itemv:
            return "ITEM"
        if isinstance(e, ast.Subscript) and norm(e.value) == itemv:
            k = norm(e.slice)
            if k in ("0", "-2"):
                return "LOW"
            if k in ("1", "-1"):
                return "HIGH"
        if t == "None":
            return "NONE"
        return None

    def ev(e, val, env):
        if isinstance(e, ast.Name) and e.id in env:
            return ev(env[e.id], val, env)
        if isinstance(e, ast.UnaryOp) and isinstance(e.op, ast.Not):
            return not ev(e.operand, val, env)
        if isinstance(e, ast.BoolOp):
            if isinstance(e.op, ast.And):
                return all(ev(x, val, env) for x in e.values)
            return any(ev(x, val, env) for x in e.values)
        if isinstance(e, ast.Call) and norm(e.func) == "isinstance" \
                and norm(e.args[0]) == itemv:
            t = norm(e.args[1])
            if t == "int":
                return val["kind"] == "int"
            if t in ("tuple", "(tuple, list)", "(list, tuple)", "SequenceTypes"):
                return val["kind"] == "pair"
        if isinstance(e, ast.Compare) and len(e.ops) == 1:
            op, l, r = e.ops[0], e.left, e.comparators[0]
            if norm(l) == f"type({itemv})" and isinstance(op, (ast.Is, ast.IsNot,
                                                              ast.Eq, ast.NotEq)):
                if norm(r) == "int":
                    v = val["kind"] == "int"
                    return v if isinstance(op, (ast.Is, ast.Eq)) else not v
            a, b = operand(l, env), operand(r, env)
            if a is None or b is None:
                raise AnalysisError(
                    f"AbstractArray.validate: uninterpretable test "
                    f"`{norm(e)}` in the dimension check")
            if isinstance(op, (ast.Is, ast.IsNot)):
                if b != "NONE":
                    a, b = b, a
                if b != "NONE":
                    raise AnalysisError(f"identity test `{norm(e)}`")
                if a == "ITEM":
                    v = val["kind"] == "none"
                elif a == "HIGH":
                    if val["kind"] != "pair":
                        raise Raises()
                    v = val["hi_none"]
                elif a == "LOW":
                    if val["kind"] != "pair":
                        raise Raises()
                    v = False
                else:
                    raise AnalysisError(f"identity test `{norm(e)}`")
                return v if isinstance(op, ast.Is) else not v
            cop = dt.PY_CMP.get(type(op))
            if cop is None:
                raise AnalysisError(f"comparison `{norm(e)}`")
            flip = False
            if a != "DIM":
                a, b, flip = b, a, True
            if a != "DIM":
                raise AnalysisError(f"comparison `{norm(e)}`")
            if b == "ITEM":
                if val["kind"] == "none":
                    raise Raises()          # int <-> None ordering
                if val["kind"] == "pair":
                    if cop in ("==", "!="):
                        rel = dt.LT         # an int never equals a tuple
                        return cop == "!="
                    raise Raises()
                rel = val["rel_item"]
            elif b in ("LOW", "HIGH"):
                if val["kind"] != "pair":
                    raise Raises()          # None[0] / int[0]
                if b == "HIGH" and val["hi_none"]:
                    if cop in ("==", "!="):
                        return cop == "!="
                    raise Raises()
                rel = val["rel_low"] if b == "LOW" else val["rel_high"]
            else:
                raise AnalysisError(f"comparison `{norm(e)}`")
            if flip:
                rel = dt.FLIP[rel]
            return dt.cmp_holds(cop, rel)
        raise AnalysisError(f"AbstractArray.validate: uninterpretable test "
                            f"`{norm(e)}` in the dimension check")

    def run(val):
        env = dict(env0)
        nid = g.entry.id
        for _ in range(500):
            nd = g.nodes[nid]
            a = nd.ast
            if nd.kind == "cond":
                try:
                    t = ev(a, val, env)
                except Raises:
                    return "REJECT"       # swallowed by the bare except
                lab = "T" if t else "F"
            else:
                if isinstance(a, ast.Return):
                    return a.value.value if isinstance(a.value, ast.Constant) \
                        else "ACCEPT"
                if isinstance(a, ast.Assign) \
                        and isinstance(a.targets[0], ast.Name) \
                        and a.targets[0].id != itemv:
                    env[a.targets[0].id] = a.value
                lab = None
            nxt = [t for l, t in g.succ[nid]
                   if l != "exc" and (lab is None or l == lab)]
            if not nxt:
                return "ACCEPT"
            nid = nxt[0]
        raise AnalysisError("AbstractArray.validate: dimension walk diverges")

    vals = [dict(kind="none")]
    vals += [dict(kind="int", rel_item=r) for r in (dt.LT, dt.EQ, dt.GT)]
    for rl in (dt.LT, dt.EQ, dt.GT):
        vals.append(dict(kind="pair", hi_none=True, rel_low=rl))
        for rh in (dt.LT, dt.EQ, dt.GT):
            if rl == dt.LT and rh == dt.GT:
                continue        # dim < low <= high < dim is impossible
            vals.append(dict(kind="pair", hi_none=False, rel_low=rl,
                             rel_high=rh))

    def want(v):
        if v["kind"] == "none":
            return "ACCEPT"
        if v["kind"] == "int":
            return "ACCEPT" if v["rel_item"] == dt.EQ else "REJECT"
        ok = v["rel_low"] in (dt.EQ, dt.GT) and (
            v["hi_none"] or v["rel_high"] in (dt.LT, dt.EQ))
        return "ACCEPT" if ok else "REJECT"

    res.instance("AbstractArray.validate:dimension", mod.loc(loop),
                 valuations=len(vals))
    for v in vals:
        got = run(v)
        desc = ",".join(f"{k}={x}" for k, x in v.items())
        res.oblige(got == want(v), f"AbstractArray.validate:shape[{desc}]",
                   mod.loc(loop),
                   f"for a shape entry with {desc} (rel = dimension compared "
                   f"with the bound) the dimension is {got}ED; the declared "
                   f"shape says {want(v)}")
    res.floor(1)
