"""C11: deferred traits (delegation / prototyping)."""
from __future__ import annotations

import ast
import re

from ..ccfg import get_ccfg
from ..cexpr import callee
from ..cfacts import CREL, get_cfacts
from ..core import AnalysisError, rule
from ..csym import feasible_paths
from ..pyfacts import get_pyrepo, is_self_call, norm
from ..strdom import Interp, lit, show
from .cstore import paths_of

TT = "traits/trait_types.py"
HT = "traits/has_traits.py"

SHAPES = {
    "same name (prefix='')": (),
    "explicit name (prefix='P')": ("P",),
    "prefix + name (prefix='P*')": ("P", "*"),
    "class prefix (prefix='*')": ("*",),
}


def c_mapper_shape(ctx, facts, fname):
    """Return shape of a delegate_attr_name_* mapper as a tuple over
    {'PFX', 'N', 'CLS'} (main path, i.e. the lookups succeeded)."""
    g = get_ccfg(ctx, facts, fname)
    params = [p.name for p in facts.params(fname)]
    traitp, objp, namep = params[:3]
    shapes = set()
    for p in feasible_paths(g):
        if p.outcome[0] != "RETURN":
            continue
        rv = p.outcome[1]
        if rv == namep:
            # either the plain-name mapper or the fallback of the class one
            fallback = any(t[0] == "atom" and ("PyObject_GetAttr(" in t[1]
                                               or "class_prefix" in t[1])
                           for t in p.trace)
            if not fallback:
                shapes.add(("N",))
            continue
        def atom(t):
            if t == f"{traitp}->delegate_prefix":
                return "PFX"
            if t == namep:
                return "N"
            if t.startswith("PyObject_GetAttr(") and "class_prefix" in t:
                return "CLS"
            if "class_prefix" in t and t.endswith(")") and "," in t \
                    and not t.startswith("PyUnicode_Concat("):
                # the class prefix obtained some other way than an attribute
                # lookup (for example straight from the type's own
                # dictionary, which skips the MRO)
                return "CLS!"
            return None
        if rv == "0":
            continue
        if atom(rv):
            shapes.add((atom(rv),))
            continue
        from .cstore import split_cmp
        if rv.startswith("PyUnicode_Concat(") and rv.endswith(")"):
            inner = "(" + rv[len("PyUnicode_Concat("):-1] + ")"
            # split at the top-level comma
            depth, cut = 0, None
            for i, ch in enumerate(inner[1:-1]):
                if ch in "([":
                    depth += 1
                elif ch in ")]":
                    depth -= 1
                elif ch == "," and depth == 0:
                    cut = i
                    break
            if cut is not None:
                a, b = inner[1:-1][:cut].strip(), inner[1:-1][cut + 1:].strip()
                if atom(a) and atom(b):
                    shapes.add((atom(a), atom(b)))
                    continue
        raise AnalysisError(f"{fname}: unrecognised result `{rv}`")
    if len(shapes) != 1:
        raise AnalysisError(f"{fname}: result shapes {shapes}")
    return shapes.pop()


@rule("C11.prefix-agree", ["C11"],
      "for each of the four prefix styles, the attribute the C core reads on "
      "the delegate is the attribute the forwarding listener watches")
def prefix_agree(ctx, res):
    repo = get_pyrepo(ctx)
    facts = get_cfacts(ctx)
    mod = repo.module(TT)
    init = repo.func(TT, "Delegate.__init__")
    ps = [a.arg for a in init.args.args]        # self, delegate, prefix, ...
    # descriptor handed to C
    asc = repo.func(TT, "Delegate.as_ctrait")
    calls = [c for c in ast.walk(asc) if isinstance(c, ast.Call)
             and isinstance(c.func, ast.Attribute) and c.func.attr == "delegate"]
    if len(calls) != 1:
        raise AnalysisError("Delegate.as_ctrait: trait.delegate(...) call")
    dargs = [norm(a) for a in calls[0].args]
    res.instance("Delegate.as_ctrait", mod.loc(asc), args=dargs)
    res.oblige(dargs == ["self.delegate", "self.prefix", "self.prefix_type",
                         "self.modify"], "Delegate.as_ctrait:args",
               mod.loc(calls[0]),
               f"CTrait.delegate is called with {dargs}; the C side parses "
               f"(delegate_name, delegate_prefix, prefix_type, modify)")
    table = facts.table("delegate_attr_name_handlers")
    mappers = [c_mapper_shape(ctx, facts, f) for f in table if f]
    for f, m in zip([f for f in table if f], mappers):
        res.oblige("CLS!" not in m, f"{f}:class-prefix-lookup", CREL,
                   f"{f} does not obtain the class `__prefix__` with an "
                   f"attribute lookup on the object's type "
                   f"(PyObject_GetAttr): a `__prefix__` inherited from a base "
                   f"class is not found, while the listener side "
                   f"(_trait_delegate_name reads `self.__prefix__`) follows "
                   f"inheritance - reads/writes and notifications then use "
                   f"different attributes of the delegate")
    mappers = [tuple("CLS" if a == "CLS!" else a for a in m) for m in mappers]
    res.instance("delegate_attr_name_handlers", CREL,
                 shapes=[list(m) for m in mappers])
    gdp = repo.func(HT, "get_delegate_pattern")
    tdn = repo.func(HT, "HasTraits._trait_delegate_name")
    gps = [a.arg for a in gdp.args.args]
    tps = [a.arg for a in tdn.args.args]
    for label, shape in SHAPES.items():
        it = Interp({}, "Delegate.__init__")
        it.functions = mod.functions
        env = {ps[1]: ("D",), ps[2]: shape, "modify": False,
               "listenable": True, "metadata": None, "delegate": ("D",)}
        env[ps[1]] = ("D",)
        outs = it.run([s for s in init.body], env)
        finals = {(e.get("prefix_type"), e.get("self.prefix"),
                   e.get("metadata['_prefix']")) for k, v, e in outs}
        if len(finals) != 1:
            raise AnalysisError(f"Delegate.__init__ is not deterministic for "
                                f"{label}: {finals}")
        ptype, sp, mp = finals.pop()
        if ptype is None or sp is None or mp is None:
            raise AnalysisError(f"Delegate.__init__: prefix_type / "
                                f"self.prefix / metadata['_prefix'] not set")
        # (b) what the C core reads
        if not (isinstance(ptype, int) and 0 <= ptype < len(mappers)):
            res.violation(f"prefix-agree:{label}:type", mod.loc(init),
                          f"prefix_type {ptype} has no C mapper")
            continue
        attr_c = ()
        for a in mappers[ptype]:
            attr_c += {"PFX": sp, "N": ("N",), "CLS": ("CLS",)}[a]
        # (c) what the listener watches
        it2 = Interp({f"{gps[1]}._prefix": mp, f"{gps[1]}._delegate": ("D",)},
                     "get_delegate_pattern")
        pats = {v for k, v, e in it2.run(gdp.body, {gps[0]: ("N",)})
                if k == "return"}
        watched = set()
        for pat in pats:
            it3 = Interp({f"{tps[0]}.__class__.__prefix__": ("CLS",)},
                         "_trait_delegate_name")
            for k, v, e in it3.run(tdn.body, {tps[1]: ("N",), tps[2]: pat}):
                if k == "return":
                    watched.add(v)
        # strip the ' <delegate>:' head
        attrs = set()
        for w in watched:
            if ":" not in w:
                raise AnalysisError(f"listener pattern {show(w)} has no ':'")
            i = len(w) - 1 - w[::-1].index(":")
            head, tail = w[:i], w[i + 1:]
            if "D" not in head:
                res.violation(f"prefix-agree:{label}:delegate",
                              f"{HT}:{gdp.lineno}",
                              f"listener pattern {show(w)} does not start at "
                              f"the delegate object")
            attrs.add(tail)
        key = f"prefix-agree:{label}"
        res.instance(key, mod.loc(init), prefix_type=ptype,
                     c_reads=show(attr_c),
                     listener_watches=sorted(show(a) for a in attrs))
        res.oblige(attrs == {attr_c}, key, f"{HT}:{gdp.lineno}",
                   f"{label}: reads/writes go to delegate attribute "
                   f"{show(attr_c)} but the forwarding listener watches "
                   f"{sorted(show(a) for a in attrs)}; handlers on the "
                   f"deferring attribute would not be notified")
        # the documented rule for the style
        want = {(): ("N",), ("P",): ("P",), ("P", "*"): ("P", "N"),
                ("*",): ("CLS", "N")}[shape]
        res.oblige(attr_c == want, key + ":documented", CREL,
                   f"{label}: the C core maps the name to {show(attr_c)}, "
                   f"documented rule is {show(want)}")
    # fall-back agreement for the class-prefix style: the C mapper treats a
    # class without `__prefix__` as the empty prefix (GetAttr failure cleared,
    # plain name returned); the Python side must do the same, otherwise
    # instantiating such a class fails while reads and writes would work
    cls_mapper = [f for f in table if f and "CLS" in c_mapper_shape(
        ctx, facts, f)]
    c_fallback = False
    for f in cls_mapper:
        g = get_ccfg(ctx, facts, f)
        namep = [q.name for q in facts.params(f)][2]
        for pth in feasible_paths(g):
            if pth.outcome == ("RETURN", namep) and any(
                    t[0] == "call" and t[1] == "PyErr_Clear"
                    for t in pth.trace):
                c_fallback = True
    it4 = Interp({f"{tps[0]}.__class__.__prefix__": ("CLS",)},
                 "_trait_delegate_name")
    list(it4.run(tdn.body, {tps[1]: ("N",), tps[2]: ("D", ":", "*")}))
    dflt = getattr(it4, "defaults", {}).get(
        f"{tps[0]}.__class__.__prefix__")
    py_fallback = dflt is not None and all(v == () for v in dflt)
    has_try = any(isinstance(n, ast.Try) for n in ast.walk(tdn))
    res.instance("prefix-agree:class-prefix-fallback", f"{HT}:{tdn.lineno}",
                 c_falls_back_to_name=c_fallback,
                 python_default=None if dflt is None else [show(v) for v in dflt])
    res.oblige(c_fallback == (py_fallback or has_try),
               "prefix-agree:class-prefix-fallback", f"{HT}:{tdn.lineno}",
               f"for prefix='*' the C name mapping "
               f"{'falls back to the plain name' if c_fallback else 'fails'} "
               f"when the class has no __prefix__, but _trait_delegate_name "
               f"{'does not' if c_fallback else 'does'}: "
               f"{'instantiating such a class raises AttributeError although reads and writes through the delegate work' if c_fallback else 'the listener watches an attribute the C core never uses'}")
    res.floor(7)


@rule("C11.roles", ["C11", "C19", "C01"],
      "setattr_delegate: DelegatesTo stores into the delegate (validated "
      "there), PrototypedFrom validates with the prototype's trait and "
      "stores locally, then detaches the forwarding listener")
def roles(ctx, res):
    facts = get_cfacts(ctx)
    g = get_ccfg(ctx, facts, "setattr_delegate")
    params = [p.name for p in facts.params("setattr_delegate")]
    traito, traitd0, objp, namep, valuep = params[:5]
    modbit = facts.macro_int("TRAIT_MODIFY_DELEGATE")
    n_mod = n_loc = 0
    seen = set()
    for p in feasible_paths(g, max_paths=100000):
        sets = [e for e in p.events if e[0] == "->setattr"]
        if not sets:
            continue
        e = sets[-1]
        args = e[1]
        mod_atom = [a for a in p.atoms if a[0] == f"({modbit} & {traito}->flags)"]
        if not mod_atom:
            if "no-flag" not in seen:
                seen.add("no-flag")
                res.violation("setattr_delegate:flag-test", f"{CREL}:{e[3]}",
                              "the terminal setattr is reached without "
                              "testing TRAIT_MODIFY_DELEGATE on the deferring "
                              "trait")
            continue
        modify = mod_atom[-1][1]
        if modify:
            n_mod += 1
            # (traitd, traitd, delegate, daname, value)
            ok = (args[0] == args[1] and args[2] != objp
                  and args[3] != namep or args[3] == namep and False)
            ok = args[0] == args[1] and args[2] != objp and args[4] == valuep
            if not ok and "modify" not in seen:
                seen.add("modify")
                res.violation("setattr_delegate:modify-roles",
                              f"{CREL}:{e[3]}",
                              f"DelegatesTo assignment calls setattr"
                              f"({', '.join(x[:30] for x in args)}); expected "
                              f"(traitd, traitd, delegate, delegate-attr-name, "
                              f"value): validated by and stored into the "
                              f"delegate only")
            rm = [x for x in p.events if x[0] == "PyObject_CallMethod"
                  and "_remove_trait_delegate_listener" in " ".join(x[1])]
            if rm and "modify-listener" not in seen:
                seen.add("modify-listener")
                res.violation("setattr_delegate:modify-listener",
                              f"{CREL}:{rm[0][3]}",
                              "DelegatesTo assignment detaches the forwarding "
                              "listener")
        else:
            n_loc += 1
            ok = (args[0] == traito and args[2] == objp and args[3] == namep
                  and args[4] == valuep and args[1] != traito)
            if not ok and "local" not in seen:
                seen.add("local")
                res.violation("setattr_delegate:local-roles",
                              f"{CREL}:{e[3]}",
                              f"PrototypedFrom assignment calls setattr"
                              f"({', '.join(x[:30] for x in args)}); expected "
                              f"(traito, traitd, obj, name, value): validated "
                              f"by the prototype's trait, stored locally")
            ok_atoms = [a for a in p.atoms
                        if a[0].endswith(">= 0)") and a[1] is True]
            rm = [x for x in p.events if x[0] == "PyObject_CallMethod"
                  and any("_remove_trait_delegate_listener" in y for y in x[1])]
            # the listener is updated only after - and only if - the store
            # succeeded (a rejected value must leave the registration alone)
            if rm and "local-listener-order" not in seen:
                early = p.events.index(rm[0]) < p.events.index(e)
                failed = [a for a in p.atoms
                          if a[0].endswith(">= 0)") and a[1] is False]
                unguarded = not ok_atoms
                if early or failed or unguarded:
                    seen.add("local-listener-order")
                    res.violation(
                        "setattr_delegate:local-listener-order",
                        f"{CREL}:{rm[0][3]}",
                        "_remove_trait_delegate_listener runs "
                        + ("before the terminal setattr" if early else
                           "without the terminal setattr having been seen "
                           "to succeed" if unguarded and not failed else
                           "although the terminal setattr failed")
                        + ": when the prototype's validator rejects the "
                        "value, the forwarding listener is already gone and "
                        "later changes of the prototype are no longer "
                        "announced on this object",
                        [f"{CREL}:{l}" for l in dict.fromkeys(p.lines) if l])
            if ok_atoms and "local-listener" not in seen:
                good = rm and rm[0][1][0] == objp and rm[0][1][3] == namep \
                    and rm[0][1][4] == f"(0 != {valuep})"
                if not good:
                    seen.add("local-listener")
                    res.violation(
                        "setattr_delegate:local-listener", f"{CREL}:{e[3]}",
                        "after a successful local store the forwarding "
                        "listener must be updated with "
                        "_remove_trait_delegate_listener(name, value != NULL) "
                        f"(found {[x[1] for x in rm]})")
    # chains of deferral: each hop maps the name produced by the previous hop
    for fname in ("setattr_delegate", "_has_traits_trait"):
        ps, _, _ = paths_of(ctx, fname)
        prm = [p.name for p in facts.params(fname)]
        n_chain = 0
        bad = None
        for p in ps:
            hops = [e for e in p.events if e[0] == "->delegate_attr_name"]
            for i, e in enumerate(hops):
                want = hops[i - 1][2] if i > 0 else None
                got = e[1][2] if len(e[1]) > 2 else "?"
                if i > 0:
                    n_chain += 1
                    if got != want and bad is None:
                        bad = (e, got, want, p)
        # ... and by the object that *holds* the deferring trait of that hop
        # (the '*' prefix style reads that object's class `__prefix__`)
        objp_ = [q.name for q in facts.params(fname)
                 if "has_traits_object" in (q.type or "")]
        bad_h = None
        n_hold = 0
        for p in ps:
            for e in [e for e in p.events if e[0] == "->delegate_attr_name"]:
                if len(e[1]) < 2:
                    continue
                holder = _trait_holder(e[1][0], prm, objp_)
                if holder is None:
                    continue
                n_hold += 1
                if e[1][1] != holder and bad_h is None:
                    bad_h = (e, holder, p)
        if n_hold == 0:
            raise AnalysisError(f"{fname}: no name-mapping call recognised")
        res.oblige(bad_h is None, f"{fname}:chain-holder",
                   f"{CREL}:{bad_h[0][3]}" if bad_h else "",
                   f"{fname}: a hop of a deferral chain maps the name with "
                   f"`{bad_h[0][1][1][:40] if bad_h else ''}` as the owning "
                   f"object, but the deferring trait of that hop was looked "
                   f"up on `{bad_h[1][:70] if bad_h else ''}`: with "
                   f"prefix='*' the class `__prefix__` of the wrong object is "
                   f"used from the second hop on, so writes / base-trait "
                   f"lookups resolve to a different attribute than reads "
                   f"(getattr_delegate maps each hop with its own object)",
                   [f"{CREL}:{l}" for l in dict.fromkeys(bad_h[2].lines) if l]
                   if bad_h else None)
        # ... and the next object of the chain is read from that same owner
        bad_n = None
        n_next = 0
        # in-file helpers that do the lookup for (trait parameter, object
        # parameter): `lookup_delegate_object(trait, holder)`
        helpers = {}
        for hname in facts.defined_functions():
            if hname == fname:
                continue
            hps = [q.name for q in facts.params(hname)]
            if len(hps) < 2 or len(hps) > 3 or not any(
                    x.kind == "CallExpr" and callee(x) in (
                        "PyDict_GetItem", "has_traits_getattro")
                    for x in facts.func(hname).walk()):
                continue
            hp, _f, _g = paths_of(ctx, hname)
            roles = set()
            for p in hp:
                for it in p.trace:
                    if it[0] == "call" and it[1] in (
                            "PyDict_GetItem", "has_traits_getattro") \
                            and len(it[2]) >= 2:
                        sx = it[2][0][:-len("->obj_dict")] \
                            if it[2][0].endswith("->obj_dict") else it[2][0]
                        if sx not in hps:
                            continue
                        if it[2][1].endswith("->delegate_name"):
                            tt = it[2][1][:-len("->delegate_name")]
                            if tt in hps:
                                roles.add(("T", hps.index(tt), hps.index(sx)))
                        elif it[2][1] in hps:
                            roles.add(("N", hps.index(it[2][1]),
                                       hps.index(sx)))
            if len(roles) == 1:
                helpers[hname] = next(iter(roles))
        for p in ps:
            for it in p.trace:
                if it[0] != "call":
                    continue
                a = it[2]
                if it[1] in helpers:
                    kind_, iT, iX = helpers[it[1]]
                    if max(iT, iX) >= len(a):
                        continue
                    ttext, src = a[iT], a[iX]
                    if kind_ == "N":
                        if not ttext.endswith("->delegate_name"):
                            continue
                        ttext = ttext[:-len("->delegate_name")]
                elif it[1] in ("PyDict_GetItem", "has_traits_getattro"):
                    if len(a) < 2 or not a[1].endswith("->delegate_name"):
                        continue
                    ttext = a[1][:-len("->delegate_name")]
                    src = a[0][:-len("->obj_dict")] \
                        if a[0].endswith("->obj_dict") else a[0]
                else:
                    continue
                holder = _trait_holder(ttext, prm, objp_)
                if holder is None:
                    continue
                n_next += 1
                if src != holder and bad_n is None:
                    bad_n = (it, src, holder, p)
        if n_next == 0:
            raise AnalysisError(f"{fname}: no delegate lookup recognised")
        res.oblige(bad_n is None, f"{fname}:chain-next",
                   f"{CREL}:{bad_n[0][4]}" if bad_n else "",
                   f"{fname}: the next object of a deferral chain is read "
                   f"from `{bad_n[1][:50] if bad_n else ''}` although the "
                   f"deferring trait of that hop belongs to "
                   f"`{bad_n[2][:60] if bad_n else ''}`: from the second hop "
                   f"on the chain is followed on the wrong object (it loops "
                   f"on the first delegate until the recursion limit)",
                   [f"{CREL}:{l}" for l in dict.fromkeys(bad_n[3].lines) if l]
                   if bad_n else None)
        res.instance(f"{fname}:chain", facts.loc(facts.func(fname)),
                     second_hops=n_chain)
        if n_chain == 0:
            raise AnalysisError(f"{fname}: no two-hop delegation path")
        res.oblige(bad is None, f"{fname}:chain-name",
                   f"{CREL}:{bad[0][3]}" if bad else "",
                   f"{fname}: the second hop of a deferral chain maps "
                   f"`{bad[1][:50] if bad else ''}` instead of the name "
                   f"produced by the previous hop: with a renaming first hop "
                   f"the assignment lands on the wrong attribute of the "
                   f"final delegate",
                   [f"{CREL}:{l}" for l in dict.fromkeys(bad[3].lines) if l]
                   if bad else None)
    res.instance("setattr_delegate", facts.loc(facts.func("setattr_delegate")),
                 modify_paths=n_mod, local_paths=n_loc)
    if n_mod == 0 or n_loc == 0:
        raise AnalysisError("setattr_delegate: both branches not recognised")
    if not seen:
        res.oblige(True, "setattr_delegate", "", "")
    # the recursion bound is on the loop's back edge
    fn = facts.func("setattr_delegate")
    bound = [x for x in fn.walk() if x.kind == "CallExpr"
             and getattr(x.ch[0].walk().__next__(), "kind", "") and
             "delegation_recursion_error" in facts.text(x)]
    res.oblige(bool(bound), "setattr_delegate:chain-bound", facts.loc(fn),
               "delegation chains are not bounded (no recursion error exit)")
    fn2 = facts.func("_has_traits_trait")
    res.instance("_has_traits_trait", facts.loc(fn2))
    res.oblige("delegation_recursion_error" in facts.text(
        facts.body("_has_traits_trait")), "_has_traits_trait:chain-bound",
        facts.loc(fn2), "trait() lookup through delegation is not bounded")
    res.floor(2)



def _pattern_sources(repo, mod, expr, namep):
    """Where a detach/restore pattern expression comes from: the expression
    plus the bodies of the self-helpers it calls (two levels).  Returns
    (uses_class_table, callee names, unguarded class-table subscripts)."""
    nodes = [expr]
    seen = set()
    work = [expr]
    for _ in range(3):
        nxt = []
        for e in work:
            for c in ast.walk(e):
                if isinstance(c, ast.Call) and isinstance(c.func, ast.Attribute) \
                        and isinstance(c.func.value, ast.Name) \
                        and c.func.value.id == "self" \
                        and c.func.attr not in seen:
                    seen.add(c.func.attr)
                    try:
                        h = repo.func(HT, "HasTraits." + c.func.attr)
                    except Exception:
                        continue
                    nodes.append(h)
                    nxt.append(h)
        work = nxt
    table = False
    callees = set()
    unguarded = []
    for root in nodes:
        guarded_ids = set()
        for n in ast.walk(root):
            if isinstance(n, (ast.If, ast.IfExp)) \
                    and "__listener_traits__" in norm(n.test) \
                    and re.search(r"\bin\b", norm(n.test)):
                sub = n.body if isinstance(n.body, list) else [n.body]
                for b in sub:
                    guarded_ids.update(id(x) for x in ast.walk(b))
        for n in ast.walk(root):
            if isinstance(n, ast.Attribute) and n.attr == "__listener_traits__":
                table = True
            if isinstance(n, ast.Call):
                callees.add(norm(n.func).split(".")[-1])
            if isinstance(n, ast.Subscript) \
                    and isinstance(n.value, ast.Attribute) \
                    and n.value.attr == "__listener_traits__" \
                    and isinstance(n.ctx, ast.Load) \
                    and id(n) not in guarded_ids:
                unguarded.append(mod.loc(n) if hasattr(n, "lineno") else "")
    return table, callees, unguarded


def _top_args(text):
    """top-level arguments of the outermost call `f(a, b, ...)`"""
    i = text.find("(")
    if i < 0 or not text.endswith(")"):
        return None, []
    inner = text[i + 1:-1]
    out, depth, cur = [], 0, ""
    for ch in inner:
        if ch in "([":
            depth += 1
        elif ch in ")]":
            depth -= 1
        if ch == "," and depth == 0:
            out.append(cur.strip())
            cur = ""
        else:
            cur += ch
    if cur.strip():
        out.append(cur.strip())
    return text[:i], out


def _trait_holder(ttext, params, obj_params):
    """the object on which the trait denoted by the symbolic text was looked
    up: H in dict_getitem(H->[ic]trait_dict, ..), get_prefix_trait(H, ..),
    get_trait(H, ..); the object parameter for a trait parameter"""
    if ttext in params:
        return obj_params[0] if obj_params else None
    f, args = _top_args(ttext)
    if f in ("get_prefix_trait", "get_trait") and args:
        return args[0]
    if f == "dict_getitem" and args:
        for suf in ("->itrait_dict", "->ctrait_dict"):
            if args[0].endswith(suf):
                return args[0][:-len(suf)]
    return None

@rule("C11.listener-pairing", ["C11"],
      "the forwarding listener of a deferred trait is attached and detached "
      "under the same pattern and tracked in the per-object table")
def listener_pairing(ctx, res):
    repo = get_pyrepo(ctx)
    mod = repo.module(HT)
    init = repo.func(HT, "HasTraits._init_trait_delegate_listener")
    rem = repo.func(HT, "HasTraits._remove_trait_delegate_listener")
    ips = [a.arg for a in init.args.args]
    # init: pattern through _trait_delegate_name(name, pattern)
    pat_defs = {a.targets[0].id: norm(a.value) for a in ast.walk(init)
                if isinstance(a, ast.Assign)
                and isinstance(a.targets[0], ast.Name)}
    regs = [c for c in ast.walk(init) if is_self_call(c, "on_trait_change")]
    res.instance("_init_trait_delegate_listener", mod.loc(init))
    if len(regs) != 1:
        raise AnalysisError("_init_trait_delegate_listener: registration")
    pvar = norm(regs[0].args[1])
    res.oblige(pat_defs.get(pvar) == f"self._trait_delegate_name({ips[1]}, "
               f"{ips[3]})", "init:pattern", mod.loc(regs[0]),
               f"the listener is registered under `{pat_defs.get(pvar)}`; "
               f"expected self._trait_delegate_name(name, pattern)")
    hvar = norm(regs[0].args[0])
    stores = [norm(s) for s in ast.walk(init) if isinstance(s, ast.Assign)]
    res.oblige(any(s.endswith(f"[{ips[1]}] = {hvar}") and "ListenerTraits" in s
                   for s in stores), "init:table", mod.loc(init),
               "the registered handler is not recorded in the per-object "
               "listener table under the trait name")
    # notify forwards as a property change of the deferring name
    nf = [f for f in ast.walk(init) if isinstance(f, ast.FunctionDef)]
    ok = any(any(isinstance(c, ast.Call) and isinstance(c.func, ast.Attribute)
                 and c.func.attr == "trait_property_changed"
                 for c in ast.walk(f)) for f in nf)
    res.oblige(ok, "init:forward", mod.loc(init),
               "the listener does not forward as trait_property_changed")
    # remove(remove=True): same handler, same pattern expression, delete entry
    rps = [a.arg for a in rem.args.args]
    res.instance("_remove_trait_delegate_listener", mod.loc(rem))
    # the local bound to the per-object listener table
    tbl = None
    for a in ast.walk(rem):
        if isinstance(a, ast.Assign) and len(a.targets) == 1 \
                and isinstance(a.targets[0], ast.Name) \
                and "ListenerTraits" in norm(a.value) \
                and ".__dict__" in norm(a.value):
            tbl = a.targets[0].id
    if tbl is None:
        raise AnalysisError("_remove_trait_delegate_listener: listener "
                            "table local not found")
    from ..cfg import enumerate_paths
    from ..pycfg import build_cfg
    from ..pyfacts import atomic_facts, expand_locals
    # the two behaviours are told apart by the `remove` parameter on each
    # path (whatever the shape: if/else, guard clauses, early returns)
    g_ = build_cfg(rem, "_remove_trait_delegate_listener")
    classes = {"T": [], "F": []}
    for path in enumerate_paths(g_, max_paths=5000):
        if path and g_.nodes[path[-1][0]].id == g_.raise_exit.id:
            continue
        facts, nodes = set(), []
        for nid, lab in path:
            nd = g_.nodes[nid]
            if nd.kind == "cond" and lab in ("T", "F"):
                facts |= atomic_facts(rem, nd.ast, lab == "T")
            elif nd.ast is not None:
                nodes.append(nd.ast)
        pol = {t for t, a in facts if a == rps[2]}
        if len(pol) != 1:
            raise AnalysisError("_remove_trait_delegate_listener: a path "
                                "does not decide `remove`")
        classes[pol.pop()].append((facts, nodes))
    if not classes["T"] or not classes["F"]:
        raise AnalysisError("_remove_trait_delegate_listener: `if remove:`")

    def _calls_on(paths, name):
        seen, out = set(), []
        for facts, nodes in paths:
            for a_ in nodes:
                for c_ in ast.walk(a_):
                    if is_self_call(c_, name) and id(c_) not in seen:
                        seen.add(id(c_))
                        out.append(c_)
        return out
    unregs = _calls_on(classes["T"], "on_trait_change")
    blk = ast.Module([a_ for facts, nodes in classes["T"] for a_ in nodes
                      if isinstance(a_, ast.stmt)], [])
    ok = False
    pattern_exprs = []
    if len(unregs) == 1:
        c = unregs[0]
        kws = {k.arg: norm(k.value) for k in c.keywords}
        exp_tbl = norm(expand_locals(rem, ast.Name(tbl, ast.Load())))
        a0 = expand_locals(rem, c.args[0])
        a1 = expand_locals(rem, c.args[1])
        ok = (norm(a0).replace(exp_tbl, tbl) in (f"{tbl}[{rps[1]}]",
                                                 f"{tbl}.pop({rps[1]})")
              and norm(a1).startswith(
                  f"self._trait_delegate_name({rps[1]}, ")
              and kws.get("remove") == "True")
        pattern_exprs.append(a1)
    res.oblige(ok, "remove:unregister", mod.loc(rem),
               "detaching must call on_trait_change(<recorded handler>, "
               "self._trait_delegate_name(name, <class pattern>), "
               "remove=True)")
    # every detaching path also deletes the table entry
    def _deletes(nodes):
        for a_ in nodes:
            for d in ast.walk(a_):
                if isinstance(d, ast.Delete) and any(
                        norm(t) == f"{tbl}[{rps[1]}]" for t in d.targets):
                    return True
                if isinstance(d, ast.Call) \
                        and norm(d) == f"{tbl}.pop({rps[1]})":
                    return True
        return False
    det = [(f_, n_) for f_, n_ in classes["T"]
           if any(c_ is unregs[0] for a_ in n_ for c_ in ast.walk(a_))] \
        if unregs else []
    res.oblige(bool(det) and all(_deletes(n_) for f_, n_ in det),
               "remove:table", mod.loc(rem),
               "the table entry is not deleted when the listener is detached "
               "(deleting the local value would not re-attach it)")
    # remove=False: re-initialise iff absent, with the class pattern
    re_init = _calls_on(classes["F"], "_init_trait_delegate_listener")
    exp_tbl = norm(expand_locals(rem, ast.Name(tbl, ast.Load())))

    def _absent(facts):
        """True / False when the path has decided `name in table`, else
        None"""
        for t, a in facts:
            a = a.replace(exp_tbl, tbl)
            if a == f"{rps[1]} not in {tbl}":
                return t == "T"
            if a == f"{rps[1]} in {tbl}":
                return t == "F"
        return None
    restore_ok = len(re_init) == 1
    for facts, nodes in classes["F"]:
        does = any(c_ is re_init[0] for a_ in nodes for c_ in ast.walk(a_)) \
            if re_init else False
        if _absent(facts) is None or does != _absent(facts):
            restore_ok = False
    res.oblige(restore_ok,
               "remove:restore", mod.loc(rem),
               "deleting the local value must re-attach the listener (only "
               "when absent)")
    if len(re_init) == 1:
        pattern_exprs.append(re_init[0].args[2])
    # the pattern used to detach / restore agrees with the two attach sites:
    # the class-level table entry (metaclass) and, for a delegate added with
    # add_trait, whatever _trait_added_changed computes - and looking the
    # name up in the class-level table cannot raise for the latter
    added = repo.func(HT, "HasTraits._trait_added_changed")
    inst_calls = [c for c in ast.walk(added)
                  if is_self_call(c, "_init_trait_delegate_listener")]
    if len(inst_calls) != 1:
        raise AnalysisError("_trait_added_changed: attach site not found")
    inst_pat = inst_calls[0].args[2]
    inst_fn = norm(inst_pat.func).split(".")[-1] \
        if isinstance(inst_pat, ast.Call) else None
    for i, pe in enumerate(pattern_exprs):
        table, callees, unguarded = _pattern_sources(repo, mod, pe, rps[1])
        which = "unregister" if i == 0 and len(pattern_exprs) == 2 or \
            (len(pattern_exprs) == 1 and not re_init) else "restore"
        res.oblige(table, f"remove:{which}:class-pattern", mod.loc(rem),
                   "the pattern does not come from the class-level listener "
                   "table: a different pattern than the one attached")
        res.oblige(not unguarded, f"remove:{which}:instance-delegate",
                   unguarded[0] if unguarded else mod.loc(rem),
                   "the class-level table is subscripted without a membership "
                   "test: KeyError for a delegate added with add_trait")
        if inst_fn is not None:
            res.oblige(inst_fn in callees,
                       f"remove:{which}:instance-pattern", mod.loc(rem),
                       f"a delegate added with add_trait is attached under "
                       f"{inst_fn}(...) but this site never computes that "
                       f"pattern")
    # the class-level pattern comes from get_delegate_pattern
    uses = [c for c in ast.walk(repo.module(HT).tree) if isinstance(c, ast.Call)
            and norm(c.func) == "get_delegate_pattern"]
    res.oblige(bool(uses), "metaclass:pattern", HT,
               "get_delegate_pattern is no longer used to build the "
               "class-level listener table")
    res.floor(2)



@rule("C11.listener-restore", ["C11"],
      "_remove_trait_delegate_listener(name, remove=False) - the call made "
      "when a local override is deleted - re-installs the forwarding "
      "listener unless it is already recorded: no other exit on that branch")
def listener_restore(ctx, res):
    from .containers import FactFlow
    repo = get_pyrepo(ctx)
    mod = repo.module(HT)
    fn = repo.func(HT, "HasTraits._remove_trait_delegate_listener")
    ps = [a.arg for a in fn.args.args]
    namep, rmp = ps[1], ps[2]

    class F(FactFlow):
        def classify(s, e, node):
            if is_self_call(e, "_init_trait_delegate_listener"):
                return [("INIT", False)]
            return []

        def step(s, st, ev, e, node):
            return st | {("DID", "init")}
    flagdefs = {}
    for a in ast.walk(fn):
        if isinstance(a, ast.Assign) and len(a.targets) == 1 \
                and isinstance(a.targets[0], ast.Name) \
                and isinstance(a.value, ast.Compare):
            flagdefs[a.targets[0].id] = norm(a.value)
    fl = F(mod, fn, "HasTraits._remove_trait_delegate_listener")
    fl.run(frozenset())
    g = fl.cfg
    bad = []
    n_paths = 0
    for st in fl.states[g.exit.id]:
        if ("T", rmp) in st:
            continue            # the removing call
        n_paths += 1
        if ("DID", "init") in st:
            continue
        def _member(f):
            """(truth of `name in <table>`) established by a fact, through a
            flag local when the test was hoisted"""
            t = flagdefs.get(f[1], f[1])
            if t.startswith(f"{namep} not in "):
                return f[0] == "F"
            if t.startswith(f"{namep} in "):
                return f[0] == "T"
            return None
        recorded = any(_member(f) is True for f in st)
        if not recorded:
            bad.append(st)
    res.instance("_remove_trait_delegate_listener:restore", mod.loc(fn),
                 restore_paths=n_paths)
    if n_paths == 0:
        raise AnalysisError("_remove_trait_delegate_listener: no "
                            "remove=False path")
    res.oblige(not bad, "_remove_trait_delegate_listener:restore",
               mod.loc(fn),
               f"with remove=False the function can return without "
               f"re-installing the forwarding listener although the name is "
               f"not recorded as having one (facts: "
               f"{sorted(str(f) for f in (bad[0] if bad else []))[:5]}): "
               f"after `del obj.x` restores the link, changes of the "
               f"prototype are no longer announced on obj.x")
    res.floor(1)


# ---------------------------------------------------------------------------
# C11.listener-inheritance: with several HasTraits bases the first base (MRO
# order) that defines a name provides its class trait.  The forwarding-
# listener pattern (and the property observe states) recorded for that name
# must come from the *same* base.  The metaclass gets this from the order of
# work inside one loop over the bases: base k's listener / observer entries
# are taken only if no earlier base (and not the class itself) has defined
# the name - which is read off `class_traits`, filled base by base - and only
# then base k's class traits are merged.

@rule("C11.listener-inheritance", ["C11", "C12", "C16"],
      "the metaclass inherits a name's listener / observer record from the "
      "same base class that provides its class trait: inside one loop over "
      "the bases, the records are merged under `name not in class_traits` "
      "before that base's class traits are merged")
def listener_inheritance(ctx, res):
    repo = get_pyrepo(ctx)
    mod = repo.module(HT)
    fn = repo.inlined(HT, "update_traits_class_dict")
    # tables by the key they are published under
    pub = {}
    for a in ast.walk(fn):
        if isinstance(a, ast.Assign) and len(a.targets) == 1 \
                and isinstance(a.targets[0], ast.Subscript) \
                and norm(a.targets[0].value) == "class_dict" \
                and isinstance(a.value, ast.Name):
            pub[norm(a.targets[0].slice)] = a.value.id
    for k in ("ClassTraits", "ListenerTraits", "ObserverTraits"):
        if k not in pub:
            raise AnalysisError(f"update_traits_class_dict: class_dict[{k}]")
    ct = pub["ClassTraits"]
    base_loops = [l for l in ast.walk(fn) if isinstance(l, ast.For)
                  and any(isinstance(c, ast.Attribute) and c.attr == "__dict__"
                          and norm(c.value) == norm(l.target)
                          for c in ast.walk(l))
                  and not isinstance(l.target, ast.Tuple)]

    def writes(stmt, table):
        return any(isinstance(a, ast.Assign) and any(
            isinstance(t, ast.Subscript) and norm(t.value) == table
            for t in a.targets) for a in ast.walk(stmt))

    def guarded_by_absent(stmt, table):
        """every store into `table` inside stmt sits under a test containing
        `<key> not in <class traits>`"""
        ok = True
        for i in ast.walk(stmt):
            if isinstance(i, ast.If):
                inside = any(writes(b, table) for b in i.body)
                if inside and f"not in {ct}" not in norm(i.test):
                    ok = False
        for a in ast.walk(stmt):
            if isinstance(a, ast.Assign) and writes(a, table):
                # must be inside some If of stmt
                if not any(isinstance(i, ast.If) and any(
                        a in list(ast.walk(b)) for b in i.body)
                        for i in ast.walk(stmt)):
                    ok = False
        return ok

    for key in ("ListenerTraits", "ObserverTraits"):
        table = pub[key]
        n_ok = 0
        why = "no loop over the base classes merges it"
        for lp in base_loops:
            body = lp.body
            iw = [i for i, s_ in enumerate(body) if writes(s_, table)]
            ic = [i for i, s_ in enumerate(body) if writes(s_, ct)]
            if not iw:
                continue
            if not ic:
                why = (f"`{table}` is merged in a loop over the bases that "
                       f"does not also merge `{ct}`: the test "
                       f"`name not in {ct}` then no longer means 'no earlier "
                       f"base defines the name'")
                continue
            if max(iw) > min(ic):
                why = (f"`{table}` is merged after `{ct}` within the loop "
                       f"body: the base's own names are already present and "
                       f"nothing is inherited")
                continue
            if not all(guarded_by_absent(body[i], table) for i in iw):
                why = (f"a store into `{table}` is not guarded by "
                       f"`name not in {ct}`")
                continue
            n_ok += 1
        res.instance(f"metaclass:{key}", mod.loc(fn), table=table)
        res.oblige(n_ok == 1, f"metaclass:{key}:same-base", mod.loc(fn),
                   f"{why}: with two bases defining the same deferred / "
                   f"observed name, the class trait comes from the first base "
                   f"and the listener record from another one (the listener "
                   f"watches the wrong `delegate:attr` pattern)")
    res.floor(2)
