"""More container rules: event-factory purity and roles, self-attribute
closure, copy-protocol sibling agreement (C05-C07, C14)."""
from __future__ import annotations

import ast
import builtins

from ..core import AnalysisError, rule
from ..pyfacts import (get_pyrepo, is_self_attr, is_self_call, is_super_call,
                       names_in, norm)
from ..pyflow import PyFlow
from .containers import FILES, container_classes

OBS = "traits/observation/"
FACTORIES = {
    "list_event_factory": (OBS + "_list_change_event.py", "C05",
                           {"object": {0}, "index": {1}, "removed": {2},
                            "added": {3}}),
    "dict_event_factory": (OBS + "_dict_change_event.py", "C06",
                           {"object": {0}, "removed": {1, 3},
                            "added": {2, 0, 3}}),
    "set_event_factory": (OBS + "_set_change_event.py", "C07",
                          {"object": {0}, "removed": {1}, "added": {2}}),
    "trait_event_factory": (OBS + "_trait_change_event.py", "C02",
                            {"object": {0}, "name": {1}, "old": {2},
                             "new": {3}}),
}
MUTATING_METHODS = {"update", "pop", "popitem", "clear", "setdefault",
                    "append", "extend", "insert", "remove", "sort", "reverse",
                    "add", "discard", "difference_update",
                    "intersection_update", "symmetric_difference_update",
                    "__setitem__", "__delitem__", "__ior__", "__iadd__"}
FRESH_CALLS = {"dict", "list", "set", "tuple", "frozenset", "sorted"}


class PurityFlow(PyFlow):
    """state = frozenset of local names that alias a caller-owned object."""

    def __init__(self, module, func):
        super().__init__(module, func)
        a = func.args
        self.params = [x.arg for x in a.posonlyargs + a.args + a.kwonlyargs]

    def classify(self, e, node):
        if isinstance(e, (ast.Assign, ast.AugAssign, ast.Delete)):
            return [("A", False)]
        if isinstance(e, ast.Call) and isinstance(e.func, ast.Attribute) \
                and isinstance(e.func.value, ast.Name) \
                and e.func.attr in MUTATING_METHODS:
            return [("MC", False)]
        return []

    def is_alias(self, e, st):
        return isinstance(e, ast.Name) and e.id in st

    def step(self, st, ev, e, node):
        if ev == "MC":
            if e.func.value.id in st:
                self.flag(("mutates-parameter", e.func.value.id, e.func.attr),
                          f"`{norm(e)}` mutates the caller's "
                          f"`{e.func.value.id}` object")
            return st
        if isinstance(e, ast.Delete):
            for t in e.targets:
                if isinstance(t, (ast.Subscript, ast.Attribute)) \
                        and self.is_alias(t.value, st):
                    self.flag(("mutates-parameter", t.value.id, "del"),
                              f"`{norm(e)}` mutates the caller's object")
            return st
        if isinstance(e, ast.AugAssign):
            t = e.target
            if self.is_alias(t, st):
                self.flag(("mutates-parameter", t.id, "augassign"),
                          f"`{norm(e)}` may mutate the caller's `{t.id}` in "
                          f"place")
            elif isinstance(t, (ast.Subscript, ast.Attribute)) \
                    and self.is_alias(t.value, st):
                self.flag(("mutates-parameter", t.value.id, "store"),
                          f"`{norm(e)}` writes into the caller's object")
            return st
        # Assign
        new = set(st)
        v = e.value
        for t in e.targets:
            if isinstance(t, ast.Name):
                if self.is_alias(v, st):
                    new.add(t.id)
                else:
                    new.discard(t.id)
            elif isinstance(t, (ast.Subscript, ast.Attribute)) \
                    and self.is_alias(t.value, st):
                self.flag(("mutates-parameter", t.value.id, "store"),
                          f"`{norm(e)}` writes into the caller's "
                          f"`{t.value.id}` object (the same delta object is "
                          f"passed to every other notifier)")
        return frozenset(new)


def _derives_from(fn, expr, params):
    """Indices of the parameters an expression (transitively through local
    assignments, flow-insensitively) derives from."""
    defs = {}
    for n in ast.walk(fn):
        if isinstance(n, ast.Assign):
            for t in n.targets:
                if isinstance(t, ast.Name):
                    defs.setdefault(t.id, []).append(n.value)
                elif isinstance(t, ast.Subscript) and isinstance(t.value, ast.Name):
                    defs.setdefault(t.value.id, []).extend([n.value, t.slice])
        elif isinstance(n, ast.Call) and isinstance(n.func, ast.Attribute) \
                and isinstance(n.func.value, ast.Name) \
                and n.func.attr in MUTATING_METHODS:
            defs.setdefault(n.func.value.id, []).extend(n.args)
        elif isinstance(n, (ast.For, ast.comprehension)):
            for nm in names_in(n.target):
                defs.setdefault(nm, []).append(n.iter)
    seen, out = set(), set()
    stack = list(names_in(expr))
    while stack:
        x = stack.pop()
        if x in seen:
            continue
        seen.add(x)
        if x in params:
            out.add(params.index(x))
        for d in defs.get(x, []):
            stack.extend(names_in(d))
    return out


def _factory_rule(fname):
    rel, prop, roles = FACTORIES[fname]

    @rule(f"{prop}.factory-pure", [prop],
          f"{fname} does not mutate the delta objects it is given and maps "
          f"each delta part to the same-named event field")
    def _r(ctx, res, fname=fname):
        factory_pure(ctx, res, fname)
    return _r


def factory_pure(ctx, res, only):
    repo = get_pyrepo(ctx)
    # resolve the factories actually registered by the observers
    used = set()
    for rel, m in repo.modules.items():
        if not rel.startswith(OBS):
            continue
        for n in ast.walk(m.tree):
            if isinstance(n, ast.keyword) and n.arg == "event_factory" \
                    and isinstance(n.value, ast.Name):
                used.add(n.value.id)
    unknown = used - set(FACTORIES)
    if unknown:
        raise AnalysisError(f"event factories not in the table: {unknown}")
    if len(used) < 4:
        raise AnalysisError(f"only {sorted(used)} registered as event_factory")
    if only not in used:
        raise AnalysisError(f"{only} is no longer registered as event_factory")
    for name, (rel, prop, roles) in FACTORIES.items():
        if name != only:
            continue
        mod = repo.module(rel)
        fn = repo.func(rel, name)
        fl = PurityFlow(mod, fn)
        fl.run(frozenset(fl.params))
        res.instance(name, mod.loc(fn), params=fl.params)
        hits = fl.findings()
        for k, msg, loc, path in hits:
            res.violation(f"{name}:{':'.join(k)}", loc, msg, path)
        if not hits:
            res.oblige(True, name, "", "")
        # totality: every entry of a delta part is carried over - nothing in
        # the factory (or a private helper it uses) is conditional on the
        # *values* (an entry re-assigned the identical object is still a
        # `changed` entry: dropping it gives observers an empty event)
        fni = repo.inlined(rel, name)
        for lp in [n for n in ast.walk(fni) if isinstance(n, ast.For)]:
            skips = [x for x in ast.walk(lp) if isinstance(
                x, (ast.If, ast.Continue, ast.Break, ast.IfExp))]
            src = {n_.id for n_ in ast.walk(lp.iter) if isinstance(n_, ast.Name)}
            if src & set(fl.params):
                res.oblige(not skips, f"{name}:total", mod.loc(
                    skips[0] if skips else lp),
                    f"{name} treats the entries of `{norm(lp.iter)[:40]}` "
                    f"conditionally: some of them do not reach the event "
                    f"although the container reported them")
        for comp in [n for n in ast.walk(fni) if isinstance(
                n, (ast.DictComp, ast.ListComp, ast.SetComp, ast.GeneratorExp))]:
            for gen in comp.generators:
                src = {n_.id for n_ in ast.walk(gen.iter)
                       if isinstance(n_, ast.Name)}
                if src & set(fl.params):
                    res.oblige(not gen.ifs, f"{name}:total", mod.loc(comp),
                               f"{name} filters the entries of "
                               f"`{norm(gen.iter)[:40]}`")
        # roles
        for ret in [n for n in ast.walk(fn) if isinstance(n, ast.Return)]:
            call = ret.value
            if not isinstance(call, ast.Call):
                res.violation(f"{name}:return", mod.loc(ret),
                              "factory does not return an event construction")
                continue
            kws = {k.arg: k.value for k in call.keywords}
            for field, allowed in roles.items():
                if field not in kws:
                    res.violation(f"{name}:role:{field}", mod.loc(ret),
                                  f"event field {field} not passed")
                    continue
                got = _derives_from(fn, kws[field], fl.params)
                primary = min(allowed) if field != "added" else (
                    2 if name == "dict_event_factory" else min(allowed))
                ok = got <= allowed and primary in got
                res.oblige(ok, f"{name}:role:{field}", mod.loc(ret),
                           f"event field `{field}` is built from parameters "
                           f"{sorted(fl.params[i] for i in got)}; expected it "
                           f"to derive from "
                           f"{sorted(fl.params[i] for i in allowed)}")
    res.floor(1)


for _f in FACTORIES:
    _factory_rule(_f)


# ---------------------------------------------------------------------------
# self-attribute closure

CLOSURE_FILES = [
    "traits/trait_list_object.py", "traits/trait_dict_object.py",
    "traits/trait_set_object.py",
    OBS + "_trait_event_notifier.py", OBS + "_observer_change_notifier.py",
    OBS + "_named_trait_observer.py", OBS + "_list_item_observer.py",
    OBS + "_dict_item_observer.py", OBS + "_set_item_observer.py",
    OBS + "_filtered_trait_observer.py", OBS + "_trait_added_observer.py",
    OBS + "_observer_graph.py", OBS + "_observe.py", OBS + "expression.py",
    OBS + "_metadata_filter.py", OBS + "_anytrait_filter.py",
    OBS + "_list_change_event.py", OBS + "_dict_change_event.py",
    OBS + "_set_change_event.py", OBS + "_trait_change_event.py",
]
ALWAYS = {"__dict__", "__class__", "__doc__", "__module__", "__slots__",
          "__weakref__"}


def class_attr_universe(repo, ci):
    """Names that an instance of ``ci`` can legitimately load via self.X, or
    None when a base cannot be resolved (class skipped)."""
    names = set(ALWAYS) | set(dir(object))
    for c in repo.mro(ci):
        if isinstance(c, str):
            bt = getattr(builtins, c, None)
            if isinstance(bt, type):
                names |= set(dir(bt))
                continue
            return None
        names |= set(c.methods) | set(c.attrs)
        for stmt in c.node.body:
            if isinstance(stmt, ast.Assign):
                for t in stmt.targets:
                    names |= names_in(t)
        for fn in c.methods.values():
            a = fn.args.posonlyargs + fn.args.args
            selfn = a[0].arg if a else "self"
            state_names = set()
            for n in ast.walk(fn):
                if isinstance(n, ast.Attribute) \
                        and isinstance(n.ctx, (ast.Store, ast.Del)) \
                        and isinstance(n.value, ast.Name) \
                        and n.value.id in (selfn, "self"):
                    names.add(n.attr)
                # setattr(self, "x", ...)
                if isinstance(n, ast.Call) and isinstance(n.func, ast.Name) \
                        and n.func.id == "setattr" and len(n.args) >= 2 \
                        and isinstance(n.args[1], ast.Constant):
                    names.add(n.args[1].value)
                # self.__dict__.update(state): string keys written to `state`
                if isinstance(n, ast.Call) and isinstance(n.func, ast.Attribute) \
                        and n.func.attr == "update" \
                        and norm(n.func.value) == f"{selfn}.__dict__" \
                        and n.args and isinstance(n.args[0], ast.Name):
                    state_names.add(n.args[0].id)
            for n in ast.walk(fn):
                if isinstance(n, ast.Subscript) \
                        and isinstance(n.ctx, ast.Store) \
                        and isinstance(n.value, ast.Name) \
                        and n.value.id in state_names \
                        and isinstance(n.slice, ast.Constant):
                    names.add(n.slice.value)
                if isinstance(n, ast.Call) and isinstance(n.func, ast.Attribute) \
                        and n.func.attr == "setdefault" \
                        and isinstance(n.func.value, ast.Name) \
                        and n.func.value.id in state_names and n.args \
                        and isinstance(n.args[0], ast.Constant):
                    names.add(n.args[0].value)
    return names


CLOSURE_GROUPS = {
    "C05": (["C05", "C14"], CLOSURE_FILES[0:1] + [OBS + "_list_change_event.py",
                                                   OBS + "_list_item_observer.py"], 4),
    "C06": (["C06", "C14"], CLOSURE_FILES[1:2] + [OBS + "_dict_change_event.py",
                                                   OBS + "_dict_item_observer.py"], 4),
    "C07": (["C07", "C14"], CLOSURE_FILES[2:3] + [OBS + "_set_change_event.py",
                                                   OBS + "_set_item_observer.py"], 4),
    "obs": (["C08", "C09"], [f for f in CLOSURE_FILES[3:]
                             if "_change_event" not in f or "_trait_" in f], 14),
}


def _closure_rule(group):
    props, files, floor = CLOSURE_GROUPS[group]

    @rule(f"{group}.self-closure", props,
          "every self.<attr> read resolves to an attribute the class defines")
    def _r(ctx, res):
        self_closure(ctx, res, files, floor)
    return _r


def self_closure(ctx, res, files, floor):
    repo = get_pyrepo(ctx)
    analysed = skipped = 0
    for rel in files:
        mod = repo.module(rel)
        for ci in mod.classes.values():
            uni = class_attr_universe(repo, ci)
            if uni is None:
                skipped += 1
                res.note(f"{rel}:{ci.name} skipped (unresolved base "
                         f"{ci.base_names})")
                continue
            analysed += 1
            loads = 0
            for fn in ci.methods.values():
                a = fn.args.posonlyargs + fn.args.args
                if not a or any(isinstance(d, ast.Name) and d.id in
                                ("staticmethod", "classmethod")
                                for d in fn.decorator_list):
                    continue
                selfn = a[0].arg
                guarded = set()
                for n in ast.walk(fn):
                    # hasattr(self, "x") / getattr(self, "x", d) guards
                    if isinstance(n, ast.Call) and isinstance(n.func, ast.Name) \
                            and n.func.id in ("hasattr", "getattr") \
                            and len(n.args) >= 2 \
                            and isinstance(n.args[1], ast.Constant):
                        guarded.add(n.args[1].value)
                for n in ast.walk(fn):
                    if isinstance(n, ast.Attribute) \
                            and isinstance(n.ctx, ast.Load) \
                            and isinstance(n.value, ast.Name) \
                            and n.value.id == selfn:
                        loads += 1
                        ok = n.attr in uni or n.attr in guarded
                        res.oblige(
                            ok, f"{ci.name}.{fn.name}:self.{n.attr}",
                            mod.loc(n),
                            f"`{selfn}.{n.attr}` is read but no class in the "
                            f"hierarchy of {ci.name} defines `{n.attr}` "
                            f"(AttributeError at run time)")
            res.instance(f"{rel}:{ci.name}", mod.loc(ci.node), loads=loads,
                         nontrivial=loads > 0)
    res.note(f"classes analysed={analysed} skipped={skipped}")
    res.floor(floor)


for _g in CLOSURE_GROUPS:
    _closure_rule(_g)


# ---------------------------------------------------------------------------
# copy-siblings

def _removed_keys(fn, var_names):
    out = set()
    for n in ast.walk(fn):
        if isinstance(n, ast.Call) and isinstance(n.func, ast.Attribute) \
                and n.func.attr == "pop" and isinstance(n.func.value, ast.Name) \
                and n.func.value.id in var_names and n.args \
                and isinstance(n.args[0], ast.Constant):
            out.add(n.args[0].value)
        if isinstance(n, ast.Delete):
            for t in n.targets:
                if isinstance(t, ast.Subscript) and isinstance(t.value, ast.Name) \
                        and t.value.id in var_names \
                        and isinstance(t.slice, ast.Constant):
                    out.add(t.slice.value)
    return out


class SetStateFlow(PyFlow):
    """state = (frozenset(keys assigned so far -> value text), updated?)"""

    def __init__(self, module, func, qual):
        super().__init__(module, func, qual)
        ps = [a.arg for a in func.args.args]
        self.selfn, self.staten = ps[0], ps[1]

    def classify(self, e, node):
        if isinstance(e, ast.Assign):
            return [("A", False)]
        if isinstance(e, ast.Call) and isinstance(e.func, ast.Attribute):
            if e.func.attr == "update" \
                    and norm(e.func.value) == f"{self.selfn}.__dict__":
                return [("U", False)]
            if e.func.attr in ("setdefault", "pop") \
                    and isinstance(e.func.value, ast.Name) \
                    and e.func.value.id == self.staten and e.args \
                    and isinstance(e.args[0], ast.Constant):
                return [("SD" if e.func.attr == "setdefault" else "POP", False)]
        return []

    def step(self, st, ev, e, node):
        keys, updated = st
        d = dict(keys)
        if ev == "A":
            for t in e.targets:
                if isinstance(t, ast.Subscript) and isinstance(t.value, ast.Name) \
                        and t.value.id == self.staten \
                        and isinstance(t.slice, ast.Constant):
                    d[t.slice.value] = norm(e.value)
            return (frozenset(d.items()), updated)
        if ev == "SD":
            d.setdefault(e.args[0].value, "setdefault")
            return (frozenset(d.items()), updated)
        if ev == "POP":
            d.pop(e.args[0].value, None)
            return (frozenset(d.items()), updated)
        if ev == "U":
            if not (e.args and norm(e.args[0]) == self.staten):
                self.flag(("setstate", "update-arg"),
                          "__dict__.update() not called with the state")
            return (keys, True)
        return st


def _with_local_defs(fn, expr, depth=3):
    """The expression together with the defining expressions of the local
    names it uses (so that an extracted temporary is not a difference)."""
    out, todo, seen = [expr], [expr], set()
    for _ in range(depth):
        nxt = []
        for x in todo:
            for nm in names_in(x):
                if nm in seen:
                    continue
                seen.add(nm)
                for n in ast.walk(fn):
                    if isinstance(n, ast.Assign) and any(
                            isinstance(t, ast.Name) and t.id == nm
                            for t in n.targets):
                        nxt.append(n.value)
        out.extend(nxt)
        todo = nxt
    return out


def _copy_rule(kind):
    from .containers import PROP_OF
    prop = PROP_OF[kind]

    @rule(f"{prop}.copy-protocol", [prop, "C14"],
          f"Trait{kind.capitalize()}/Trait{kind.capitalize()}Object implement "
          f"__getstate__/__setstate__/__deepcopy__ with the skeleton shared "
          f"by the six container classes")
    def _r(ctx, res):
        copy_siblings(ctx, res, kind)
    return _r


def copy_siblings(ctx, res, only):
    repo, classes = container_classes(ctx)
    for kind, (mod, base, obj) in classes.items():
        if kind != only:
            continue
        validators = {"list": ["item_validator"],
                      "dict": ["key_validator", "value_validator"],
                      "set": ["item_validator"]}[kind]
        # ---- __getstate__ ------------------------------------------------
        for cls, expect_removed, via_super in ((base, {"notifiers"}, False),
                                               (obj, {"object", "trait"}, True)):
            key = f"{cls.name}.__getstate__"
            fn = cls.methods.get("__getstate__")
            if fn is None:
                res.instance(key, mod.loc(cls.node))
                res.violation(key + ":missing", mod.loc(cls.node),
                              "__getstate__ not defined (siblings define it)")
                continue
            res.instance(key, mod.loc(fn))
            selfn = fn.args.args[0].arg
            srcs = [n for n in ast.walk(fn) if isinstance(n, ast.Assign)
                    and isinstance(n.targets[0], ast.Name)]
            state_vars = set()
            src_ok = False
            for a in srcs:
                v = a.value
                if via_super and is_super_call(v) == "__getstate__":
                    src_ok = True
                    state_vars.add(a.targets[0].id)
                if not via_super and norm(v) == f"{selfn}.__dict__.copy()":
                    src_ok = True
                    state_vars.add(a.targets[0].id)
            res.oblige(src_ok, key + ":source", mod.loc(fn),
                       "state is not taken from " +
                       ("super().__getstate__()" if via_super
                        else "a copy of self.__dict__ (the live __dict__ "
                             "would be mutated)"))
            removed = _removed_keys(fn, state_vars)
            res.oblige(expect_removed <= removed, key + ":transient",
                       mod.loc(fn),
                       f"transient entries {sorted(expect_removed - removed)} "
                       f"are not dropped from the pickled state (siblings "
                       f"drop {sorted(expect_removed)})")
            rets = [n for n in ast.walk(fn) if isinstance(n, ast.Return)]
            res.oblige(bool(rets) and all(
                isinstance(r.value, ast.Name) and r.value.id in state_vars
                for r in rets), key + ":returns", mod.loc(fn),
                "does not return the filtered state")
        # ---- __setstate__ ------------------------------------------------
        for cls, is_obj in ((base, False), (obj, True)):
            key = f"{cls.name}.__setstate__"
            fn = cls.methods.get("__setstate__")
            if fn is None:
                res.instance(key, mod.loc(cls.node))
                res.violation(key + ":missing", mod.loc(cls.node),
                              "__setstate__ not defined")
                continue
            res.instance(key, mod.loc(fn))
            fl = SetStateFlow(mod, fn, key)
            fl.run((frozenset(), False))
            selfn = fl.selfn
            for k, msg, loc, path in fl.findings():
                res.violation(f"{key}:{k[1]}", loc, msg, path)
            for st in fl.states[fl.cfg.exit.id]:
                d, updated = dict(st[0]), st[1]
                res.oblige(updated, key + ":update", mod.loc(fn),
                           "a path returns without self.__dict__.update(state)")
                want = f"[{selfn}.notifier]" if is_obj else "[]"
                res.oblige(d.get("notifiers") == want, key + ":notifiers",
                           mod.loc(fn),
                           f"restored notifiers are `{d.get('notifiers')}`, "
                           f"siblings restore `{want}`")
                if is_obj:
                    res.oblige("object" in d, key + ":object", mod.loc(fn),
                               "a path restores no `object` reference")
                    res.oblige("name" in d, key + ":name", mod.loc(fn),
                               "`name` is not defaulted")
        # ---- __deepcopy__ --------------------------------------------------
        for cls, is_obj in ((base, False), (obj, True)):
            key = f"{cls.name}.__deepcopy__"
            fn = cls.methods.get("__deepcopy__")
            if fn is None:
                res.instance(key, mod.loc(cls.node))
                res.violation(key + ":missing", mod.loc(cls.node),
                              "__deepcopy__ not defined")
                continue
            res.instance(key, mod.loc(fn))
            selfn, memon = [a.arg for a in fn.args.args[:2]]
            from ..pyfacts import loops_to_comprehensions
            fn = loops_to_comprehensions(fn)
            calls = [n for n in ast.walk(fn) if isinstance(n, ast.Call)
                     and norm(n.func) in (cls.name, f"type({selfn})",
                                          f"{selfn}.__class__")]
            if not res.oblige(len(calls) == 1, key + ":constructs",
                              mod.loc(fn),
                              f"does not construct a new {cls.name}"):
                continue
            c = calls[0]
            _ldefs = {}
            for a_ in ast.walk(fn):
                if isinstance(a_, ast.Assign) and len(a_.targets) == 1 \
                        and isinstance(a_.targets[0], ast.Name):
                    _ldefs.setdefault(a_.targets[0].id, []).append(a_.value)

            def _rl(e):
                """a name with a single local definition stands for it"""
                for _ in range(3):
                    if isinstance(e, ast.Name) and len(
                            _ldefs.get(e.id, [])) == 1:
                        e = _ldefs[e.id][0]
                    else:
                        break
                return e
            if is_obj:
                args = [norm(_rl(a)) for a in c.args]
                res.oblige(len(args) == 4 and args[0] == f"{selfn}.trait"
                           and args[1] == "None" and args[2] == f"{selfn}.name",
                           key + ":args", mod.loc(c),
                           f"copy is constructed with ({', '.join(args[:3])}, "
                           f"...) instead of ({selfn}.trait, None, "
                           f"{selfn}.name, ...)")
                contents = c.args[3] if len(c.args) == 4 else None
            else:
                contents = c.args[0] if c.args else None
                kws = {k.arg: k.value for k in c.keywords}
                for vname in validators:
                    want = f"copy.deepcopy({selfn}.{vname}, {memon})"
                    got = norm(_rl(kws[vname])) if vname in kws else None
                    res.oblige(got in (want, f"{selfn}.{vname}"),
                               key + f":{vname}", mod.loc(c),
                               f"{vname}= is `{got}`; the copy must keep "
                               f"validating with (a copy of) "
                               f"{selfn}.{vname}")
                nv = kws.get("notifiers")
                nv = _rl(nv) if nv is not None else None
                res.oblige(nv is None or norm(nv) in ("[]", "None"),
                           key + ":notifiers", mod.loc(c),
                           "notifiers are transient and must not be copied")
            exprs = [] if contents is None else _with_local_defs(fn, contents)
            ok = any(
                isinstance(n, ast.Call) and norm(n.func) == "copy.deepcopy"
                and len(n.args) == 2 and norm(n.args[1]) == memon
                for x in exprs for n in ast.walk(x)) and any(
                selfn in names_in(x) for x in exprs)
            res.oblige(ok, key + ":contents", mod.loc(c),
                       "contents are not deep-copied element-wise from self "
                       "with the memo")
            # every component of an element taken from self (for a dict:
            # key *and* value) goes through copy.deepcopy
            for x in exprs:
                for comp in ast.walk(x):
                    if not isinstance(comp, (ast.ListComp, ast.SetComp,
                                             ast.GeneratorExp, ast.DictComp)):
                        continue
                    gen = comp.generators[0]
                    if selfn not in names_in(gen.iter):
                        continue
                    tvars = set(names_in(gen.target))
                    parts = [comp.key, comp.value] if isinstance(
                        comp, ast.DictComp) else [comp.elt]
                    covered = set()
                    for part in parts:
                        for n in ast.walk(part):
                            if isinstance(n, ast.Call) and norm(n.func) == \
                                    "copy.deepcopy" and n.args:
                                covered |= {id(m) for m in ast.walk(n.args[0])}
                    bare = sorted({n.id for part in parts
                                   for n in ast.walk(part)
                                   if isinstance(n, ast.Name)
                                   and n.id in tvars and id(n) not in covered})
                    res.oblige(not bare, key + ":contents-shared",
                               mod.loc(comp),
                               f"`{', '.join(bare)}` of each element is put "
                               f"into the copy without copy.deepcopy: the "
                               f"copy shares that object with the original "
                               f"(hashable is not immutable - an Instance "
                               f"key stays the original's object)")
    if only == "set":
        # TraitSetObject.__reduce_ex__ must use the custom __getstate__
        mod, base, obj = classes["set"]
        fn = obj.methods.get("__reduce_ex__")
        res.instance("TraitSetObject.__reduce_ex__", mod.loc(fn or obj.node))
        res.oblige(fn is not None and any(
            is_self_call(n, "__getstate__") for n in ast.walk(fn)),
            "TraitSetObject.__reduce_ex__:getstate", mod.loc(fn or obj.node),
            "__reduce_ex__ does not call self.__getstate__()")
    res.floor(6)


for _k in ("list", "dict", "set"):
    _copy_rule(_k)


# ---------------------------------------------------------------------------
# C04.init-order: constructors set the attributes their helpers read first

def _self_reads(fn, selfn):
    """attributes of self a method reads (self.a / getattr(self, 'a', ...))"""
    out = set()
    for n in ast.walk(fn):
        if isinstance(n, ast.Attribute) and isinstance(n.ctx, ast.Load) \
                and isinstance(n.value, ast.Name) and n.value.id == selfn:
            out.add(n.attr)
        if isinstance(n, ast.Call) and isinstance(n.func, ast.Name) \
                and n.func.id == "getattr" and len(n.args) >= 2 \
                and isinstance(n.args[0], ast.Name) \
                and n.args[0].id == selfn \
                and isinstance(n.args[1], ast.Constant):
            out.add(n.args[1].value)
    return out


@rule("C04.init-order", ["C04", "C14"],
      "Trait*Object constructors assign the attributes (trait, object, name, "
      "...) before the first call of a helper that reads them - a length or "
      "item check run earlier sees the attribute missing and silently "
      "accepts")
def init_order(ctx, res):
    repo, classes = container_classes(ctx)
    n = 0
    for kind, (mod, base, obj) in classes.items():
        init = obj.methods.get("__init__")
        if init is None:
            raise AnalysisError(f"{obj.name}.__init__ missing")
        selfn = init.args.args[0].arg
        own_stores = {}
        for st in ast.walk(init):
            if isinstance(st, ast.Assign):
                for t in st.targets:
                    if is_self_attr(t, None, selfn):
                        own_stores.setdefault(t.attr, st.lineno)
        assigned = set()
        key = f"{obj.name}.__init__"
        res.instance(key, mod.loc(init), stores=sorted(own_stores))
        n += 1
        bad = []

        def uses_of(e):
            """(helper name, attributes it reads) for helpers invoked or
            handed out as bound methods by expression ``e``"""
            out = []
            for x in ast.walk(e):
                if isinstance(x, ast.Attribute) and isinstance(x.value, ast.Name) \
                        and x.value.id == selfn and x.attr in obj.methods:
                    m = obj.methods[x.attr]
                    msel = m.args.args[0].arg if m.args.args else "self"
                    out.append((x.attr, _self_reads(m, msel), x))
            return out
        for st in init.body:
            # evaluate right-hand sides / calls first, then the stores
            for x in ast.walk(st):
                if isinstance(x, (ast.Call, ast.keyword)):
                    pass
            for helper, reads, node in uses_of(st):
                missing = sorted(a for a in reads
                                 if a in own_stores and a not in assigned)
                if missing:
                    bad.append((helper, missing, node))
            for x in ast.walk(st):
                if isinstance(x, ast.Assign):
                    for t in x.targets:
                        if is_self_attr(t, None, selfn):
                            assigned.add(t.attr)
        for helper, missing, node in bad:
            res.violation(f"{key}:{helper}:before:{'+'.join(missing)}",
                          mod.loc(node),
                          f"{key} uses self.{helper} before assigning "
                          f"self.{', self.'.join(missing)}, which that helper "
                          f"reads: run this early the check degenerates (a "
                          f"missing `trait` means 'no constraint'), so e.g. "
                          f"an out-of-bounds default list is accepted")
        if not bad:
            res.oblige(True, key, "", "")
    res.floor(3)


# ---------------------------------------------------------------------------
# C0x.single-pass: a caller's iterable is traversed at most once

NON_CONSUMING = {"isinstance", "hasattr", "len", "type", "callable", "id",
                 "bool", "iter"}
MATERIALIZERS = {"list", "set", "tuple", "frozenset", "sorted", "dict"}


def _single_pass_rule(kind):
    from .containers import MUTATORS, PROP_OF, analyse_mutators

    prop = PROP_OF[kind]

    @rule(f"{prop}.single-pass", [prop, "C08"],
          f"no Trait{kind.capitalize()} mutator traverses an iterable argument "
          f"twice on one path (a generator is exhausted by the first pass: "
          f"the second pass - the real mutation or the computed delta - "
          f"sees nothing)")
    def _r(ctx, res, kind=kind):
        n = 0
        for k, m, fl in analyse_mutators(ctx):
            if k != kind or m == "__init__":
                continue
            fn = fl.func
            params = [p for p in fl.params[1:]]
            g = fl.cfg
            node_of = {}
            for nd in g.nodes:
                if nd.ast is None:
                    continue
                root = nd.ast.iter if nd.kind == "fornext" and hasattr(
                    nd.ast, "iter") else nd.ast
                if isinstance(root, (ast.For, ast.While, ast.If, ast.Try,
                                     ast.With, ast.FunctionDef)):
                    continue
                for x in ast.walk(root):
                    node_of.setdefault(id(x), nd.id)
            par = {}
            for p_ in ast.walk(fn):
                for c_ in ast.iter_child_nodes(p_):
                    par[id(c_)] = p_
            key = fl.qualname
            res.instance(key, fl.module.loc(fn), iterable_params=params)
            n += 1
            bad = None
            for p in params:
                occ = []
                rebind_nodes = set()
                iterated = False
                # any assignment to the parameter's name re-binds it
                for st in ast.walk(fn):
                    if isinstance(st, (ast.Assign, ast.AugAssign)):
                        tg = st.targets if isinstance(st, ast.Assign) \
                            else [st.target]
                        if any(isinstance(n_, ast.Name) and n_.id == p
                               and isinstance(n_.ctx, ast.Store)
                               for t in tg for n_ in ast.walk(t)) \
                                and id(st.value) in node_of:
                            rebind_nodes.add(node_of[id(st.value)])
                for x in ast.walk(fn):
                    if not (isinstance(x, ast.Name) and x.id == p
                            and isinstance(x.ctx, ast.Load)):
                        continue
                    up = par.get(id(x))
                    if isinstance(up, ast.Starred):
                        up = par.get(id(up))
                    consuming = False
                    starred = isinstance(par.get(id(x)), ast.Starred)
                    if isinstance(up, ast.comprehension) and up.iter is x:
                        consuming = iterated = True
                    elif isinstance(up, ast.For) and up.iter is x:
                        consuming = iterated = True
                    elif isinstance(up, ast.Call) and up.func is not x:
                        if starred or norm(up.func) in MATERIALIZERS or \
                                norm(up.func).endswith("from_iterable"):
                            iterated = True
                        fname = norm(up.func)
                        if fname in NON_CONSUMING or fname.split(".")[-1] \
                                in ("item_validator", "key_validator",
                                    "value_validator"):
                            consuming = False
                        else:
                            consuming = True
                    elif isinstance(up, ast.keyword):
                        consuming = True
                    if consuming and id(x) in node_of:
                        occ.append((x, node_of[id(x)]))
                if not iterated:
                    continue        # never treated as an iterable
                for i, (a, na) in enumerate(occ):
                    for b, nb in occ[i + 1:]:
                        first, second = (a, na), (b, nb)
                        if na == nb:
                            same_path = True
                        else:
                            ra = g.reachable(na)
                            rb = g.reachable(nb)
                            same_path = nb in ra or na in rb
                            if na in rb and nb not in ra:
                                first, second = (b, nb), (a, na)
                        if not same_path:
                            continue
                        # re-bound in between (p = list(p), p = a | b, ...):
                        # the second use sees the new object
                        rf = g.reachable(first[1])
                        if any(rn == first[1] or (rn in rf and second[1]
                                                  in g.reachable(rn))
                               for rn in rebind_nodes if rn is not None):
                            continue
                        if bad is None:
                            bad = (p, first[0], second[0])
            if bad is None:
                res.oblige(True, key, "", "")
            else:
                p, a, b = bad
                res.violation(f"{key}:traversed-twice:{p}",
                              fl.module.loc(b),
                              f"{key} traverses its argument `{p}` at "
                              f"{fl.module.loc(a)} and again at "
                              f"{fl.module.loc(b)} on one path: with a "
                              f"generator the second traversal is empty, so "
                              f"the mutation and the delta reported for it "
                              f"disagree")
        res.floor(len(MUTATORS[kind]))
    return _r


for _k in ("list", "dict", "set"):
    _single_pass_rule(_k)


# ---------------------------------------------------------------------------
# C05.index-protocol

@rule("C05.index-protocol", ["C05"],
      "list positions follow the __index__ protocol like the built-in: an "
      "index/key argument is ordered against or added to integers only after "
      "operator.index() (an object that only implements __index__ has no "
      "`<` or `+`), and the conversion is not dropped")
def index_protocol(ctx, res):
    from .containers import FactFlow
    repo = get_pyrepo(ctx)
    rel = FILES["list"][0]
    mod = repo.module(rel)
    funcs = []
    for qual, fn in mod.functions.items():
        ps = [a.arg for a in fn.args.args]
        for p in ps:
            if p in ("index", "key"):
                funcs.append((qual, fn, p))
        # the repetition count of `*=` follows the same protocol
        if fn.name == "__imul__" and len(ps) == 2:
            funcs.append((qual, fn, ps[1]))
    n = 0

    def converted_by_every_caller(qual, fn, p):
        """a private module-level helper whose `p` argument is, at every
        call site in the module, the result of operator.index (directly or
        through a local converted before the call)"""
        if "." in qual or not qual.startswith("_"):
            return False
        ps_ = [a.arg for a in fn.args.args]
        k = ps_.index(p)
        sites = []
        for q2, f2 in mod.functions.items():
            for c in ast.walk(f2):
                if isinstance(c, ast.Call) and isinstance(c.func, ast.Name) \
                        and c.func.id == qual and len(c.args) > k:
                    sites.append((f2, c))
        if not sites:
            return False
        for f2, c in sites:
            a = c.args[k]
            if isinstance(a, ast.Call) and norm(a.func) in ("operator.index",
                                                            "int"):
                continue
            if isinstance(a, ast.Name) and any(
                    isinstance(d, ast.Assign)
                    and any(isinstance(t, ast.Name) and t.id == a.id
                            for t in d.targets)
                    and isinstance(d.value, ast.Call)
                    and norm(d.value.func) in ("operator.index", "int")
                    and d.lineno < c.lineno for d in ast.walk(f2)):
                continue
            return False
        return True
    for qual, fn, p in funcs:
        if converted_by_every_caller(qual, fn, p):
            n += 1
            res.instance(qual, mod.loc(fn), parameter=p,
                         converted="by every caller")
            res.oblige(True, qual, "", "")
            continue
        uses = []

        class F(FactFlow):
            def classify(s, e, node):
                if isinstance(e, ast.Assign) and any(
                        isinstance(t, ast.Name) and t.id == p
                        for t in e.targets):
                    return [("BIND", False)]
                if isinstance(e, ast.Compare) and len(e.ops) == 1 \
                        and isinstance(e.ops[0], (ast.Lt, ast.LtE, ast.Gt,
                                                  ast.GtE)) \
                        and any(isinstance(x, ast.Name) and x.id == p
                                for x in (e.left, e.comparators[0])):
                    return [("ORD", False)]
                if isinstance(e, ast.BinOp) and isinstance(
                        e.op, (ast.Add, ast.Sub, ast.Mult)) and any(
                        isinstance(x, ast.Name) and x.id == p
                        for x in (e.left, e.right)):
                    return [("ARITH", False)]
                return []

            def step(s, st, ev, e, node):
                if ev == "BIND":
                    v = norm(e.value)
                    conv = v in (f"operator.index({p})", f"int({p})") or \
                        v.startswith(f"operator.index({p})")
                    st = frozenset(f for f in st if f != ("CONV", p))
                    return st | {("CONV", p)} if conv else st
                uses.append((e, st, node.id))
                return st
        fl = F(mod, fn, qual)
        fl.run(frozenset())
        if not uses:
            # the parameter is converted into a new local and only that is
            # used numerically: nothing to check on the raw argument
            if any(isinstance(c, ast.Call) and norm(c.func) in (
                    "operator.index", "int") and c.args
                    and norm(c.args[0]) == p for c in ast.walk(fn)):
                n += 1
                res.instance(qual, mod.loc(fn), parameter=p, numeric_uses=0)
                res.oblige(True, qual, "", "")
            continue
        n += 1
        res.instance(qual, mod.loc(fn), parameter=p, numeric_uses=len(uses))
        bad = [(e, st, nid) for e, st, nid in uses
               if ("CONV", p) not in st]
        res.oblige(not bad, f"{qual}:raw-{p}",
                   mod.loc(bad[0][0]) if bad else mod.loc(fn),
                   f"{qual} evaluates `{norm(bad[0][0])[:50] if bad else ''}` "
                   f"on the raw `{p}` argument (no operator.index on this "
                   f"path): list accepts any object with __index__, this "
                   f"raises TypeError for it"
                   + (" - after the underlying list was already changed, so "
                      "no event is sent for the change" if "_normalize" in qual
                      else ""),
                   fl.witness_lines(bad[0][2], bad[0][1]) if bad else None)
    res.floor(3)



# ---------------------------------------------------------------------------
# C0x.notify-snapshot: the container's own dispatch loop

def _notify_snapshot_rule(kind):
    from .containers import PROP_OF

    prop = PROP_OF[kind]

    @rule(f"{prop}.notify-snapshot", [prop, "C08", "C09", "C02"],
          f"Trait{kind.capitalize()}.notify calls every notifier that was "
          f"registered when the change happened: it iterates over a copy of "
          f"self.notifiers (a notifier that removes itself - or another one - "
          f"must not make the loop skip the next entry), like call_notifiers "
          f"does in C")
    def _r(ctx, res, kind=kind):
        repo, classes = container_classes(ctx)
        mod, base, obj = classes[kind]
        fn = base.methods.get("notify")
        if fn is None:
            raise AnalysisError(f"{base.name}.notify missing")
        selfn = fn.args.args[0].arg
        from ..pyfacts import expand_locals
        loops = [n for n in ast.walk(fn) if isinstance(n, (ast.For,
                                                          ast.comprehension))
                 and f"{selfn}.notifiers" in norm(expand_locals(fn, n.iter))]
        if not loops:
            raise AnalysisError(f"{base.name}.notify: dispatch loop not "
                                f"found")
        # the dispatch loop is reached on every call: no early exit and no
        # enclosing condition (a "re-entrancy guard" that returns silently
        # drops the notification of a change made from inside a notifier)
        early = [r for r in ast.walk(fn) if isinstance(r, (ast.Return,))
                 and r.lineno < min(getattr(l, "lineno", 10**9) for l in loops
                                    if hasattr(l, "lineno"))] \
            if any(hasattr(l, "lineno") for l in loops) else []
        par_ = {}
        for p_ in ast.walk(fn):
            for c_ in ast.iter_child_nodes(p_):
                par_[id(c_)] = p_
        enclosed = []
        for l in loops:
            x = par_.get(id(l))
            while x is not None and x is not fn:
                if isinstance(x, (ast.If, ast.While)):
                    enclosed.append(x)
                x = par_.get(id(x))
        res.oblige(not early and not enclosed,
                   f"{base.name}.notify:dispatch-always", mod.loc(
                       (early or enclosed or [fn])[0]),
                   f"{base.name}.notify can leave without dispatching (an "
                   f"early return or a condition around the loop): a change "
                   f"made while a notification is being delivered - or "
                   f"whatever the condition excludes - alters the contents "
                   f"with no event at all")
        for lp in loops:
            # every notifier of the snapshot is called: the call of the loop
            # variable is not nested in a condition
            if isinstance(lp, ast.For) and isinstance(lp.target, ast.Name):
                tv = lp.target.id

                def guarded(stmts, under):
                    out = []
                    for st in stmts:
                        if isinstance(st, ast.If):
                            out += guarded(st.body, under + [st.test])
                            out += guarded(st.orelse, under + [st.test])
                        elif isinstance(st, (ast.Try,)):
                            out += guarded(st.body, under)
                            out += guarded(st.orelse, under)
                            out += guarded(st.finalbody, under)
                        elif isinstance(st, (ast.With, ast.For, ast.While)):
                            out += guarded(st.body, under)
                        else:
                            for c in ast.walk(st):
                                if isinstance(c, ast.Call) and isinstance(
                                        c.func, ast.Name) and c.func.id == tv:
                                    out.append((c, under))
                    return out
                sites = guarded(lp.body, [])
                skips = [x for x in ast.walk(lp) if isinstance(
                    x, (ast.Continue, ast.Break))]
                res.oblige(bool(sites), f"{base.name}.notify:dispatch-call",
                           mod.loc(lp),
                           f"{base.name}.notify: the loop over the notifiers "
                           f"does not call `{tv}(...)`")
                for c, under in sites:
                    res.oblige(not under and not skips,
                               f"{base.name}.notify:conditional-dispatch",
                               mod.loc(c),
                               f"{base.name}.notify calls a notifier of the "
                               f"snapshot only under "
                               f"`{norm(under[0]) if under else 'continue/break'}`"
                               f": every notifier registered when the change "
                               f"happened must see it (the observer "
                               f"maintainers among them un-hook and re-hook "
                               f"downstream objects; one that is skipped "
                               f"leaves stale or missing hooks)")
            it = expand_locals(fn, lp.iter)
            t = norm(it)
            copied = t in (f"list({selfn}.notifiers)",
                           f"tuple({selfn}.notifiers)",
                           f"{selfn}.notifiers[:]",
                           f"{selfn}.notifiers.copy()",
                           f"copy.copy({selfn}.notifiers)")
            res.instance(f"{base.name}.notify", mod.loc(fn), iterates=t)
            res.oblige(copied, f"{base.name}.notify:live-iteration",
                       mod.loc(lp.iter if hasattr(lp.iter, "lineno") else fn),
                       f"{base.name}.notify iterates over `{t}`: a notifier "
                       f"that unregisters itself during dispatch shifts the "
                       f"live list and the next notifier is skipped for this "
                       f"change")
        res.floor(1)
    return _r


for _k in ("list", "dict", "set"):
    _notify_snapshot_rule(_k)


# ---------------------------------------------------------------------------
# C06.delta-accumulation: what update() reports for a key is what it stores

@rule("C06.delta-accumulation", ["C06", "C08"],
      "while TraitDict.update / |= collect their event, no entry of the "
      "added/changed/validated dictionaries is made conditional on what was "
      "collected so far: for a key that occurs several times the built-in "
      "dict lets the last occurrence win, and so must the event")
def delta_accumulation(ctx, res):
    from .containers import container_classes
    repo, classes = container_classes(ctx)
    mod, base, obj = classes["dict"]
    funcs = list(base.methods.values()) + [
        f for f in mod.functions.values()
        if isinstance(f, (ast.FunctionDef,))]
    n = 0
    seen_fn = set()
    for fn in funcs:
        if id(fn) in seen_fn:
            continue
        seen_fn.add(id(fn))
        # locals that start as an empty dict and receive item stores
        empties = set()
        for a in ast.walk(fn):
            if isinstance(a, ast.Assign) and (
                    (isinstance(a.value, ast.Dict) and not a.value.keys)
                    or (isinstance(a.value, ast.Call) and norm(a.value) == "dict()")):
                for t in a.targets:
                    if isinstance(t, ast.Name):
                        empties.add(t.id)
        if len(empties) < 2:
            continue

        def walk(stmts, under):
            for st in stmts:
                if isinstance(st, ast.If):
                    yield from walk(st.body, under + [st.test])
                    yield from walk(st.orelse, under + [st.test])
                elif isinstance(st, (ast.For, ast.While, ast.With)):
                    yield from walk(st.body, under)
                    yield from walk(getattr(st, "orelse", []), under)
                elif isinstance(st, ast.Try):
                    for blk in (st.body, st.orelse, st.finalbody):
                        yield from walk(blk, under)
                    for h in st.handlers:
                        yield from walk(h.body, under)
                elif isinstance(st, ast.Assign):
                    for t in st.targets:
                        if isinstance(t, ast.Subscript) and isinstance(
                                t.value, ast.Name) and t.value.id in empties:
                            yield st, t.value.id, under
        stores = list(walk(fn.body, []))
        if not stores:
            continue
        n += 1
        key = f"{fn.name}"
        res.instance(key, mod.loc(fn), collectors=sorted(empties),
                     stores=len(stores))
        ok = True
        for st, name, under in stores:
            for test in under:
                used = {x.id for x in ast.walk(test) if isinstance(x, ast.Name)}
                hit = used & empties
                if hit:
                    ok = False
                    res.violation(f"{key}:delta-store-guard:{name}",
                                  mod.loc(st),
                                  f"{fn.name}: the entry `{norm(st)[:60]}` is "
                                  f"recorded only under `{norm(test)[:60]}`, a "
                                  f"test on what was collected so far "
                                  f"({sorted(hit)}): for a key that occurs "
                                  f"twice in the argument the dictionary "
                                  f"ends up with the last value while the "
                                  f"event reports another one")
        if ok:
            res.oblige(True, key, "", "")
    res.floor(1)


# ---------------------------------------------------------------------------
# C04.object-layer: the trait-bound subclasses go through the validating layer

@rule("C04.object-layer", ["C04", "C05", "C06", "C07"],
      "Trait{List,Dict,Set}Object (the objects stored in List/Dict/Set "
      "traits) never call a built-in mutator directly - only the "
      "Trait{List,Dict,Set} base layer, which validates and notifies, does - "
      "and their overrides of a mutator pass the caller's arguments on "
      "unchanged")
def object_layer(ctx, res):
    from .containers import MUTATORS, container_classes
    repo, classes = container_classes(ctx)
    n = 0
    for kind, (mod, base, obj) in classes.items():
        muts = set(MUTATORS[kind]) | {"__init__"}
        for mname, fn in sorted(obj.methods.items()):
            if fn is None:
                continue
            key = f"{obj.name}.{mname}"
            selfn = fn.args.args[0].arg if fn.args.args else "self"
            bad = []
            for c in ast.walk(fn):
                if not isinstance(c, ast.Call):
                    continue
                f = c.func
                # list.extend(self, ...), dict.update(self, ...)
                if isinstance(f, ast.Attribute) and isinstance(f.value, ast.Name) \
                        and f.value.id == kind and f.attr in muts and c.args \
                        and norm(c.args[0]) == selfn:
                    bad.append((c, f"{kind}.{f.attr}({selfn}, ...)"))
                # super(TraitList, self).extend(...)
                if isinstance(f, ast.Attribute) and isinstance(f.value, ast.Call) \
                        and norm(f.value.func) == "super" and f.value.args \
                        and norm(f.value.args[0]) == base.name \
                        and f.attr in muts:
                    bad.append((c, f"super({base.name}, {selfn}).{f.attr}(...)"))
            if mname in muts or bad:
                n += 1
                res.instance(key, mod.loc(fn))
            for c, what in bad:
                res.violation(f"{key}:bypasses-validating-layer", mod.loc(c),
                              f"{key} calls `{what}`: the items stored by "
                              f"that call are not validated by the trait "
                              f"(and nobody is notified)")
            if mname not in MUTATORS[kind]:
                if mname in muts and not bad:
                    res.oblige(True, key, "", "")
                continue
            # pass-through of the caller's arguments
            params = [a.arg for a in fn.args.args][1:]
            rebound = {}
            for a in ast.walk(fn):
                tg = []
                if isinstance(a, ast.Assign):
                    tg = a.targets
                elif isinstance(a, (ast.AugAssign, ast.AnnAssign)):
                    tg = [a.target]
                for t in tg:
                    for nm in ast.walk(t):
                        if isinstance(nm, ast.Name) and nm.id in params \
                                and isinstance(nm.ctx, ast.Store):
                            rebound.setdefault(nm.id, []).append(a)
            ok = not bad
            for c in ast.walk(fn):
                if isinstance(c, ast.Call) and isinstance(c.func, ast.Attribute) \
                        and isinstance(c.func.value, ast.Call) \
                        and norm(c.func.value.func) == "super" \
                        and not c.func.value.args and c.func.attr == mname:
                    for i, a in enumerate(c.args):
                        if isinstance(a, ast.Starred):
                            a = a.value
                        # a local that materialises the parameter
                        # (`items = list(iterable)`) stands for it
                        if isinstance(a, ast.Name) and a.id not in params:
                            defs_ = [x.value for x in ast.walk(fn)
                                     if isinstance(x, ast.Assign)
                                     and len(x.targets) == 1
                                     and isinstance(x.targets[0], ast.Name)
                                     and x.targets[0].id == a.id]
                            if len(defs_) == 1 and isinstance(defs_[0], ast.Call) \
                                    and norm(defs_[0].func) in ("list", "tuple") \
                                    and len(defs_[0].args) == 1 \
                                    and isinstance(defs_[0].args[0], ast.Name) \
                                    and i < len(params) \
                                    and defs_[0].args[0].id == params[i]:
                                a = defs_[0].args[0]
                        if not (isinstance(a, ast.Name) and i < len(params)
                                and a.id == params[i]):
                            ok = False
                            res.violation(f"{key}:passthrough:{i}", mod.loc(c),
                                          f"{key} hands `{norm(a)[:40]}` to "
                                          f"{base.name}.{mname} where the "
                                          f"caller passed `"
                                          f"{params[i] if i < len(params) else '?'}`")
                            continue
                        for rb in rebound.get(a.id, []):
                            v = getattr(rb, "value", None)
                            materialise = isinstance(v, ast.Call) and norm(
                                v.func) in ("list", "tuple", "set", "dict") \
                                and len(v.args) == 1 and norm(v.args[0]) == a.id
                            if not materialise and rb.lineno < c.lineno:
                                ok = False
                                res.violation(
                                    f"{key}:passthrough:{a.id}:rebound",
                                    mod.loc(rb),
                                    f"{key} re-binds its argument `{a.id}` "
                                    f"(`{norm(rb)[:50]}`) before handing it "
                                    f"to {base.name}.{mname}: the operation "
                                    f"performed is no longer the one the "
                                    f"caller asked for (a slice rebuilt from "
                                    f"slice.indices() selects different "
                                    f"items for a negative step)")
            if ok:
                res.oblige(True, key, "", "")
    res.floor(12)
