"""C05.index-table: the integer index reported in a TraitList change event is
the normalised position - decided for every ordering of the index against
0, len and -len.

The three places that normalise an *integer* position (the non-slice branch
of the key normaliser used by __setitem__/__delitem__, `pop` and `insert`)
touch the index only through comparisons with 0 / +-len, `+ len`, `min` and
`max`.  Their behaviour is therefore determined by which of finitely many
regions the index lies in:

    len > 0:   i < -len | i = -len | -len < i < 0 | i = 0 | 0 < i < len |
               i = len | i > len
    len = 0:   i < 0 | i = 0 | i > 0

Within one region the terms {i, 0, len, -len, i+len} are totally pre-ordered
(where they are not - e.g. i+len against -len for i < -len - the comparison
is *unknown* and the analysis fails closed).  The code is interpreted over
those terms, region by region (a decision table, not an execution on
numbers), and the position it reports is compared with the position the
built-in list operation acts on:

    setitem/delitem/pop (index in range, the operation raises otherwise):
        i >= 0 -> i,  i < 0 -> i + len
    insert (every index is valid):
        i < -len -> 0,  -len <= i < 0 -> i + len,  0 <= i <= len -> i,
        i > len -> len

The slice branch (modular arithmetic on start/stop/step) is NOT decided.
"""
from __future__ import annotations

import ast

from ..core import AnalysisError, rule
from ..pyfacts import get_pyrepo, norm

REL = "traits/trait_list_object.py"

# regions: name -> groups of equal terms, in ascending order.  Terms that are
# not ordered against the others in the region are left out (comparisons with
# them are unknown).
REGIONS_POS = {      # len > 0
    "i<-len":    [["i"], ["-len"], ["0"], ["len"]],          # i+len < 0 too
    "i=-len":    [["i", "-len"], ["0", "i+len"], ["len"]],
    "-len<i<0":  [["-len"], ["i"], ["0"], ["i+len"], ["len"]],
    "i=0":       [["-len"], ["i", "0"], ["i+len", "len"]],
    "0<i<len":   [["-len"], ["0"], ["i"], ["len"], ["i+len"]],
    "i=len":     [["-len"], ["0"], ["i", "len"], ["i+len"]],
    "i>len":     [["-len"], ["0"], ["len"], ["i"], ["i+len"]],
}
EXTRA_POS = {        # partial facts about the left-out terms
    "i<-len": [("i+len", "<", "0"), ("i+len", "<", "len"), ("i", "<", "i+len")],
}
REGIONS_ZERO = {     # len = 0: len, -len and 0 coincide, i+len is i
    "len=0,i<0": [["i", "i+len"], ["0", "len", "-len"]],
    "len=0,i=0": [["i", "i+len", "0", "len", "-len"]],
    "len=0,i>0": [["0", "len", "-len"], ["i", "i+len"]],
}
IN_RANGE = {"i=-len", "-len<i<0", "i=0", "0<i<len"}
EXPECT_INSERT = {"i<-len": "0", "i=-len": "i+len", "-len<i<0": "i+len",
                 "i=0": "i", "0<i<len": "i", "i=len": "i", "i>len": "len",
                 "len=0,i<0": "0", "len=0,i=0": "0", "len=0,i>0": "0"}
EXPECT_INDEX = {"i=-len": "i+len", "-len<i<0": "i+len", "i=0": "i",
                "0<i<len": "i"}


class Unknown(Exception):
    pass


class ArithRaise(Exception):
    """the fragment raises an arithmetic exception in this region"""


class Region:
    def __init__(self, name, groups, extra=()):
        self.name = name
        self.rank = {}
        for r, grp in enumerate(groups):
            for t in grp:
                self.rank[t] = r
        self.extra = list(extra)

    def cmp(self, a, b):
        """-1 / 0 / 1, or raises Unknown"""
        if a == b:
            return 0
        ka, kb = _const(a), _const(b)
        if ka is not None and kb is not None:
            return (ka > kb) - (ka < kb)
        # an integer constant other than 0 is compared through 0 only when
        # the outcome does not depend on the magnitude
        if a in self.rank and b in self.rank:
            ra, rb = self.rank[a], self.rank[b]
            return (ra > rb) - (ra < rb)
        for x, op, y in self.extra:
            if (x, y) == (a, b):
                return -1
            if (x, y) == (b, a):
                return 1
        raise Unknown(f"{a} ? {b} in region {self.name}")

    def same(self, a, b):
        try:
            return self.cmp(a, b) == 0
        except Unknown:
            return False


def _const(t):
    try:
        return int(t)
    except (TypeError, ValueError):
        return None


class Interp:
    """abstract interpreter of an integer-normalisation fragment over the
    terms of one region"""

    def __init__(self, region, fn, index_param, length_terms):
        self.r = region
        self.fn = fn
        self.ip = index_param
        self.length_terms = length_terms      # expression texts meaning len
        self.report = None

    # -- terms ----------------------------------------------------------------
    def term(self, e, env):
        if isinstance(e, ast.Constant) and isinstance(e.value, int) \
                and not isinstance(e.value, bool):
            return str(e.value)
        if norm(e) in self.length_terms:
            return "len"
        if isinstance(e, ast.Name):
            if e.id in env:
                return env[e.id]
            raise Unknown(f"name {e.id}")
        if isinstance(e, ast.Call) and norm(e.func) in ("operator.index", "int",
                                                        "index") \
                and len(e.args) == 1:
            return self.term(e.args[0], env)
        if isinstance(e, ast.UnaryOp) and isinstance(e.op, ast.USub):
            t = self.term(e.operand, env)
            if t == "len":
                return "-len"
            if t == "-len":
                return "len"
            if _const(t) is not None:
                return str(-_const(t))
            raise Unknown(f"-({t})")
        if isinstance(e, ast.BinOp) and isinstance(e.op, (ast.Add, ast.Sub)):
            l, r = self.term(e.left, env), self.term(e.right, env)
            if isinstance(e.op, ast.Sub):
                r = {"len": "-len", "-len": "len"}.get(
                    r, str(-_const(r)) if _const(r) is not None else None)
                if r is None:
                    raise Unknown("subtraction")
            pair = {l, r}
            if "0" in pair and len(pair) == 2:
                return (pair - {"0"}).pop()
            if pair == {"i", "len"}:
                return "i+len"
            if pair == {"i+len", "-len"}:
                return "i"
            if pair == {"len", "-len"}:
                return "0"
            if _const(l) is not None and _const(r) is not None:
                return str(_const(l) + _const(r))
            raise Unknown(f"{l} + {r}")
        if isinstance(e, ast.BinOp) and isinstance(e.op, ast.Mod):
            l, r = self.term(e.left, env), self.term(e.right, env)
            if r != "len":
                raise Unknown(f"{l} % {r}")
            if self.r.same("len", "0"):
                raise ArithRaise("ZeroDivisionError")
            # 0 <= l < len: unchanged; -len <= l < 0: l + len; otherwise the
            # value wraps (not a term of the domain)
            if self.r.cmp(l, "0") >= 0 and self.r.cmp(l, "len") < 0:
                return l
            if l == "i" and self.r.cmp(l, "0") < 0 \
                    and self.r.cmp(l, "-len") >= 0:
                return "i+len"
            raise Unknown(f"{l} % len wraps")
        if isinstance(e, ast.Call) and norm(e.func) in ("max", "min") \
                and len(e.args) == 2 and not e.keywords:
            a, b = self.term(e.args[0], env), self.term(e.args[1], env)
            c = self.r.cmp(a, b)
            if norm(e.func) == "max":
                return a if c >= 0 else b
            return a if c <= 0 else b
        if isinstance(e, ast.IfExp):
            return self.term(e.body if self.test(e.test, env) else e.orelse, env)
        raise Unknown(f"expression `{norm(e)[:40]}`")

    # -- conditions -----------------------------------------------------------
    def test(self, e, env):
        if isinstance(e, ast.UnaryOp) and isinstance(e.op, ast.Not):
            return not self.test(e.operand, env)
        if isinstance(e, ast.BoolOp):
            vals = [self.test(v, env) for v in e.values]
            return all(vals) if isinstance(e.op, ast.And) else any(vals)
        if isinstance(e, ast.Call) and norm(e.func) == "isinstance" \
                and len(e.args) == 2 and "slice" in norm(e.args[1]):
            return False            # the integer branch
        if isinstance(e, ast.Compare):
            left = self.term(e.left, env)
            ok = True
            for op, right_e in zip(e.ops, e.comparators):
                right = self.term(right_e, env)
                c = self.r.cmp(left, right)
                res = {ast.Lt: c < 0, ast.LtE: c <= 0, ast.Gt: c > 0,
                       ast.GtE: c >= 0, ast.Eq: c == 0,
                       ast.NotEq: c != 0}.get(type(op))
                if res is None:
                    raise Unknown(f"operator in `{norm(e)}`")
                ok = ok and res
                left = right
            return ok
        raise Unknown(f"condition `{norm(e)[:40]}`")

    # -- statements -----------------------------------------------------------
    def run(self, stmts, env):
        """returns 'RETURN' when a return statement was executed"""
        for st in stmts:
            if isinstance(st, ast.Expr) and isinstance(st.value, ast.Constant):
                continue
            if isinstance(st, ast.Assign):
                tg = st.targets[0]
                if len(st.targets) == 1 and isinstance(tg, ast.Name):
                    try:
                        env[tg.id] = self.term(st.value, env)
                    except Unknown:
                        env.pop(tg.id, None)    # not an index-valued local
                continue
            if isinstance(st, ast.AugAssign) and isinstance(st.target, ast.Name) \
                    and isinstance(st.op, (ast.Add, ast.Sub)):
                env[st.target.id] = self.term(
                    ast.BinOp(ast.Name(st.target.id, ast.Load()), st.op,
                              st.value), env)
                continue
            if isinstance(st, ast.If):
                try:
                    t = self.test(st.test, env)
                except Unknown:
                    if self._mentions_index(st.test, env):
                        raise
                    # a test that is not about the index (`if removed:`):
                    # both arms are followed, the report must agree
                    for arm in (st.body, st.orelse):
                        e2 = dict(env)
                        if self.run(arm, e2) == "RETURN":
                            return "RETURN"
                    continue
                if self.run(st.body if t else st.orelse, env) == "RETURN":
                    return "RETURN"
                continue
            if isinstance(st, ast.Return):
                v = st.value
                if isinstance(v, ast.Tuple) and len(v.elts) == 2:
                    self.note(self.term(v.elts[1], env))
                return "RETURN"
            if isinstance(st, ast.Expr) and isinstance(st.value, ast.Call) \
                    and isinstance(st.value.func, ast.Attribute) \
                    and st.value.func.attr == "notify" and st.value.args:
                self.note(self.term(st.value.args[0], env))
                continue
            # anything else does not touch the index
        return None

    def _mentions_index(self, e, env):
        return any(isinstance(n, ast.Name) and n.id in env
                   for n in ast.walk(e))

    def note(self, t):
        if self.report is not None and self.report != t:
            raise Unknown(f"two different reports {self.report} / {t}")
        self.report = t


def _fragment(repo, qual):
    fn = repo.inlined(REL, qual)
    ps = [a.arg for a in fn.args.args]
    return fn, ps


@rule("C05.index-table", ["C05"],
      "the integer position reported for __setitem__/__delitem__/pop/insert "
      "is the normalised position the built-in list operation acts on, for "
      "every ordering of the index against 0, len and -len (decision table "
      "over the ordering regions; the slice branch is not decided)")
def index_table(ctx, res):
    repo = get_pyrepo(ctx)
    mod = repo.module(REL)
    cases = []
    # 1. the key normaliser (integer branch)
    fn, ps = _fragment(repo, "_normalize_slice_or_index")
    cases.append(("_normalize_slice_or_index", fn, ps[0], {ps[1]},
                  EXPECT_INDEX, IN_RANGE))
    # 2. pop, 3. insert
    for meth, expect, only in (("pop", EXPECT_INDEX, IN_RANGE),
                               ("insert", EXPECT_INSERT, None)):
        fn, ps = _fragment(repo, f"TraitList.{meth}")
        selfn = ps[0]
        lens = {f"len({selfn})"}
        # locals holding the length
        for a in ast.walk(fn):
            if isinstance(a, ast.Assign) and len(a.targets) == 1 \
                    and isinstance(a.targets[0], ast.Name) \
                    and norm(a.value) == f"len({selfn})":
                lens.add(a.targets[0].id)
        cases.append((f"TraitList.{meth}", fn, ps[1], lens, expect, only))
    for key, fn, ip, lens, expect, only in cases:
        n_regions = 0
        res.instance(key, mod.loc(fn), index_parameter=ip)
        for table, extra in ((REGIONS_POS, EXTRA_POS), (REGIONS_ZERO, {})):
            for rname, groups in table.items():
                if only is not None and rname not in only:
                    continue
                if rname not in expect:
                    continue
                n_regions += 1
                region = Region(rname, groups, extra.get(rname, ()))
                it = Interp(region, fn, ip, lens)
                env = {ip: "i"}
                try:
                    it.run(fn.body, env)
                except ArithRaise as a:
                    res.violation(f"{key}:{rname}:raises", mod.loc(fn),
                                  f"{key}: for an index with {rname} the "
                                  f"normalisation raises {a}")
                    continue
                except Unknown as u:
                    raise AnalysisError(
                        f"{key}: cannot decide {u} - the integer "
                        f"normalisation uses an operation outside the "
                        f"ordering domain")
                got, want = it.report, expect[rname]
                if got is None:
                    # no event on this path (e.g. nothing removed): nothing
                    # reported, nothing to compare
                    res.oblige(True, f"{key}:{rname}", "", "")
                    continue
                res.oblige(region.same(got, want), f"{key}:{rname}",
                           mod.loc(fn),
                           f"{key}: for an index with {rname} the event "
                           f"reports position `{got}` but the list operation "
                           f"acts on `{want}` (replaying the event on a "
                           f"snapshot no longer gives the list)")
        if n_regions < 3:
            raise AnalysisError(f"{key}: only {n_regions} regions evaluated")
    # 4. the capture of the item an integer key is about to replace/delete:
    # either the built-in subscript decides (try / except IndexError), or an
    # explicit range test does - which then must accept exactly the regions
    # in which the built-in operation succeeds
    fn, ps = _fragment(repo, "_removed_items")
    if len(ps) < 3:
        raise AnalysisError("_removed_items signature")
    itemsp, ip, invalidp = ps[:3]
    res.instance("_removed_items", mod.loc(fn), index_parameter=ip)

    def capture(stmts, it, env):
        for st in stmts:
            if isinstance(st, ast.Expr) and isinstance(st.value, ast.Constant):
                continue
            if isinstance(st, ast.Assign) and len(st.targets) == 1 \
                    and isinstance(st.targets[0], ast.Name):
                try:
                    env[st.targets[0].id] = it.term(st.value, env)
                except Unknown:
                    env.pop(st.targets[0].id, None)
                continue
            if isinstance(st, ast.If):
                r = capture(st.body if it.test(st.test, env) else st.orelse,
                            it, env)
                if r is not None:
                    return r
                continue
            if isinstance(st, ast.Try):
                handles = any(h.type is not None and "IndexError" in norm(h.type)
                              for h in st.handlers)
                r = capture(st.body, it, env)
                if r is not None and r[0] == "CAPTURE" and handles:
                    return ("LIST-DECIDES",)
                if r is not None:
                    return r
                continue
            if isinstance(st, ast.Return):
                v = st.value
                if isinstance(v, ast.Name) and v.id == invalidp:
                    return ("INVALID",)
                if isinstance(v, ast.List) and len(v.elts) == 1 \
                        and isinstance(v.elts[0], ast.Subscript) \
                        and norm(v.elts[0].value) == itemsp:
                    return ("CAPTURE", it.term(v.elts[0].slice, env))
                raise Unknown(f"return `{norm(st)[:40]}`")
            raise Unknown(f"statement `{norm(st)[:40]}`")
        return None
    n_regions = 0
    for table, extra in ((REGIONS_POS, EXTRA_POS), (REGIONS_ZERO, {})):
        for rname, groups in table.items():
            region = Region(rname, groups, extra.get(rname, ()))
            it = Interp(region, fn, ip, {f"len({itemsp})"})
            try:
                r = capture(fn.body, it, {ip: "i"})
            except (Unknown, ArithRaise) as u:
                raise AnalysisError(f"_removed_items: cannot decide {u}")
            n_regions += 1
            if r is None:
                raise AnalysisError(f"_removed_items: no result for {rname}")
            if r[0] == "LIST-DECIDES":
                res.oblige(True, f"_removed_items:{rname}", "", "")
                continue
            valid = rname in IN_RANGE
            ok = (r[0] == "CAPTURE" and (region.same(r[1], "i") or (
                region.same(r[1], "i+len") and region.cmp("i", "0") < 0))) \
                if valid else r[0] == "INVALID"
            res.oblige(ok, f"_removed_items:{rname}", mod.loc(fn),
                       f"_removed_items: for an index with {rname} the helper "
                       f"answers {r[0]} but the built-in list operation "
                       f"{'succeeds' if valid else 'raises IndexError'} there: "
                       + ("the removed item is not captured, so the deletion "
                          "or replacement is not reported (or reported "
                          "without the old item)" if valid else
                          "an item is reported for an operation that fails"))
    if n_regions < 10:
        raise AnalysisError("_removed_items: regions")
    # the key normaliser is documented for valid indices only.  Where a
    # mutator evaluates it *before* the built-in operation has accepted the
    # index, it sees every index: it must then not raise an exception of its
    # own (the list operation is the one that raises IndexError)
    early = []
    tl = next((n for n in mod.tree.body if isinstance(n, ast.ClassDef)
               and n.name == "TraitList"), None)
    if tl is None:
        raise AnalysisError("TraitList not found")
    n_users = 0
    for m in tl.body:
        if not isinstance(m, ast.FunctionDef):
            continue
        norm_at = [c.lineno for c in ast.walk(m) if isinstance(c, ast.Call)
                   and norm(c.func) == "_normalize_slice_or_index"]
        op_at = [c.lineno for c in ast.walk(m) if isinstance(c, ast.Call)
                 and isinstance(c.func, ast.Attribute)
                 and norm(c.func.value) == "super()"
                 and c.func.attr == m.name]
        if norm_at and op_at:
            n_users += 1
            if min(norm_at) < min(op_at):
                early.append(m)
    if n_users < 2:
        raise AnalysisError("users of _normalize_slice_or_index not found")
    fn, ps = _fragment(repo, "_normalize_slice_or_index")
    for m in early:
        for table, extra in ((REGIONS_POS, EXTRA_POS), (REGIONS_ZERO, {})):
            for rname, groups in table.items():
                it = Interp(Region(rname, groups, extra.get(rname, ())), fn,
                            ps[0], {ps[1]})
                try:
                    it.run(fn.body, {ps[0]: "i"})
                except ArithRaise as a:
                    res.violation(
                        f"TraitList.{m.name}:normalise-before-operation:{rname}",
                        mod.loc(m),
                        f"TraitList.{m.name} normalises the key before "
                        f"super().{m.name} has accepted it, and for {rname} "
                        f"the normaliser raises {a}: the caller sees that "
                        f"instead of the IndexError the built-in list raises")
                except Unknown:
                    pass
        res.oblige(True, f"TraitList.{m.name}:normalise-before-operation", "", "")
    res.floor(3)
