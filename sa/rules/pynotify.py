"""C02 rules on the Python notifier layer: filter dominance, agreement of the
legacy and observe change filters, handler containment, comparison-mode
tables, notifier snapshot in call_notifiers."""
from __future__ import annotations

import ast
import itertools
import re

from ..ccfg import get_ccfg
from ..cexpr import callee
from ..cfacts import CREL, get_cfacts
from ..core import AnalysisError, rule
from ..csym import feasible_paths
from ..pycfg import build_cfg
from ..pyfacts import get_pyrepo, is_self_attr, is_self_call, norm
from ..pyflow import PyFlow
from .containers import FactFlow
from .ctables import py_enum

TN = "traits/trait_notifiers.py"
TEN = "traits/observation/_trait_event_notifier.py"
HTH = "traits/observation/_has_traits_helpers.py"


# ---------------------------------------------------------------------------
# C02.filter-dominates

class GuardedCallFlow(FactFlow):
    def __init__(self, module, func, qual, is_target):
        super().__init__(module, func, qual)
        self.is_target = is_target
        self.sites = []

    def classify(self, e, node):
        if isinstance(e, ast.Call) and self.is_target(e):
            return [("CALL", False)]
        return []

    def step(self, state, ev, e, node):
        self.sites.append((e, state, node.id))
        return state


@rule("C02.filter-dominates", ["C02"],
      "every path to a user change handler passes the change filter")
def filter_dominates(ctx, res):
    repo = get_pyrepo(ctx)
    mod = repo.module(TN)
    specs = [
        ("AbstractStaticChangeNotifyWrapper.__call__",
         lambda e: is_self_attr(e.func, "handler")),
        ("TraitChangeNotifyWrapper._notify_method_listener",
         lambda e: is_self_call(e, "_dispatch_change_event")),
        ("TraitChangeNotifyWrapper._notify_function_listener",
         lambda e: is_self_call(e, "_dispatch_change_event")),
    ]
    for qual, pred in specs:
        fn = repo.func(TN, qual)
        ps = [a.arg for a in fn.args.args][1:5]
        want = f"_change_accepted({', '.join(ps)})"
        fl = GuardedCallFlow(mod, fn, qual, pred)
        fl.run(frozenset())
        res.instance(qual, mod.loc(fn), handler_calls=len(fl.sites))
        if not fl.sites:
            raise AnalysisError(f"{qual}: handler call site not found")
        for e, facts, nid in fl.sites:
            ok = ("T", want) in facts
            res.oblige(ok, f"{qual}:filter", mod.loc(e),
                       f"`{norm(e)[:60]}` is reachable without "
                       f"`{want}` having returned true: the handler would "
                       f"run for default materialisation / equal values",
                       fl.witness_lines(nid, facts))
    # the deliberately unfiltered maintainers
    for qual in ("ExtendedTraitChangeNotifyWrapper._notify_method_listener",
                 "ExtendedTraitChangeNotifyWrapper._notify_function_listener"):
        fn = repo.func(TN, qual)
        res.instance(qual, mod.loc(fn), note="framework maintainer: "
                     "deliberately unfiltered (accepted idiom)",
                     nontrivial=False)
    # observe side
    m2 = repo.module(TEN)
    fn = repo.func(TEN, "TraitEventNotifier.__call__")
    fl = GuardedCallFlow(m2, fn, "TraitEventNotifier.__call__",
                         lambda e: is_self_attr(e.func, "dispatcher"))
    fl.run(frozenset())
    res.instance("TraitEventNotifier.__call__", m2.loc(fn),
                 handler_calls=len(fl.sites))
    if not fl.sites:
        raise AnalysisError("TraitEventNotifier.__call__: dispatcher call "
                            "not found")
    for e, facts, nid in fl.sites:
        ev = norm(e.args[1]) if len(e.args) > 1 else "?"
        ok = ("F", f"self.prevent_event({ev})") in facts
        res.oblige(ok, "TraitEventNotifier.__call__:filter", m2.loc(e),
                   f"`{norm(e)}` reachable although "
                   f"`self.prevent_event({ev})` was not false",
                   fl.witness_lines(nid, facts))
        # the event passed on is the one the filter saw, built by the factory
        defs = [n.value for n in ast.walk(fn) if isinstance(n, ast.Assign)
                and any(isinstance(t, ast.Name) and t.id == ev
                        for t in n.targets)]
        res.oblige(len(defs) == 1 and isinstance(defs[0], ast.Call)
                   and is_self_attr(defs[0].func, "event_factory"),
                   "TraitEventNotifier.__call__:event", m2.loc(e),
                   "the dispatched event is not the one built by "
                   "self.event_factory")
    res.floor(4)


# ---------------------------------------------------------------------------
# C02.filters-agree

class _NeedAtom(Exception):
    def __init__(self, text):
        self.text = text


def _abstract_runs(fn, name, val, roles, functions=None):
    """All outcomes of a filter function under one abstract valuation: a
    condition outside the modelled atoms is a *free* boolean (both truth
    values are explored, at most 4 of them), so that a new test which changes
    the decision shows up as a disagreement and one which does not is
    harmless.  Returns a list of (outcome, {free atom: value})."""
    out, work = [], [{}]
    while work:
        free = work.pop()
        try:
            out.append((_abstract_run(fn, name, val, roles, functions,
                                      free=free), free))
        except _NeedAtom as na:
            if len(free) >= 4:
                raise AnalysisError(f"{name}: more than 4 conditions outside "
                                    f"the modelled atoms of the change "
                                    f"filter (`{na.text}`)")
            work.append(dict(free, **{na.text: True}))
            work.append(dict(free, **{na.text: False}))
    return out


def _abstract_run(fn, name, val, roles, functions=None, _depth=0, free=None):
    """Walk the CFG of a filter function deterministically under one abstract
    valuation.  Returns ('RET', bool) or raises AnalysisError."""
    free = {} if free is None else free
    g = build_cfg(fn, name)
    nid = g.entry.id
    steps = 0

    _ld = {}
    for a_ in ast.walk(fn):
        if isinstance(a_, ast.Assign) and len(a_.targets) == 1 \
                and isinstance(a_.targets[0], ast.Name):
            _ld.setdefault(a_.targets[0].id, []).append(a_.value)

    def role(e):
        # a temporary stands for its single definition
        for _ in range(3):
            if isinstance(e, ast.Name) and len(_ld.get(e.id, [])) == 1:
                e = _ld[e.id][0]
            else:
                break
        t = norm(e)
        for k, pats in roles.items():
            if any(re.fullmatch(p, t) for p in pats):
                return k
        return None

    def cmp_value(e):
        """value of an old/new comparison expression, or None"""
        if isinstance(e, ast.Compare) and len(e.ops) == 1:
            l, r = role(e.left), role(e.comparators[0])
            if {l, r} == {"old", "new"}:
                if isinstance(e.ops[0], ast.Eq):
                    return val["equal"]
                if isinstance(e.ops[0], ast.NotEq):
                    return not val["equal"]
        return None

    def has_cmp(e):
        return any(cmp_value(x) is not None for x in ast.walk(e))

    env = {}        # locals assigned along the walk (flow-sensitive)

    def eval_bool(e):
        if isinstance(e, ast.Constant) and isinstance(e.value, bool):
            return e.value
        if isinstance(e, ast.Name) and e.id in env:
            return eval_bool(env[e.id])
        if isinstance(e, ast.Call) and isinstance(e.func, ast.Name) \
                and e.func.id == "bool" and len(e.args) == 1:
            return eval_bool(e.args[0])
        v = cmp_value(e)
        if v is not None:
            return v
        if isinstance(e, ast.Compare) and len(e.ops) == 1:
            l, r = e.left, e.comparators[0]
            op = e.ops[0]
            if isinstance(op, (ast.Is, ast.IsNot)) and \
                    {role(l), role(r)} == {"old", "uninit"}:
                v = val["old_uninit"]
                return v if isinstance(op, ast.Is) else not v
            if isinstance(op, ast.NotEq):
                flipped = ast.Compare(l, [ast.Eq()], [r])
                try:
                    return not eval_bool(flipped)
                except AnalysisError:
                    pass
            if isinstance(op, ast.Eq):
                lt, rt = norm(l), norm(r)
                if lt.endswith(".type") and rt == "TraitKind.trait.name" \
                        or rt.endswith(".type") and lt == "TraitKind.trait.name":
                    return val["kind_trait"]
                if lt.endswith(".comparison_mode") \
                        and rt == "ComparisonMode.equality" \
                        or rt.endswith(".comparison_mode") \
                        and lt == "ComparisonMode.equality":
                    return val["mode_eq"]
                # another member of the comparison-mode enumeration: excluded
                # when the mode is equality, otherwise undetermined (free)
                for a_, b_ in ((lt, rt), (rt, lt)):
                    if a_.endswith(".comparison_mode") \
                            and b_.startswith("ComparisonMode.") \
                            and val["mode_eq"]:
                        return False
        if isinstance(e, ast.UnaryOp) and isinstance(e.op, ast.Not):
            return not eval_bool(e.operand)
        if isinstance(e, ast.IfExp):
            return eval_bool(e.body) if eval_bool(e.test) else eval_bool(e.orelse)
        if isinstance(e, ast.BoolOp):
            vals_ = (eval_bool(x) for x in e.values)
            return all(vals_) if isinstance(e.op, ast.And) else any(vals_)
        if isinstance(e, ast.Name) and len(_ld.get(e.id, [])) == 1 \
                and isinstance(_ld[e.id][0], (ast.BoolOp, ast.Compare,
                                              ast.UnaryOp)):
            # a flag local naming a compound condition
            return eval_bool(_ld[e.id][0])
        if isinstance(e, ast.Call) and isinstance(e.func, ast.Name) \
                and functions and e.func.id in functions and _depth < 2:
            # a private predicate of the module: run it under the same
            # valuation (its atoms are matched by the same patterns)
            r_ = _abstract_run(functions[e.func.id], e.func.id, val, roles,
                               functions, _depth + 1, free)
            if r_[0] == "RET":
                return bool(r_[1])
        if isinstance(e, (ast.Compare, ast.Call, ast.Name, ast.Attribute,
                          ast.Subscript)):
            t = norm(e)
            if t not in free:
                raise _NeedAtom(t)
            return free[t]
        raise AnalysisError(f"{name}: condition `{norm(e)}` is outside the "
                            f"modelled atoms of the change filter")

    while True:
        steps += 1
        if steps > 500:
            raise AnalysisError(f"{name}: abstract run does not terminate")
        node = g.nodes[nid]
        succ = dict((lab, t) for lab, t in g.succ[nid])
        if nid in (g.exit.id,):
            return ("RET", None)       # fell off: returns None (falsy)
        if nid == g.raise_exit.id:
            return ("RAISE",)
        if node.kind == "cond":
            if has_cmp(node.ast) and val["cmp_raises"]:
                nid = succ["exc"]
                continue
            nid = succ["T"] if eval_bool(node.ast) else succ["F"]
            continue
        if node.kind == "dispatch":
            # first handler that catches Exception (or everything)
            tgt = None
            for lab, t in g.succ[nid]:
                if isinstance(lab, tuple):
                    h = node.ast.handlers[lab[1]]
                    if h.type is None or norm(h.type) in ("Exception",
                                                          "BaseException"):
                        tgt = t
                        break
            nid = tgt if tgt is not None else succ.get("uncaught",
                                                       g.raise_exit.id)
            continue
        if node.kind == "stmt":
            a = node.ast
            if has_cmp(a) and val["cmp_raises"]:
                nid = succ["exc"]
                continue
            if isinstance(a, ast.Return):
                return ("RET", eval_bool(a.value) if a.value is not None
                        else None)
            if isinstance(a, ast.Assign) and len(a.targets) == 1 \
                    and isinstance(a.targets[0], ast.Name) \
                    and isinstance(a.value, (ast.Constant, ast.Call, ast.Compare,
                                             ast.BoolOp, ast.UnaryOp,
                                             ast.IfExp, ast.Name)):
                env[a.targets[0].id] = a.value
            if isinstance(a, ast.Raise):
                nid = succ["exc"]
                continue
        nid = succ.get("n", succ.get("T"))
        if nid is None:
            raise AnalysisError(f"{name}: stuck at line {node.line}")


@rule("C02.filters-agree", ["C02", "C08", "C10"],
      "the legacy filter (_change_accepted) and the observe filter "
      "(ctrait_prevent_event) make complementary decisions on every "
      "abstract case")
def filters_agree(ctx, res):
    repo = get_pyrepo(ctx)
    fa = repo.inlined(TN, "_change_accepted")
    fp = repo.inlined(HTH, "ctrait_prevent_event")
    pa = [a.arg for a in fa.args.args]          # object, name, old, new
    pe = fp.args.args[0].arg                     # event
    roles_a = {"old": [re.escape(pa[2])], "new": [re.escape(pa[3])],
               "uninit": ["Uninitialized"]}
    roles_p = {"old": [re.escape(pe) + r"\.old"],
               "new": [re.escape(pe) + r"\.new"],
               "uninit": ["Uninitialized"]}
    # the trait consulted must be the instance-level trait of (object, name)
    src_a = [norm(n.value) for n in ast.walk(fa) if isinstance(n, ast.Assign)]
    src_p = [norm(n.value) for n in ast.walk(fp) if isinstance(n, ast.Assign)]
    res.instance("_change_accepted", f"{TN}:{fa.lineno}")
    res.instance("ctrait_prevent_event", f"{HTH}:{fp.lineno}")
    res.oblige(any(re.fullmatch(rf"{pa[0]}\._?trait\({pa[1]}(, 2)?\)", s)
                   for s in src_a), "_change_accepted:trait",
               f"{TN}:{fa.lineno}",
               "_change_accepted does not consult the trait of (object, name)")
    res.oblige(any(re.fullmatch(rf"{pe}\.object\._?trait\({pe}\.name(, 2)?\)", s)
                   for s in src_p), "ctrait_prevent_event:trait",
               f"{HTH}:{fp.lineno}",
               "ctrait_prevent_event does not consult the trait of "
               "(event.object, event.name)")
    n = 0
    for ou, kt, me, cr, eq in itertools.product((False, True), repeat=5):
        val = dict(old_uninit=ou, kind_trait=kt, mode_eq=me, cmp_raises=cr,
                   equal=eq)
        as_ = _abstract_runs(fa, "_change_accepted", val, roles_a,
                             repo.module(TN).functions)
        ps_ = _abstract_runs(fp, "ctrait_prevent_event", val, roles_p,
                             repo.module(HTH).functions)
        n += 1
        # reference decision (the documented comparison modes)
        if ou:
            want0 = False
        elif kt and me and not cr:
            want0 = not eq
        else:
            want0 = True
        # with free atoms: prefer an outcome that deviates (it is the witness)
        a, afree = next(((o, f) for o, f in as_ if not (
            o[0] == "RET" and bool(o[1]) == want0)), as_[0])
        p, pfree = next(((o, f) for o, f in ps_ if not (
            o[0] == "RET" and bool(o[1]) == (not want0))), ps_[0])
        accepted = bool(a[1]) if a[0] == "RET" else None
        prevented = bool(p[1]) if p[0] == "RET" else None
        extra = "".join(f", `{t}`={v}" for t, v in
                        sorted({**afree, **pfree}.items()))
        want = want0
        desc = (f"old is Uninitialized={ou}, kind is 'trait'={kt}, "
                f"mode equality={me}, == raises={cr}, old == new={eq}"
                f"{extra}")
        res.oblige(accepted is not None and prevented is not None
                   and accepted == (not prevented),
                   f"filters:{ou:d}{kt:d}{me:d}{cr:d}{eq:d}:agree",
                   f"{HTH}:{fp.lineno}",
                   f"on_trait_change handlers would {'fire' if accepted else 'not fire'} "
                   f"but observe handlers would "
                   f"{'not fire' if prevented else 'fire'} for [{desc}]")
        res.oblige(accepted == want,
                   f"filters:{ou:d}{kt:d}{me:d}{cr:d}{eq:d}:legacy",
                   f"{TN}:{fa.lineno}",
                   f"_change_accepted returns {accepted} for [{desc}]; the "
                   f"documented comparison modes say {want}")
    res.instance("valuations", f"{TN}:{fa.lineno}", count=n)
    res.floor(3)


# ---------------------------------------------------------------------------
# C02.containment

CONTAIN_SITES = [
    (TN, "AbstractStaticChangeNotifyWrapper.__call__", "handler"),
    (TN, "TraitChangeNotifyWrapper._dispatch_change_event", "dispatch"),
    (TN, "ExtendedTraitChangeNotifyWrapper._dispatch_change_event", "dispatch"),
    (TEN, "TraitEventNotifier.__call__", "dispatcher"),
]


def _enclosing_try(fn, target):
    """innermost Try whose *body* contains ``target``"""
    best = None
    for t in ast.walk(fn):
        if isinstance(t, ast.Try):
            for s in t.body:
                if any(n is target for n in ast.walk(s)):
                    best = t
    return best


@rule("C02.containment", ["C02", "C19"],
      "every call of a user change handler is inside a try that catches "
      "Exception and routes it to the exception sink without re-raising")
def containment(ctx, res):
    repo = get_pyrepo(ctx)
    for rel, qual, attr in CONTAIN_SITES:
        mod = repo.module(rel)
        fn = repo.func(rel, qual)
        calls = [n for n in ast.walk(fn) if isinstance(n, ast.Call)
                 and is_self_attr(n.func, attr)]
        if not calls:
            raise AnalysisError(f"{qual}: no self.{attr}(...) call")
        for c in calls:
            key = f"{qual}:self.{attr}"
            res.instance(key, mod.loc(c))
            t = _enclosing_try(fn, c)
            if t is None:
                res.violation(key + ":no-try", mod.loc(c),
                              f"`{norm(c)[:60]}` is not inside a try: an "
                              f"exception in one handler would stop "
                              f"call_notifiers and silence every later handler")
                continue
            hs = [h for h in t.handlers if h.type is None
                  or norm(h.type) in ("Exception", "BaseException")]
            if not hs:
                res.violation(key + ":narrow", mod.loc(t),
                              f"the try around `{norm(c)[:40]}` does not catch "
                              f"Exception")
                continue
            h = hs[0]
            sinks = [n for n in ast.walk(h) if isinstance(n, ast.Call)
                     and norm(n.func) == "handle_exception"]
            res.oblige(bool(sinks), key + ":sink", mod.loc(h),
                       "the except clause does not call handle_exception")
            reraises = [s for s in h.body if isinstance(s, ast.Raise)]
            res.oblige(not reraises, key + ":reraise", mod.loc(h),
                       "the except clause re-raises unconditionally")
            # the handler must come first among the handlers that could match
            res.oblige(t.handlers.index(h) == 0 or all(
                norm(x.type) not in ("Exception", "BaseException")
                for x in t.handlers[:t.handlers.index(h)] if x.type),
                key + ":order", mod.loc(h), "shadowed except clause")
    res.floor(4)


# ---------------------------------------------------------------------------
# C02.mode-tables

@rule("C02.mode-tables", ["C02"],
      "ComparisonMode <-> flag bits: the C setter and getter are inverse on "
      "{none, identity, equality} and setattr_trait tests the 'none' bit")
def mode_tables(ctx, res):
    facts = get_cfacts(ctx)
    modes = py_enum(ctx, "traits/constants.py", "ComparisonMode")
    names = {"none": "TRAIT_COMPARISON_MODE_NONE",
             "identity": "TRAIT_COMPARISON_MODE_IDENTITY",
             "equality": "TRAIT_COMPARISON_MODE_EQUALITY"}
    if set(modes) != set(names):
        raise AnalysisError(f"ComparisonMode members {sorted(modes)}")
    mask = facts.macro_int("TRAIT_COMPARISON_MODE_MASK")
    flag = {m: facts.macro_int(mac) for m, mac in names.items()}
    res.instance("flags", CREL, mask=mask, flags=flag)
    res.oblige(len(set(flag.values())) == 3
               and all(v & ~mask == 0 for v in flag.values()),
               "mode-flags:distinct", CREL,
               f"comparison-mode flag values {flag} are not distinct under "
               f"the mask {mask:#x}")
    # setter: case k -> flags = (flags & ~mask) | F
    g = get_ccfg(ctx, facts, "_set_trait_comparison_mode")
    setter = {}
    for p in feasible_paths(g):
        case = [t[1][1] for t in p.atoms if isinstance(t[1], tuple)]
        if not case or p.outcome != ("RETURN", "0"):
            continue
        txt = [v for k, v in p.env.items() if k.endswith("->flags")]
        m = re.fullmatch(r"\(\((\w+->flags) & ~(\d+)\) \| (\d+)\)",
                         txt[0]) if txt else None
        if not m:
            raise AnalysisError(f"_set_trait_comparison_mode case {case}: "
                                f"flags update `{txt}` not recognised")
        setter[case[0]] = (int(m.group(2)), int(m.group(3)))
    # getter: flag value -> int
    g2 = get_ccfg(ctx, facts, "_get_trait_comparison_mode_int")
    getter, other = {}, None
    for p in feasible_paths(g2):
        m = re.fullmatch(r"PyLong_FromLong\((\d+)\)", p.outcome[1])
        if not m:
            raise AnalysisError("getter return not recognised")
        hit = [re.fullmatch(r"\(\((\d+) & \w+->flags\) == (\d+)\)", a[0])
               for a in p.atoms if a[1] is True]
        hit = [h for h in hit if h]
        if hit:
            if int(hit[0].group(1)) != mask:
                res.violation("getter:mask", facts.loc(facts.func(
                    "_get_trait_comparison_mode_int")),
                    "getter masks the flags with a different mask")
            getter[int(hit[0].group(2))] = int(m.group(1))
        else:
            other = int(m.group(1))
    for name, k in sorted(modes.items(), key=lambda x: x[1]):
        key = f"ComparisonMode.{name}={k}"
        res.instance(key, facts.loc(facts.func("_set_trait_comparison_mode")))
        if k not in setter:
            res.violation(key + ":setter", CREL,
                          f"the C setter has no case {k}")
            continue
        smask, sflag = setter[k]
        res.oblige(smask == mask and sflag == flag[name], key + ":setter",
                   facts.loc(facts.func("_set_trait_comparison_mode")),
                   f"setting comparison_mode={name} clears {smask:#x} and "
                   f"sets {sflag:#x}; expected mask {mask:#x}, flag "
                   f"{flag[name]:#x} ({names[name]})")
        back = getter.get(sflag, other)
        res.oblige(back == k, key + ":inverse",
                   facts.loc(facts.func("_get_trait_comparison_mode_int")),
                   f"after setting mode {k} the getter reports {back}")
    res.floor(4)


# ---------------------------------------------------------------------------
# C02.notifier-snapshot

@rule("C02.notifier-snapshot", ["C02", "C18", "C09"],
      "call_notifiers iterates over a private copy of both notifier lists "
      "taken before the first callback, and stops at the first failure only")
def notifier_snapshot(ctx, res):
    facts = get_cfacts(ctx)
    g = get_ccfg(ctx, facts, "call_notifiers")
    params = [p.name for p in facts.params("call_notifiers")]
    paths = feasible_paths(g)
    n = 0
    seen = set()
    for p in paths:
        calls = [e for e in p.events if e[0] == "PyObject_Call"]
        if not calls:
            continue
        n += 1
        first_idx = next(i for i, t in enumerate(p.trace)
                         if t[0] == "call" and t[1] == "PyObject_Call")
        before = [t for t in p.trace[:first_idx] if t[0] == "call"]
        news = [t for t in before if t[1] == "PyList_New"]
        ok = bool(news)
        tgt = calls[0][1][0]       # callee expression text
        # the callable is read from the private list, not from the live ones
        live = any(f"{params[0]}->ob_item" in tgt or f"{params[1]}->ob_item"
                   in tgt for _ in (0,))
        from .cstore import fresh_oracle
        is_fresh = fresh_oracle(ctx, facts)
        base_list = tgt.split("->ob_item")[0] if "->ob_item" in tgt else tgt
        private = "PyList_New(" in tgt or is_fresh(base_list)
        ok = ok or is_fresh(base_list)
        if ("snapshot" not in seen) and (not ok or live or not private):
            seen.add("snapshot")
            res.violation("call_notifiers:snapshot",
                          f"{CREL}:{calls[0][3]}",
                          f"notifier `{tgt[:80]}` is called from a live list: "
                          f"handlers that add/remove notifiers during "
                          f"notification would corrupt the iteration",
                          [f"{CREL}:{l}" for l in dict.fromkeys(p.lines) if l])
        # the args tuple carries (obj, name, old, new) in that order
        packs = [t for t in before if t[1] == "PyTuple_Pack"]
        if packs and "args" not in seen:
            a = packs[0][2]
            if a[1:] != [params[2], params[3], params[4], params[5]]:
                seen.add("args")
                res.violation("call_notifiers:args", f"{CREL}:{packs[0][4]}",
                              f"notifier arguments are {a[1:]}, expected "
                              f"(obj, name, old, new)")
    # every entry of the snapshot is called: inside the loop nothing but the
    # documented veto gate may skip or stop before the call (a notifier that
    # was registered when the change happened is notified of it, even if an
    # earlier handler has unregistered it meanwhile)
    from ..cexpr import callee as _callee, cnorm as _cnorm
    veto = facts.macro_int("HASTRAITS_VETO_NOTIFY")
    fn_ast = facts.func("call_notifiers")
    loops = [x for x in fn_ast.walk() if x.kind in ("ForStmt", "WhileStmt")
             and any(c.kind == "CallExpr" and _callee(c) == "PyObject_Call"
                     for c in x.walk())]
    if not loops:
        raise AnalysisError("call_notifiers: notification loop not found")
    for loop in loops:
      call_line = min(c.line for c in loop.walk() if c.kind == "CallExpr"
                      and _callee(c) == "PyObject_Call" and c.line)
      for x in loop.walk():
          if x.kind == "ContinueStmt":
              res.violation("call_notifiers:entry-skipped", facts.loc(x),
                            "the notification loop can `continue` past an "
                            "entry of the snapshot: a notifier that was "
                            "registered when the change happened is not told "
                            "about it")
          if x.kind == "IfStmt" and x.line and x.line < call_line \
                  and any(y.kind in ("BreakStmt", "ContinueStmt", "GotoStmt",
                                     "ReturnStmt") for y in x.walk()):
              t = _cnorm(x.ch[0])
              ok_gate = str(veto) in t and "flags" in t
              res.oblige(ok_gate, "call_notifiers:gate-before-call",
                         facts.loc(x),
                         f"the loop leaves or skips before calling the entry "
                         f"under `{t[:80]}`; the only documented gate is the "
                         f"veto flag of a HasTraits new value")
    res.instance("call_notifiers", facts.loc(facts.func("call_notifiers")),
                 calling_paths=n)
    if n == 0:
        raise AnalysisError("call_notifiers: no path calls a notifier")
    if not seen:
        res.oblige(True, "call_notifiers", "", "")
    res.floor(1)


# ---------------------------------------------------------------------------
# C02.sink-contained

@rule("C02.sink-contained", ["C02", "C19"],
      "the default exception sink cannot itself raise: everything that "
      "formats user objects happens inside a try that swallows errors")
def sink_contained(ctx, res):
    repo = get_pyrepo(ctx)
    mod = repo.module(TN)
    fn = repo.func(TN, "NotificationExceptionHandler._log_exception")
    ps = [a.arg for a in fn.args.args][1:]       # object, trait_name, old, new
    user = {ps[0], ps[2], ps[3]}
    parents = {}
    for p in ast.walk(fn):
        for c in ast.iter_child_nodes(p):
            parents[id(c)] = p

    def contained(node):
        """inside the body of a try with a broad handler, or inside the
        emergency branch for recursion-depth errors (accepted idiom: that
        branch is the last resort when even logging cannot work)"""
        p = parents.get(id(node))
        child = node
        while p is not None:
            if isinstance(p, ast.Try) and any(child is s for s in p.body):
                if any(h.type is None or norm(h.type) in ("Exception",
                                                          "BaseException")
                       for h in p.handlers):
                    return True
            if isinstance(p, ast.If) and "maximum recursion depth" in norm(p.test) \
                    and any(child is s for s in p.body):
                return True
            child = p
            p = parents.get(id(p))
        return False
    n = 0
    for x in ast.walk(fn):
        formats = False
        if isinstance(x, ast.BinOp) and isinstance(x.op, ast.Mod):
            formats = True
        if isinstance(x, ast.JoinedStr):
            formats = True
        if isinstance(x, ast.Call) and norm(x.func) in ("str", "repr", "format") \
                or isinstance(x, ast.Call) and isinstance(x.func, ast.Attribute) \
                and x.func.attr == "format":
            formats = True
        if not formats:
            continue
        names = {n2.id for n2 in ast.walk(x) if isinstance(n2, ast.Name)}
        if not (names & user):
            continue
        n += 1
        res.instance(f"_log_exception:format@{x.lineno - fn.lineno}",
                     mod.loc(x))
        res.oblige(contained(x), "_log_exception:uncontained-format",
                   mod.loc(x),
                   f"`{norm(x)[:70]}` converts user objects to text outside "
                   f"the guarding try: a raising __str__/__repr__ escapes "
                   f"from the exception sink, the remaining handlers are "
                   f"skipped and the assignment raises")
    # what the handler raised is a user object too: outside the try nothing
    # may call a method on it or on its arguments (RuntimeError(42).args[0]
    # has no .startswith)
    exc_names = set()
    for a in ast.walk(fn):
        if isinstance(a, ast.Assign) and "exc_info()" in norm(a.value):
            for t in a.targets:
                exc_names |= {x.id for x in ast.walk(t)
                              if isinstance(x, ast.Name)}
    res.instance("_log_exception:exception-payload", mod.loc(fn),
                 names=sorted(exc_names))
    for x in ast.walk(fn):
        if not (isinstance(x, ast.Call) and isinstance(x.func, ast.Attribute)):
            continue
        base_names = {n2.id for n2 in ast.walk(x.func.value)
                      if isinstance(n2, ast.Name)}
        if not (base_names & exc_names):
            continue
        # excp.args[...] .method(...)  /  excp.method(...)
        in_test = False
        p_ = parents.get(id(x))
        child = x
        while p_ is not None:
            if isinstance(p_, ast.If) and child is p_.test:
                in_test = True
            child = p_
            p_ = parents.get(id(p_))
        res.oblige(contained(x) and not in_test,
                   "_log_exception:uncontained-payload-call", mod.loc(x),
                   f"`{norm(x)[:70]}` calls a method on what the failing "
                   f"handler raised, outside the guarding try: an exception "
                   f"whose argument is not a string (RuntimeError(42)) makes "
                   f"the exception sink itself raise - the remaining handlers "
                   f"are skipped and the assignment raises")
    if n == 0:
        raise AnalysisError("_log_exception: no formatting of user objects "
                            "found")
    # the sink of the observe framework: the event (which holds the user's
    # old/new values) is handed to the logger as a lazy argument - the
    # logging package contains a failing __repr__ - and never formatted
    # eagerly
    OEH = "traits/observation/exception_handling.py"
    omod = repo.module(OEH)
    ofn = repo.func(OEH, "ObserverExceptionHandler._log_exception")
    ops = {a.arg for a in ofn.args.args[1:]}
    oparents = {}
    for p_ in ast.walk(ofn):
        for c in ast.iter_child_nodes(p_):
            oparents[id(c)] = p_

    def ocontained(node):
        p_ = oparents.get(id(node))
        child = node
        while p_ is not None:
            if isinstance(p_, ast.Try) and any(child is s_ for s_ in p_.body) \
                    and any(h.type is None or norm(h.type) in (
                        "Exception", "BaseException") for h in p_.handlers):
                return True
            child = p_
            p_ = oparents.get(id(p_))
        return False
    lazy = 0
    for x in ast.walk(ofn):
        if isinstance(x, ast.Call) and isinstance(x.func, ast.Attribute) \
                and x.func.attr in ("exception", "error", "warning", "log") \
                and any(isinstance(a, ast.Name) and a.id in ops
                        for a in x.args[1:]):
            lazy += 1
        eager = isinstance(x, ast.JoinedStr) \
            or (isinstance(x, ast.BinOp) and isinstance(x.op, ast.Mod)) \
            or (isinstance(x, ast.Call) and (
                norm(x.func) in ("str", "repr", "format")
                or (isinstance(x.func, ast.Attribute)
                    and x.func.attr == "format")))
        if eager and ({n2.id for n2 in ast.walk(x)
                       if isinstance(n2, ast.Name)} & ops):
            res.oblige(ocontained(x),
                       "ObserverExceptionHandler._log_exception:"
                       "uncontained-format", omod.loc(x),
                       f"`{norm(x)[:70]}` converts the event (the user's old "
                       f"and new values) to text eagerly and outside a "
                       f"guarding try: a raising __repr__ escapes from the "
                       f"exception sink of observe, the remaining handlers "
                       f"are skipped and the assignment raises")
    res.instance("ObserverExceptionHandler._log_exception", omod.loc(ofn),
                 lazy_logging_calls=lazy)
    res.oblige(lazy >= 1 or any(isinstance(x, ast.Try) for x in ast.walk(ofn)),
               "ObserverExceptionHandler._log_exception:lazy", omod.loc(ofn),
               "the observe exception sink neither hands the event to the "
               "logger as a lazy argument nor guards its formatting")
    res.floor(3)



# ---------------------------------------------------------------------------
# C02.as-ctrait-idempotent

@rule("C02.as-ctrait-idempotent", ["C02", "C10"],
      "TraitType.as_ctrait can be called any number of times with the same "
      "result: it never removes entries from the trait type's own metadata "
      "(one trait type object serves several attributes, classes and "
      "instance-trait clones; a popped option such as comparison_mode would "
      "reach only the first CTrait)")
def as_ctrait_idempotent(ctx, res):
    repo = get_pyrepo(ctx)
    n = 0
    for rel in ("traits/trait_type.py", "traits/trait_types.py",
                "traits/trait_handler.py", "traits/trait_handlers.py"):
        if rel not in repo.modules:
            continue
        mod = repo.module(rel)
        for qual, fn in mod.functions.items():
            if not qual.endswith(".as_ctrait"):
                continue
            selfn = fn.args.args[0].arg
            # names bound to the object's own metadata dictionary
            own = set()
            for a in ast.walk(fn):
                if isinstance(a, ast.Assign) and len(a.targets) == 1 \
                        and isinstance(a.targets[0], ast.Name):
                    v = norm(a.value)
                    if v.startswith(f"getattr({selfn}, '_metadata'") \
                            or v == f"{selfn}._metadata":
                        own.add(a.targets[0].id)
            own_txt = own | {f"{selfn}._metadata"}
            n += 1
            res.instance(qual, mod.loc(fn), metadata_names=sorted(own))
            bad = []
            for x in ast.walk(fn):
                if isinstance(x, ast.Call) and isinstance(x.func,
                                                          ast.Attribute) \
                        and x.func.attr in ("pop", "popitem", "clear") \
                        and norm(x.func.value) in own_txt:
                    bad.append(x)
                if isinstance(x, ast.Delete) and any(
                        isinstance(t, ast.Subscript)
                        and norm(t.value) in own_txt for t in x.targets):
                    bad.append(x)
            res.oblige(not bad, f"{qual}:destructive", mod.loc(bad[0])
                       if bad else mod.loc(fn),
                       f"`{norm(bad[0])[:60] if bad else ''}` removes an "
                       f"entry from the trait type's own metadata: the "
                       f"second CTrait built from the same trait type "
                       f"(`p = t; q = t`, a subclass re-using the "
                       f"declaration) silently loses the option")
    if n == 0:
        raise AnalysisError("no as_ctrait method found")
    res.floor(1)
