"""C10 (defaults / isolation) and C13 (attribute policy) rules."""
from __future__ import annotations

import ast
import re

from ..ccfg import get_ccfg
from ..cexpr import callee, cnorm, int_value, strip
from ..cfacts import CREL, get_cfacts
from ..core import AnalysisError, rule
from ..csym import feasible_paths
from ..pyfacts import get_pyrepo, is_self_call, names_in, norm
from ..pyflow import PyFlow
from .cstore import null_test, paths_of

HT = "traits/has_traits.py"


# ---------------------------------------------------------------------------
# C13.lookup-order

def _lookup_key(text):
    """dict_getitem(<base>->(i|c)trait_dict, <key>) -> (base, which, key),
    splitting at the top-level comma"""
    if not (text.startswith("dict_getitem(") and text.endswith(")")):
        return None
    inner = text[len("dict_getitem("):-1]
    depth = 0
    for i, ch in enumerate(inner):
        if ch in "([":
            depth += 1
        elif ch in ")]":
            depth -= 1
        elif ch == "," and depth == 0:
            a, key = inner[:i].strip(), inner[i + 1:].strip()
            for which in ("itrait_dict", "ctrait_dict"):
                if a.endswith("->" + which):
                    return a[:-len("->" + which)], which, key
            return None
    return None


@rule("C13.lookup-order", ["C13", "C05", "C06", "C07", "C08"],
      "every C lookup of the trait governing a name consults the instance "
      "traits first, then the class traits, and a prefix trait only when "
      "both missed")
def lookup_order(ctx, res):
    facts = get_cfacts(ctx)
    sites = 0
    for fname in facts.defined_functions():
        body_txt = facts.text(facts.body(fname))
        if "ctrait_dict" not in body_txt or "dict_getitem" not in body_txt:
            continue
        try:
            paths, _, g = paths_of(ctx, fname)
        except AnalysisError:
            res.note(f"{fname}: too many paths, not analysed")
            continue
        seen = set()
        n_c = n_p = 0
        for p in paths:
            env_null = {}       # lookup text -> known NULL?
            alias = {}
            for i, it in enumerate(p.trace):
                if it[0] == "atom" and isinstance(it[2], bool):
                    for op in ("==", "!="):
                        from .cstore import split_cmp
                        sp = split_cmp(it[1], op)
                        if sp and "0" in sp:
                            sub = sp[0] if sp[1] == "0" else sp[1]
                            env_null[sub] = (op == "==") == it[2]
                    m = re.fullmatch(r"\(0 (==|!=) (.+->itrait_dict)\)", it[1])
                    if m:
                        isnull = (m.group(1) == "==") == it[2]
                        env_null[m.group(2)] = isnull
                    continue
                if it[0] != "call":
                    continue
                if it[1] == "dict_getitem":
                    k = _lookup_key(it[3])
                    if not k:
                        continue
                    base, which, key = k
                    if which == "ctrait_dict":
                        n_c += 1
                        it_dict = f"{base}->itrait_dict"
                        it_lookup = f"dict_getitem({base}->itrait_dict, {key})"
                        # instance traits were consulted and missed?
                        ok = env_null.get(it_dict) is True \
                            or env_null.get(it_lookup) is True \
                            or any(t[0] == "atom" and it_lookup in t[1]
                                   for t in p.trace[:i])
                        if not ok and (fname, "ctrait-first") not in seen:
                            seen.add((fname, "ctrait-first"))
                            res.violation(
                                f"{fname}:class-before-instance",
                                f"{CREL}:{it[4]}",
                                f"{fname} looks `{key}` up in the class "
                                f"traits without first consulting the "
                                f"instance traits: an instance trait added "
                                f"with add_trait would be ignored",
                                [f"{CREL}:{l}" for l in dict.fromkeys(p.lines)
                                 if l])
                elif it[1] == "get_prefix_trait":
                    n_p += 1
                    base, key = it[2][0], it[2][1]
                    c_lookup = f"dict_getitem({base}->ctrait_dict, {key})"
                    ok = env_null.get(c_lookup) is True or any(
                        t[0] == "atom" and c_lookup in t[1]
                        for t in p.trace[:i])
                    if not ok and (fname, "prefix-early") not in seen:
                        seen.add((fname, "prefix-early"))
                        res.violation(
                            f"{fname}:prefix-before-class",
                            f"{CREL}:{it[4]}",
                            f"{fname} falls back to the wildcard (prefix) "
                            f"trait although the class traits were not found "
                            f"to miss `{key}`",
                            [f"{CREL}:{l}" for l in dict.fromkeys(p.lines)
                             if l])
        if n_c:
            sites += 1
            res.instance(fname, facts.loc(facts.func(fname)),
                         class_lookups=n_c, prefix_fallbacks=n_p)
            if not seen:
                res.oblige(True, fname, "", "")
    # getattr: ordinary attribute lookup precedes the prefix trait
    paths, _, g = paths_of(ctx, "has_traits_getattro")
    bad = None
    for p in paths:
        names = [e[0] for e in p.events]
        if "get_prefix_trait" in names:
            i = names.index("get_prefix_trait")
            if "PyObject_GenericGetAttr" not in names[:i]:
                bad = p
    res.oblige(bad is None, "has_traits_getattro:generic-before-prefix",
               facts.loc(facts.func("has_traits_getattro")),
               "the wildcard trait is consulted before normal Python "
               "attribute lookup (methods would be shadowed)")
    # a wildcard trait is resolved again after the trait_added event: the
    # listeners may have installed the trait that really governs the name
    paths, _, g = paths_of(ctx, "get_prefix_trait")
    n_evt = 0
    badp = None
    for p in paths:
        idx = [i for i, t in enumerate(p.trace) if t[0] == "call"
               and t[1] == "has_traits_setattro"
               and any("trait_added" in a for a in t[2])]
        if not idx or p.outcome[0] != "RETURN" or p.outcome[1] == "0":
            continue
        n_evt += 1
        later = [t[3] for t in p.trace[idx[-1] + 1:] if t[0] == "call"]
        if p.outcome[1] not in later:
            badp = p
    res.instance("get_prefix_trait", facts.loc(facts.func("get_prefix_trait")),
                 paths_with_trait_added=n_evt)
    if n_evt == 0:
        raise AnalysisError("get_prefix_trait: trait_added event not found")
    res.oblige(badp is None, "get_prefix_trait:relookup-after-trait-added",
               facts.loc(facts.func("get_prefix_trait")),
               "get_prefix_trait returns the trait it resolved *before* "
               "firing trait_added: a listener that installs an instance "
               "trait for the new name is ignored for this access (and the "
               "returned pointer is not protected from being replaced)",
               [f"{CREL}:{l}" for l in dict.fromkeys(badp.lines) if l]
               if badp else None)
    # the same discipline where an `<name>_items` trait is added on demand:
    # the event is fired through the trait add_trait() installed (a clone
    # carrying the listeners and static handlers), found by a fresh lookup
    paths, _, g = paths_of(ctx, "_has_traits_items_event")
    n_add = 0
    badp = None
    why = ""
    for p in paths:
        fire = [i for i, t in enumerate(p.trace) if t[0] == "call"
                and t[1] == "->setattr"]
        if not fire:
            continue
        recv = p.trace[fire[-1]][2][0]
        adds = [i for i, t in enumerate(p.trace[:fire[-1]])
                if t[0] == "call" and t[1] == "PyObject_CallMethod"
                and any("add_trait" in a for a in t[2])]
        looks = [i for i, t in enumerate(p.trace[:fire[-1]])
                 if t[0] == "call" and t[3] == recv
                 and (t[1] in ("dict_getitem", "PyDict_GetItem", "get_trait")
                      or t[1] in facts._lookup_like)]
        if adds:
            n_add += 1
        if not looks:
            badp, why = p, (f"the event is fired through `{recv[:60]}`, "
                            f"which is not the result of a trait lookup")
        elif adds and looks[-1] < adds[-1]:
            badp, why = p, (f"`{recv[:60]}` was looked up before add_trait "
                            f"ran")
    res.instance("_has_traits_items_event",
                 facts.loc(facts.func("_has_traits_items_event")),
                 paths_with_add_trait=n_add)
    if n_add == 0:
        raise AnalysisError("_has_traits_items_event: add_trait path not "
                            "found")
    res.oblige(badp is None, "_has_traits_items_event:relookup-after-add-trait",
               facts.loc(facts.func("_has_traits_items_event")),
               f"_has_traits_items_event: {why}: the trait add_trait() "
               f"installs is a clone that carries the listeners of the "
               f"placeholder and the static _<name>_items_changed handlers; "
               f"firing through anything else loses the first items event",
               [f"{CREL}:{l}" for l in dict.fromkeys(badp.lines) if l]
               if badp else None)
    if sites < 5:
        raise AnalysisError(f"only {sites} lookup sites recognised (floor 5)")


# ---------------------------------------------------------------------------
# C13.effects

WRITE_PRIMS = {"PyDict_SetItem", "PyDict_DelItem", "PyObject_GenericSetAttr",
               "PyObject_SetAttr", "PyDict_SetItemString", "PyDict_Clear"}


def closure(facts, root, through_fp=False):
    seen, todo = set(), [root]
    prims = set()
    while todo:
        f = todo.pop()
        if f in seen or not facts.has_func(f):
            continue
        seen.add(f)
        for x in facts.func(f).walk():
            if x.kind == "CallExpr":
                c = callee(x)
                if facts.has_func(c):
                    todo.append(c)
                else:
                    prims.add(c)
    return seen, prims


def error_classes(facts, funcs):
    out = set()
    for f in funcs:
        for x in facts.func(f).walk():
            if x.kind == "CallExpr" and callee(x) in ("PyErr_Format",
                                                      "PyErr_SetString",
                                                      "PyErr_SetObject"):
                out.add(cnorm(x.ch[1]))
    return out


@rule("C13.effects", ["C13"],
      "Constant / Disallow / Event / ReadOnly policies: the handlers that "
      "must refuse never write, and they refuse with the documented "
      "exception class")
def effects(ctx, res):
    from .cerr import analyse_errors
    facts, null_err, always, bad_paths, paths = analyse_errors(ctx)
    spec = {
        "setattr_constant": ("TraitError", True),
        "setattr_disallow": ("TraitError", True),
        "getattr_disallow": ("PyExc_AttributeError", True),
        "getattr_event": ("PyExc_AttributeError", True),
    }
    for fname, (exc, must_fail) in spec.items():
        funcs, prims = closure(facts, fname)
        res.instance(fname, facts.loc(facts.func(fname)),
                     callees=sorted(funcs - {fname}))
        w = prims & WRITE_PRIMS
        res.oblige(not w, f"{fname}:writes", facts.loc(facts.func(fname)),
                   f"{fname} can reach {sorted(w)}: a refused access has an "
                   f"effect")
        fp = {p for p in prims if p.startswith("->")} - {"->tp_name"}
        res.oblige(not fp, f"{fname}:indirect", facts.loc(facts.func(fname)),
                   f"{fname} calls through {sorted(fp)}")
        res.oblige(fname in always, f"{fname}:always-fails",
                   facts.loc(facts.func(fname)),
                   f"{fname} has a path that returns without an exception: "
                   f"the policy would silently allow the access")
        classes = error_classes(facts, funcs) - {"PyExc_TypeError"}
        res.oblige(classes == {exc}, f"{fname}:exception-class",
                   facts.loc(facts.func(fname)),
                   f"{fname} raises {sorted(classes)}; documented is {exc}")
    # getattr_constant: returns the stored constant, no writes
    funcs, prims = closure(facts, "getattr_constant")
    res.instance("getattr_constant", facts.loc(facts.func("getattr_constant")))
    res.oblige(not (prims & WRITE_PRIMS) and not any(
        p.startswith("->") for p in prims), "getattr_constant:pure",
        facts.loc(facts.func("getattr_constant")),
        "getattr_constant has effects")
    rets = {p.outcome[1] for p in paths["getattr_constant"]
            if p.outcome[0] == "RETURN"}
    res.oblige(rets == {"trait->default_value"} or all(
        "default_value" in r for r in rets if r != "0"),
        "getattr_constant:value", facts.loc(facts.func("getattr_constant")),
        f"getattr_constant returns {sorted(rets)}")
    # setattr_event never stores the value in the instance dict
    body = facts.func("setattr_event")
    direct = {callee(x) for x in body.walk() if x.kind == "CallExpr"}
    res.instance("setattr_event", facts.loc(body))
    res.oblige(not (direct & WRITE_PRIMS), "setattr_event:no-store",
               facts.loc(body),
               f"setattr_event calls {sorted(direct & WRITE_PRIMS)}: an "
               f"event value would become readable")
    res.floor(6)


@rule("C13.readonly-guard", ["C13"],
      "a ReadOnly attribute is written only while it has no value yet "
      "(absent or Undefined) and no declared default; deletion always fails")
def readonly_guard(ctx, res):
    paths, facts, g = paths_of(ctx, "setattr_readonly")
    params = [p.name for p in facts.params("setattr_readonly")]
    traitd, objp, namep, valuep = params[1], params[2], params[3], params[4]
    n_store = 0
    seen = set()
    for p in paths:
        stores = [e for e in p.events if e[0] in ("setattr_python",
                                                  "PyDict_SetItem",
                                                  "PyObject_GenericSetAttr")]
        is_delete = any(null_test(a[0], a[1], valuep) is True for a in p.atoms)
        if is_delete:
            if stores and "delete" not in seen:
                seen.add("delete")
                res.violation("setattr_readonly:delete", f"{CREL}:{stores[0][3]}",
                              "deleting a read-only attribute reaches a store")
            from ..capi import API as _API
            from .cerr import analyse_errors as _ae, call_name as _cn
            _always = _ae(ctx)[2]
            raises = p.outcome[1].startswith("delete_readonly_error(") or (
                _cn(p.outcome[1]) in _always) or (
                p.outcome[1].lstrip("(").startswith("-")
                and any(e[0] in _API and _API[e[0]]["sets_error"]
                        for e in p.events))
            if p.outcome[0] == "RETURN" and not raises \
                    and "delete-ok" not in seen:
                seen.add("delete-ok")
                res.violation("setattr_readonly:delete-allowed",
                              f"{CREL}:{p.lines[-1]}",
                              "deleting a read-only attribute does not raise")
            continue
        if not stores:
            continue
        n_store += 1
        def holds_eq(a, b):
            """is `a == b` established on the path?"""
            from .cstore import split_cmp
            for text, truth, _ in p.atoms:
                for op in ("==", "!="):
                    sp = split_cmp(text, op)
                    if sp and set(sp) == {a, b}:
                        if (op == "==") == truth:
                            return True
            return False
        no_default = holds_eq("Undefined", f"{traitd}->default_value")
        cur = f"PyDict_GetItem({objp}->obj_dict, {namep})"
        unset = (holds_eq("0", f"{objp}->obj_dict") or holds_eq("0", cur)
                 or holds_eq("Undefined", cur))
        if not (no_default and unset) and "guard" not in seen:
            seen.add("guard")
            res.violation("setattr_readonly:guard", f"{CREL}:{stores[0][3]}",
                          f"a read-only attribute is stored on a path where "
                          f"{'it may already hold a value' if no_default else 'it has a declared default'}"
                          f" (write-once is not enforced)",
                          [f"{CREL}:{l}" for l in dict.fromkeys(p.lines) if l])
    res.instance("setattr_readonly", facts.loc(facts.func("setattr_readonly")),
                 storing_paths=n_store)
    if n_store == 0:
        raise AnalysisError("setattr_readonly: no storing path")
    if not seen:
        res.oblige(True, "setattr_readonly", "", "")
    res.floor(1)


# ---------------------------------------------------------------------------
# C13.prefix-sorted / strict classes

class SortFlow(PyFlow):
    """state = 'clean' | 'dirty' (appended since last sort)"""

    def classify(self, e, node):
        if isinstance(e, ast.Call) and isinstance(e.func, ast.Attribute):
            if e.func.attr in ("append", "insert", "extend") \
                    and norm(e.func.value) == "prefix_list":
                return [("APPEND", False)]
            if e.func.attr == "sort" and norm(e.func.value) == "prefix_list":
                return [("SORT", False)]
        return []

    def step(self, st, ev, e, node):
        if ev == "APPEND":
            self.appends += 1
            return "dirty"
        if ev == "SORT":
            kws = {k.arg: norm(k.value) for k in e.keywords}
            if kws.get("key") == "len" and kws.get("reverse") == "True":
                return "clean"
            self.flag(("sort-order", norm(e)),
                      f"`{norm(e)}` does not sort longest prefix first")
            return "clean"
        return st

    def on_exit(self, node, st):
        if st == "dirty" and node.kind == "exit":
            self.flag(("unsorted-exit",),
                      "a prefix was appended and the list is not re-sorted "
                      "(longest first) before the function returns: a "
                      "shorter wildcard could shadow a longer one")


@rule("C13.prefix-sorted", ["C13", "C01"],
      "the wildcard prefix list is kept longest-first and matched in order "
      "(longest matching prefix wins)")
def prefix_sorted(ctx, res):
    repo = get_pyrepo(ctx)
    mod = repo.module(HT)
    n = 0
    called_ = {c.func.id for c in ast.walk(mod.tree) if isinstance(c, ast.Call)
               and isinstance(c.func, ast.Name)}
    for qual, fn0 in mod.functions.items():
        # a private helper that receives the list as a parameter is part of
        # its callers (analysed with the helper inlined)
        if "." not in qual and qual.startswith("_") and qual in called_ \
                and "prefix_list" in {a.arg for a in fn0.args.args}:
            continue
        try:
            fn = repo.inlined(HT, qual)
        except Exception:
            fn = fn0
        if not any(isinstance(c, ast.Call) and isinstance(c.func, ast.Attribute)
                   and c.func.attr in ("append", "insert", "extend")
                   and norm(c.func.value) == "prefix_list"
                   for c in ast.walk(fn)):
            continue
        fl = SortFlow(mod, fn, qual)
        fl.appends = 0
        fl.run("clean")
        n += 1
        res.instance(qual, mod.loc(fn), appends=fl.appends)
        hits = fl.findings()
        for k, msg, loc, path in hits:
            res.violation(f"{qual}:{k[0]}", loc, msg, path)
        if not hits:
            res.oblige(True, qual, "", "")
    if n < 2:
        raise AnalysisError(f"only {n} functions append to prefix_list")
    # matching: first match in list order with the prefix test
    fn = repo.func(HT, "HasTraits.__prefix_trait__")
    loops = [l for l in ast.walk(fn) if isinstance(l, ast.For)
             and norm(l.iter).endswith('["*"]') or isinstance(l, ast.For)
             and norm(l.iter) == "prefix_traits['*']"]
    res.instance("HasTraits.__prefix_trait__", mod.loc(fn))
    ok = False
    for l in loops:
        tv = norm(l.target)
        tests = [i for i in l.body if isinstance(i, ast.If)]
        pos = (f"{tv} == name[:len({tv})]", f"name[:len({tv})] == {tv}",
               f"name.startswith({tv})")
        neg = (f"{tv} != name[:len({tv})]", f"name[:len({tv})] != {tv}",
               f"not name.startswith({tv})",
               f"not {tv} == name[:len({tv})]")
        if tests and norm(tests[0].test) in pos:
            rets = [r for r in ast.walk(tests[0]) if isinstance(r, ast.Return)]
            ok = bool(rets)
        elif tests and norm(tests[0].test) in neg and len(
                tests[0].body) == 1 and isinstance(tests[0].body[0],
                                                   ast.Continue):
            # guard-clause form: `if no match: continue`, then the match body
            rest = l.body[l.body.index(tests[0]) + 1:]
            ok = any(isinstance(r, ast.Return)
                     for s_ in rest for r in ast.walk(s_)) \
                and isinstance(rest[-1], ast.Return)
    res.oblige(ok, "__prefix_trait__:first-match", mod.loc(fn),
               "__prefix_trait__ must walk prefix_traits['*'] in order and "
               "return at the first prefix that starts the name")
    # strict / private classes
    for cname, rules_ in (("HasStrictTraits", {"_": "Disallow"}),
                          ("HasPrivateTraits", {"_": "Disallow"})):
        cls = repo.cls(HT, cname)
        res.instance(cname, mod.loc(cls.node))
        for attr, want in rules_.items():
            got = norm(cls.attrs[attr]) if attr in cls.attrs else None
            res.oblige(got == want, f"{cname}.{attr}", mod.loc(cls.node),
                       f"{cname} declares `{attr} = {got}`; undeclared names "
                       f"must be rejected (`{attr} = {want}`)")
    cls = repo.cls(HT, "HasPrivateTraits")
    got = norm(cls.attrs["__"]) if "__" in cls.attrs else ""
    res.oblige(got.startswith("Any(") and "private=True" in got,
               "HasPrivateTraits.__", mod.loc(cls.node),
               f"HasPrivateTraits private rule is `{got}`")
    res.floor(4)


# ---------------------------------------------------------------------------
# C10.fresh-default

def _case_blocks(facts, fname):
    """case value -> list of statements texts (via symbolic paths)"""
    g = get_ccfg(None, facts, fname) if False else None


@rule("C10.fresh-default", ["C10"],
      "every mutable default kind returns a fresh object (copy or "
      "construction), every DefaultValue kind has an arm, and both callable "
      "kinds pass through the AttributeError warning")
def fresh_default(ctx, res):
    from .ctables import py_enum
    facts = get_cfacts(ctx)
    kinds = py_enum(ctx, "traits/constants.py", "DefaultValue")
    paths, _, g = paths_of(ctx, "default_value_for")
    maxv = facts.macro_int("MAXIMUM_DEFAULT_VALUE_TYPE")
    by_case = {}
    for p in paths:
        cs = [a[1][1] for a in p.atoms if isinstance(a[1], tuple)]
        if not cs:
            continue
        by_case.setdefault(cs[0], []).append(p)
    res.instance("default_value_for", facts.loc(facts.func("default_value_for")),
                 cases=sorted(by_case))
    # `unspecified` (-1) is a Python-side sentinel that is never handed to C
    c_kinds = {v for v in kinds.values() if v >= 0}
    res.oblige(c_kinds == set(by_case) == set(range(maxv + 1)),
               "default_value_for:exhaustive",
               facts.loc(facts.func("default_value_for")),
               f"DefaultValue members {sorted(kinds.values())}, switch arms "
               f"{sorted(by_case)}, MAXIMUM_DEFAULT_VALUE_TYPE {maxv}")
    fresh = {
        "list_copy": ("PySequence_List(",),
        "dict_copy": ("PyDict_Copy(",),
        "trait_list_object": ("call_class(TraitListObject",),
        "trait_dict_object": ("call_class(TraitDictObject",),
        "trait_set_object": ("call_class(TraitSetObject",),
        "callable_and_args": ("PyObject_Call(",),
        "callable": ("PyObject_Call(", "->validate("),
    }
    # summaries over the in-file helpers (so that extracting an arm into a
    # helper keeps the rule decidable): which functions return a new object
    # on every successful path, and which reach _warn_on_attribute_error
    from ..capi import API
    from ..cexpr import callee as _callee
    import re as _re

    def _head(t):
        m = _re.match(r"([A-Za-z_]\w*)\(", t)
        return m.group(1) if m else None
    fresh_fn = {}

    def returns_fresh(f, depth=0):
        if f in fresh_fn:
            return fresh_fn[f]
        fresh_fn[f] = False
        if depth > 3 or not facts.has_func(f):
            return False
        try:
            ps_f, _, _ = paths_of(ctx, f)
        except AnalysisError:
            return False
        ok_all, some = True, False
        for p_ in ps_f:
            if p_.outcome[0] != "RETURN" or p_.outcome[1] in ("0", ""):
                continue
            some = True
            if not is_fresh_text(p_.outcome[1], depth + 1):
                ok_all = False
        fresh_fn[f] = ok_all and some
        return fresh_fn[f]

    def is_fresh_text(rv, depth=0):
        if _re.match(r"\w+->validate\(", rv):
            return True         # validators return a new reference
        h = _head(rv)
        if h is None:
            return False
        if h in API:
            return API[h]["ret"] == "new"
        return returns_fresh(h, depth)
    warns = set()
    for f in facts.defined_functions():
        if any(x.kind == "CallExpr"
               and _callee(x) == "_warn_on_attribute_error"
               for x in facts.func(f).walk()):
            warns.add(f)
    for name, prefixes in fresh.items():
        if name not in kinds:
            raise AnalysisError(f"DefaultValue.{name} missing")
        k = kinds[name]
        key = f"DefaultValue.{name}={k}"
        res.instance(key, facts.loc(facts.func("default_value_for")))
        for p in by_case.get(k, []):
            if p.outcome[0] != "RETURN" or p.outcome[1] == "0":
                continue
            rv = p.outcome[1]
            ok = any(rv.startswith(px) or (px in rv and "->validate(" in px)
                     for px in prefixes) or is_fresh_text(rv)
            res.oblige(ok and rv != "trait->default_value", key + ":fresh",
                       f"{CREL}:{p.lines[-1]}",
                       f"default kind {name} returns `{rv[:80]}`: every "
                       f"instance would share one mutable default object")
            if name in ("trait_list_object", "trait_dict_object",
                        "trait_set_object"):
                res.oblige("trait, obj, name, trait->default_value)" in rv,
                           key + ":owner", f"{CREL}:{p.lines[-1]}",
                           f"container default is not constructed for "
                           f"(trait, obj, name): `{rv[:90]}`")
            if name.startswith("callable"):
                warned = any(e[0] == "_warn_on_attribute_error"
                             or e[0] in warns for e in p.events)
                res.oblige(warned, key + ":attr-error-warning",
                           f"{CREL}:{p.lines[-1]}",
                           "the callable default's result is not passed "
                           "through _warn_on_attribute_error")
    # _trait_set_default_value bounds the kind
    sp, _, _ = paths_of(ctx, "_trait_set_default_value")
    txt = facts.text(facts.body("_trait_set_default_value"))
    res.oblige("MAXIMUM_DEFAULT_VALUE_TYPE" in txt,
               "_trait_set_default_value:bound",
               facts.loc(facts.func("_trait_set_default_value")),
               "set_default_value does not bound the kind")
    res.floor(8)


@rule("C10.instance-notifiers", ["C10"],
      "an instance trait gets its own notifier list (element copy of the "
      "class trait's) and is stored in the instance dictionary only")
def instance_notifiers(ctx, res):
    paths, facts, g = paths_of(ctx, "get_trait")
    n = 0
    seen = set()
    for p in paths:
        sets = [e for e in p.events if e[0] == "PyDict_SetItem"]
        if not sets:
            continue
        n += 1
        e = sets[-1]
        dict_arg, val = e[1][0], e[1][2]
        if "ctrait_dict" in dict_arg and "store" not in seen:
            seen.add("store")
            res.violation("get_trait:stored-in-class-dict", f"{CREL}:{e[3]}",
                          "the freshly cloned instance trait is stored in the "
                          "class trait dictionary: it would govern every "
                          "instance")
        if not val.startswith("PyType_GenericAlloc(") and "alloc" not in seen:
            seen.add("alloc")
            res.violation("get_trait:not-new", f"{CREL}:{e[3]}",
                          f"`{val[:60]}` stored as instance trait is not a "
                          f"newly allocated CTrait")
        # notifier list: PyList_New, never the class list pointer
        notif = [v for k, v in p.env.items() if k.endswith("->notifiers")
                 and "PyType_GenericAlloc" in k]
        from .cstore import fresh_oracle
        is_fresh = fresh_oracle(ctx, facts)
        for v in notif:
            if not v.startswith("PyList_New(") and not is_fresh(v) \
                    and "share" not in seen:
                seen.add("share")
                res.violation("get_trait:shared-notifiers", f"{CREL}:{e[3]}",
                              f"the instance trait's notifier list is "
                              f"`{v[:60]}`, not a new list: handlers added on "
                              f"one instance would fire for all")
    # a class-level trait (class dictionary / resolved wildcard) is handed
    # out only when the caller did not ask for an instance trait
    ipar = [q.name for q in facts.params("get_trait")
            if (q.type or "").strip() == "int"]
    if len(ipar) != 1:
        raise AnalysisError("get_trait: the `instance` mode parameter")
    ipar = ipar[0]
    shared_ret = 0
    for p in paths:
        if p.outcome[0] != "RETURN":
            continue
        rv = p.outcome[1]
        if "ctrait_dict" not in rv and "get_prefix_trait(" not in rv:
            continue
        shared_ret += 1
        lo, hi = -10**9, 10**9
        for it in p.trace:
            if it[0] != "atom":
                continue
            m = re.fullmatch(r"\((-?\w+) (==|!=|<=|>=|<|>) (-?\w+)\)", it[1])
            if not m:
                continue
            a, op, b = m.groups()
            if b == ipar and re.fullmatch(r"-?\d+", a):
                a, b = b, a
                op = {"<": ">", ">": "<", "<=": ">=", ">=": "<="}.get(op, op)
            if a != ipar or not re.fullmatch(r"-?\d+", b):
                continue
            k = int(b)
            if not it[2]:
                op = {"==": "!=", "!=": "==", "<": ">=", ">=": "<",
                      ">": "<=", "<=": ">"}[op]
            if op == "==":
                lo, hi = max(lo, k), min(hi, k)
            elif op == "<":
                hi = min(hi, k - 1)
            elif op == "<=":
                hi = min(hi, k)
            elif op == ">":
                lo = max(lo, k + 1)
            elif op == ">=":
                lo = max(lo, k)
        if "shared-ret" not in seen:
            ok = hi <= 0
            if not ok:
                seen.add("shared-ret")
            res.oblige(ok, "get_trait:class-trait-for-instance-request",
                       f"{CREL}:{p.lines[-1]}",
                       f"get_trait returns the class-level trait "
                       f"`{rv[:50]}` on a path where `{ipar}` may be "
                       f"positive (an instance trait was requested): "
                       f"handlers the caller adds to it fire for every "
                       f"object of the class", [f"{CREL}:{l}" for l in
                                                p.lines[-6:]])
    if shared_ret == 0:
        raise AnalysisError("get_trait: no path returning a class trait")
    res.instance("get_trait", facts.loc(facts.func("get_trait")),
                 creating_paths=n, class_trait_returns=shared_ret)
    if n == 0:
        raise AnalysisError("get_trait: no instance-trait creating path")
    if not seen:
        res.oblige(True, "get_trait", "", "")
    # writers of the class trait dict in C
    writers = set()
    for fname in facts.defined_functions():
        for x in facts.func(fname).walk():
            if x.kind == "CallExpr" and callee(x) in ("PyDict_SetItem",
                                                      "PyDict_DelItem"):
                if "ctrait_dict" in cnorm(x.ch[1]):
                    writers.add(fname)
    res.instance("ctrait_dict writers", CREL, writers=sorted(writers))
    res.oblige(writers <= {"get_prefix_trait"}, "ctrait_dict:writers", CREL,
               f"the class trait dictionary is written by "
               f"{sorted(writers)}; only get_prefix_trait (caching a resolved "
               f"wildcard trait under a new name) may do so")
    res.floor(2)


# ---------------------------------------------------------------------------
# C10.cow-typestate (Python)

MUTATING_TRAIT_METHODS = {"set_default_value", "set_validate", "delegate",
                          "property", "clone"}


@rule("C10.clone-before-mutate", ["C10", "C08", "C02"],
      "a CTrait taken from a shared (class-level) dictionary is cloned before "
      "its notifiers are extended")
def clone_before_mutate(ctx, res):
    repo = get_pyrepo(ctx)
    mod = repo.module(HT)
    n = 0
    # private module-level helpers that are called by name somewhere in the
    # module: a trait they receive as a parameter is their callers' business
    # (the callers are analysed with the helper inlined)
    called = {c.func.id for c in ast.walk(mod.tree) if isinstance(c, ast.Call)
              and isinstance(c.func, ast.Name)}
    for qual, fn0 in mod.functions.items():
        try:
            fn = repo.inlined(HT, qual, keep=("_add_notifiers",
                                              "_clone_trait"))
        except Exception:
            fn = fn0
        helper_params = set()
        if "." not in qual and qual.startswith("_") and qual in called \
                and qual != "_add_notifiers":
            helper_params = {a.arg for a in fn0.args.args}
        calls = []
        for c in ast.walk(fn):
            if not isinstance(c, ast.Call):
                continue
            # _add_notifiers(X._notifiers(True), handlers)
            if norm(c.func) == "_add_notifiers" and c.args:
                calls.append((c, c.args[0]))
            # X._notifiers(True).extend(...) / .append(...) / .insert(...)
            elif isinstance(c.func, ast.Attribute) \
                    and c.func.attr in ("extend", "append", "insert") \
                    and isinstance(c.func.value, ast.Call):
                calls.append((c, c.func.value))
        for c, a0 in calls:
            if not (isinstance(a0, ast.Call) and isinstance(a0.func,
                                                            ast.Attribute)
                    and a0.func.attr == "_notifiers"):
                continue
            if not isinstance(a0.func.value, ast.Name):
                continue
            tv = norm(a0.func.value)
            if tv in helper_params:
                continue
            n += 1
            key = f"{qual}:{tv}"
            # the variable must be (re)assigned from _clone_trait / a fresh
            # construction on every path leading here: check the nearest
            # preceding assignment in the same block chain
            ok = _dominated_by_clone(fn, c, tv)
            res.instance(key, mod.loc(c))
            res.oblige(ok, key + ":clone", mod.loc(c),
                       f"`{norm(c)[:70]}` extends the notifiers of `{tv}` "
                       f"which is not a clone on every path: static handlers "
                       f"would be attached to a trait object shared with "
                       f"other classes or instances")
    if n < 3:
        raise AnalysisError(f"only {n} notifier-extension sites found")
    res.floor(3)


class _CloneFlow(PyFlow):
    def __init__(self, module, func, target_call, var):
        super().__init__(module, func)
        self.target_call, self.var = target_call, var
        self.result = []

    def classify(self, e, node):
        if isinstance(e, ast.Assign) and any(
                isinstance(t, ast.Name) and t.id == self.var
                for t in e.targets):
            return [("ASSIGN", False)]
        if e is self.target_call:
            return [("USE", False)]
        if isinstance(e, ast.Call) and norm(e.func).endswith("cloned.add"):
            return [("WITNESS", False)]
        return []

    # state = (ownership, frozenset of (atom text, truth)): the facts make
    # contradictory paths recognisable (`needs = a or b ... if a:`)
    def step(self, st, ev, e, node):
        own, facts = st
        if ev == "ASSIGN":
            v = norm(e.value)
            fresh = (v.startswith("_clone_trait(") or v.startswith("CTrait(")
                     or "_clone_trait(" in v or ".as_ctrait()" in v)
            return ("owned" if fresh else "shared", facts)
        if ev == "USE":
            texts = {}
            contradictory = False
            for t, tr in facts:
                if texts.setdefault(t, tr) != tr:
                    contradictory = True
            if not contradictory:
                self.result.append(own)
        return st

    def transfer(self, node, state):
        if node.kind == "fornext":
            # facts of the previous iteration say nothing about this one
            state = (state[0], frozenset())
        return super().transfer(node, state)

    def assume(self, test, truth, st):
        own, facts = st
        # ownership witness: `name not in cloned` false => cloned earlier
        t = norm(test)
        if t in self.relevant:
            facts = facts | {(t, truth)}
        if t.endswith(" not in cloned") and not truth:
            return ("owned", facts)
        if t.endswith(" in cloned") and " not in " not in t and truth:
            return ("owned", facts)
        return (own, facts)


def _dominated_by_clone(fn, call, var):
    import sys
    from ..pyfacts import Module
    # flag locals in tests stand for their definitions
    import copy as _copy
    from ..pyfacts import expand_locals
    fn2 = _copy.deepcopy(fn)
    # map the call node into the copy by position
    pos = (call.lineno, call.col_offset)
    # only names that stand as a whole for a test or one of its boolean
    # operands are flags (`cloned`, `handlers`, ... are data)
    flagdefs = {}
    counts = {}
    for a_ in ast.walk(fn):
        if isinstance(a_, ast.Assign) and len(a_.targets) == 1 \
                and isinstance(a_.targets[0], ast.Name):
            counts[a_.targets[0].id] = counts.get(a_.targets[0].id, 0) + 1
            flagdefs[a_.targets[0].id] = a_.value
    flagdefs = {k: v for k, v in flagdefs.items() if counts[k] == 1
                and isinstance(v, (ast.Compare, ast.BoolOp, ast.UnaryOp))}

    def expand_flags(e, depth=0):
        if depth > 3:
            return e
        if isinstance(e, ast.Name) and e.id in flagdefs:
            return expand_flags(_copy.deepcopy(flagdefs[e.id]), depth + 1)
        if isinstance(e, ast.BoolOp):
            e.values = [expand_flags(v, depth) for v in e.values]
        elif isinstance(e, ast.UnaryOp) and isinstance(e.op, ast.Not):
            e.operand = expand_flags(e.operand, depth)
        return e
    for n in ast.walk(fn2):
        if isinstance(n, (ast.If, ast.While, ast.IfExp)):
            n.test = expand_flags(n.test)
    call2 = next((n for n in ast.walk(fn2) if isinstance(n, ast.Call)
                  and (n.lineno, n.col_offset) == pos
                  and norm(n) == norm(call)), None)
    if call2 is None:
        fn2, call2 = fn, call
    fl = _CloneFlow(_DummyMod(), fn2, call2, var)
    # only the atoms of the conditions that guard the use or a (re)binding
    # of the variable are remembered
    par = {}
    for p_ in ast.walk(fn2):
        for c_ in ast.iter_child_nodes(p_):
            par[id(c_)] = p_
    anchors = [call2] + [n for n in ast.walk(fn2) if isinstance(n, ast.Assign)
                         and any(isinstance(t, ast.Name) and t.id == var
                                 for t in n.targets)]
    relevant = set()

    def leaves(e):
        if isinstance(e, ast.BoolOp):
            for v in e.values:
                yield from leaves(v)
        elif isinstance(e, ast.UnaryOp) and isinstance(e.op, ast.Not):
            yield from leaves(e.operand)
        else:
            yield e
    for a in anchors:
        node = a
        while id(node) in par:
            node = par[id(node)]
            if isinstance(node, ast.If):
                relevant |= {norm(x) for x in leaves(node.test)}
            if isinstance(node, (ast.For, ast.While)):
                break
    fl.relevant = relevant
    fl.run(("shared", frozenset()))
    return bool(fl.result) and all(r == "owned" for r in fl.result)


class _DummyMod:
    rel = HT


# ---------------------------------------------------------------------------
# C10.tuple-default

def _universal_over_children(fn, test):
    """Is the guard a statement about *all* children?  Accepts all(...) over
    a collection and loop-accumulated conjunctions; rejects a flag that each
    loop iteration overwrites."""
    if isinstance(test, ast.Call) and norm(test.func) == "all":
        return True, "all(...)"
    if not isinstance(test, ast.Name):
        return None, norm(test)
    name = test.id
    defs = [a for a in ast.walk(fn) if isinstance(a, (ast.Assign, ast.AugAssign))
            and any(isinstance(t, ast.Name) and t.id == name
                    for t in (a.targets if isinstance(a, ast.Assign)
                              else [a.target]))]
    par = {}
    for p in ast.walk(fn):
        for c in ast.iter_child_nodes(p):
            par[id(c)] = p

    def in_loop(node):
        x = par.get(id(node))
        while x is not None:
            if isinstance(x, (ast.For, ast.While)):
                return x
            x = par.get(id(x))
        return None
    verdict = True
    why = []
    for a in defs:
        loop = in_loop(a)
        if isinstance(a, ast.AugAssign):
            why.append("augmented")
            continue
        v = a.value
        if loop is None:
            if isinstance(v, ast.Call) and norm(v.func) == "all":
                why.append("all(...)")
            continue
        mentions_self = any(isinstance(x, ast.Name) and x.id == name
                            for x in ast.walk(v))
        const_false = isinstance(v, ast.Constant) and v.value is False
        if mentions_self or const_false:
            why.append("accumulated")
        else:
            verdict = False
            why.append(f"overwritten in loop at line {a.lineno}")
    return verdict, ", ".join(why)


@rule("C10.tuple-default", ["C10"],
      "a Tuple uses one shared constant default only if *every* member has a "
      "constant default; otherwise the default is computed per instance")
def tuple_default(ctx, res):
    repo = get_pyrepo(ctx)
    T = "traits/trait_types.py"
    mod = repo.module(T)
    fn = repo.func(T, "BaseTuple.__init__")
    guards = []
    swapped = False
    for i in ast.walk(fn):
        if isinstance(i, ast.If) and i.orelse:
            body_txt = " ".join(norm(s) for s in i.body)
            else_txt = " ".join(norm(s) for s in i.orelse)
            if "tuple(" in body_txt and "DefaultValue.callable" in else_txt:
                guards.append(i)
            elif "tuple(" in else_txt and "DefaultValue.callable" in body_txt:
                guards.append(i)
                swapped = True
    if len(guards) != 1:
        raise AnalysisError("BaseTuple.__init__: constant/dynamic default "
                            "decision not found")
    gd = guards[0]
    gtest = gd.test
    if swapped:
        # `if not <all constant>: dynamic  else: constant`
        if isinstance(gtest, ast.UnaryOp) and isinstance(gtest.op, ast.Not):
            gtest = gtest.operand
        else:
            raise AnalysisError("BaseTuple.__init__: swapped default "
                                "decision without `not`")
    ok, why = _universal_over_children(fn, gtest)
    res.instance("BaseTuple.__init__:default-decision", mod.loc(gd),
                 guard=norm(gd.test), form=why)
    if ok is None:
        raise AnalysisError(f"BaseTuple.__init__: guard `{why}` not "
                            f"recognised")
    res.oblige(ok, "BaseTuple.__init__:universal", mod.loc(gd),
               f"the constant-default decision `{norm(gd.test)}` is {why}: "
               f"it no longer depends on every member, so a Tuple with a "
               f"container member can get one default tuple (holding the "
               f"member's template container) shared by all instances")
    # the dynamic default asks each member for a per-object default
    dyn = repo.func(T, "BaseTuple._get_default_value")
    res.oblige(any(isinstance(c, ast.Call) and isinstance(c.func, ast.Attribute)
                   and c.func.attr == "default_value_for"
                   for c in ast.walk(dyn)),
               "BaseTuple._get_default_value", mod.loc(dyn),
               "the dynamic Tuple default does not build per-object member "
               "defaults (default_value_for)")
    res.floor(1)


# ---------------------------------------------------------------------------
# C10.shareable-default: which member default kinds may be folded into one
# shared constant default of a compound trait

def _eval_kind_pred(mod, e, var, k, enum):
    """evaluate a predicate over the default-value kind ``var`` for the enum
    member value ``k``; None when not interpretable"""
    def members(x):
        # a literal or module-level collection of DefaultValue members
        if isinstance(x, ast.Name):
            for st in mod.tree.body:
                if isinstance(st, ast.Assign) and any(
                        isinstance(t, ast.Name) and t.id == x.id
                        for t in st.targets):
                    return members(st.value)
            return None
        if isinstance(x, ast.Call) and norm(x.func) in ("frozenset", "set",
                                                         "tuple") and x.args:
            return members(x.args[0])
        if isinstance(x, (ast.Set, ast.Tuple, ast.List)):
            out = set()
            for el in x.elts:
                v = value(el)
                if v is None:
                    return None
                out.add(v)
            return out
        return None

    def value(x):
        if isinstance(x, ast.Name) and x.id == var:
            return k
        if isinstance(x, ast.Attribute) and norm(x.value) == "DefaultValue" \
                and x.attr in enum:
            return enum[x.attr]
        if isinstance(x, ast.Constant) and isinstance(x.value, int):
            return x.value
        return None
    if isinstance(e, ast.BoolOp):
        vals = [_eval_kind_pred(mod, v, var, k, enum) for v in e.values]
        if None in vals:
            return None
        return all(vals) if isinstance(e.op, ast.And) else any(vals)
    if isinstance(e, ast.UnaryOp) and isinstance(e.op, ast.Not):
        v = _eval_kind_pred(mod, e.operand, var, k, enum)
        return None if v is None else not v
    if isinstance(e, ast.Compare) and len(e.ops) == 1:
        op, l, r = e.ops[0], e.left, e.comparators[0]
        if isinstance(op, (ast.Eq, ast.NotEq, ast.Is, ast.IsNot)):
            a, b = value(l), value(r)
            if a is None or b is None:
                return None
            return (a == b) == isinstance(op, (ast.Eq, ast.Is))
        if isinstance(op, (ast.In, ast.NotIn)):
            a, ms = value(l), members(r)
            if a is None or ms is None:
                return None
            return (a in ms) == isinstance(op, ast.In)
    return None


@rule("C10.shareable-default", ["C10"],
      "Tuple and Union fold a member's default into one shared constant "
      "default only for the kind `constant`: evaluated for every member of "
      "DefaultValue, the deciding predicate is false for all other kinds "
      "(list/dict/set templates, factories, ... are per object)")
def shareable_default(ctx, res):
    from .ctables import py_enum
    repo = get_pyrepo(ctx)
    T = "traits/trait_types.py"
    mod = repo.module(T)
    enum = py_enum(ctx, "traits/constants.py", "DefaultValue")
    if "constant" not in enum or len(enum) < 8:
        raise AnalysisError(f"DefaultValue members: {enum}")
    sites = []
    # BaseTuple.__init__: all(<pred> for dvt in ...) / not any(<pred> ...)
    fn = repo.func(T, "BaseTuple.__init__")
    for c in ast.walk(fn):
        if isinstance(c, ast.Call) and norm(c.func) in ("all", "any") \
                and c.args and isinstance(c.args[0], ast.GeneratorExp):
            g = c.args[0]
            tgt = g.generators[0].target
            if isinstance(tgt, ast.Name):
                var = tgt.id
            else:
                # unpacked pairs: the kind is the component the predicate uses
                used = {n.id for n in ast.walk(g.elt)
                        if isinstance(n, ast.Name)}
                cands = [n.id for n in ast.walk(tgt)
                         if isinstance(n, ast.Name) and n.id in used]
                if len(cands) != 1:
                    continue
                var = cands[0]
            if "default" not in norm(g.generators[0].iter):
                continue
            neg = norm(c.func) == "any"
            sites.append(("BaseTuple.__init__", g.elt, var, neg, c))
    # ... or a flag updated per member inside the loop:
    # `constant_default = <pred on the member's kind>`
    if not sites:
        for lp in ast.walk(fn):
            if not isinstance(lp, ast.For):
                continue
            for a in ast.walk(lp):
                if isinstance(a, ast.Assign) and len(a.targets) == 1 \
                        and isinstance(a.targets[0], ast.Name) \
                        and "DefaultValue." in norm(a.value) \
                        and isinstance(a.value, (ast.Compare, ast.BoolOp)):
                    names = [n.id for n in ast.walk(a.value)
                             if isinstance(n, ast.Name)
                             and "default" in n.id and "type" in n.id]
                    if names:
                        sites.append(("BaseTuple.__init__", a.value, names[0],
                                      False, a))
    # Union.__init__: if <pred on first_default_value_type>: default = ...
    fn = repo.func(T, "Union.__init__")
    for i in ast.walk(fn):
        if isinstance(i, ast.If) and i.orelse and any(
                "DefaultValue.callable" in norm(s) for s in i.orelse):
            names = [n.id for n in ast.walk(i.test) if isinstance(n, ast.Name)
                     and "default_value_type" in n.id]
            if names:
                sites.append(("Union.__init__", i.test, names[0], False, i))
    if len(sites) < 2:
        raise AnalysisError(f"constant-default decisions not found "
                            f"({[s[0] for s in sites]})")
    for where, pred, var, neg, node in sites:
        key = f"{where}:shareable"
        res.instance(key, mod.loc(node), predicate=norm(pred), negated=neg)
        wrong = []
        for name, k in sorted(enum.items(), key=lambda kv: kv[1]):
            v = _eval_kind_pred(mod, pred, var, k, enum)
            if v is None:
                raise AnalysisError(f"{where}: predicate `{norm(pred)}` not "
                                    f"interpretable for {name}")
            shareable = (not v) if neg else v
            if shareable != (name == "constant"):
                wrong.append(name)
        res.oblige(not wrong, key, mod.loc(node),
                   f"{where} treats member default kind(s) {wrong} as "
                   f"{'shareable' if wrong and wrong != ['constant'] else 'per-object'}"
                   f": a member with such a default (e.g. Set -> "
                   f"trait_set_object) hands its template object to one "
                   f"constant default shared by every instance")
    res.floor(2)


# ---------------------------------------------------------------------------
# C10.private-instance-trait / cloned-set integrity

class _StoreFlow(PyFlow):
    """state: frozenset of local names currently bound to a fresh clone"""

    def __init__(self, module, func):
        super().__init__(module, func)
        self.stores = []

    @staticmethod
    def _fresh(v):
        t = norm(v)
        return t.startswith("_clone_trait(") or t.startswith("CTrait(")

    def classify(self, e, node):
        if isinstance(e, ast.Assign):
            return [("A", False)]
        return []

    def step(self, st, ev, e, node):
        fresh = self._fresh(e.value) or (isinstance(e.value, ast.Name)
                                         and e.value.id in st)
        new = set(st)
        for t in e.targets:
            if isinstance(t, ast.Name):
                (new.add if fresh else new.discard)(t.id)
            if isinstance(t, ast.Subscript):
                base = norm(t.value)
                if base.endswith("_instance_traits()") or base in st and False:
                    self.stores.append((e, fresh, node.id, st))
                elif base in self.itables:
                    self.stores.append((e, fresh, node.id, st))
        return frozenset(new)


@rule("C10.private-instance-trait", ["C10", "C08"],
      "whatever Python code stores into an object's instance-trait dictionary "
      "is a fresh clone on every path (handlers added later with _trait(name, "
      "2) extend its notifier list in place); the `cloned` bookkeeping of the "
      "metaclass is written only together with an actual clone")
def private_instance_trait(ctx, res):
    repo = get_pyrepo(ctx)
    mod = repo.module(HT)
    n = 0
    for qual, fn in mod.functions.items():
        # locals bound to the instance-trait dictionary
        itables = {a.targets[0].id for a in ast.walk(fn)
                   if isinstance(a, ast.Assign) and len(a.targets) == 1
                   and isinstance(a.targets[0], ast.Name)
                   and norm(a.value).endswith("._instance_traits()")}
        direct = any(isinstance(a, ast.Assign) and any(
            isinstance(t, ast.Subscript)
            and norm(t.value).endswith("._instance_traits()")
            for t in a.targets) for a in ast.walk(fn))
        if not itables and not direct:
            continue
        fl = _StoreFlow(_DummyMod(), fn)
        fl.itables = itables
        fl.run(frozenset())
        if not fl.stores:
            continue
        n += 1
        res.instance(qual, mod.loc(fn), stores=len(fl.stores))
        bad = [s for s in fl.stores if not s[1]]
        res.oblige(not bad, f"{qual}:stores-clone",
                   mod.loc(bad[0][0]) if bad else mod.loc(fn),
                   f"{qual} stores `{norm(bad[0][0].value) if bad else ''}` "
                   f"into the instance-trait dictionary on a path where it "
                   f"is not a fresh clone: a CTrait shared with the caller, "
                   f"another object or a class (e.g. the cached items-event "
                   f"trait) becomes this object's instance trait and later "
                   f"handler registrations mutate it for everybody",
                   fl.witness_lines(bad[0][2], bad[0][3]) if bad else None)
    if n == 0:
        raise AnalysisError("no store into an instance-trait dictionary found")
    # cloned-set integrity in the metaclass
    upd = repo.inlined(HT, "update_traits_class_dict",
                       keep=("_add_notifiers", "_clone_trait"))
    par = {}
    for p_ in ast.walk(upd):
        for c_ in ast.iter_child_nodes(p_):
            par[id(c_)] = p_
    adds = [c for c in ast.walk(upd) if isinstance(c, ast.Call)
            and norm(c.func) == "cloned.add"]
    res.instance("update_traits_class_dict:cloned", mod.loc(upd),
                 adds=len(adds))
    if not adds:
        raise AnalysisError("update_traits_class_dict: cloned.add not found")
    for c in adds:
        st = par.get(id(c))
        while st is not None and not isinstance(st, ast.stmt):
            st = par.get(id(st))
        body = getattr(par.get(id(st)), "body", [])
        ok = any(isinstance(s, ast.Assign) and "_clone_trait(" in norm(s.value)
                 for s in body)
        res.oblige(ok, "update_traits_class_dict:cloned-means-cloned",
                   mod.loc(c),
                   f"`{norm(c)}` marks a trait as private to the class without "
                   f"cloning it in the same block: handlers and defaults are "
                   f"then attached to a CTrait object that another class may "
                   f"share (the same module-level trait used in two classes)")
    res.floor(2)


@rule("C10.default-once", ["C10"],
      "once the computed default has been stored in the instance dictionary "
      "it stays there on every exit, including failing ones: the default "
      "factory runs at most once per object and later reads return the same "
      "object")
def default_once(ctx, res):
    facts = get_cfacts(ctx)
    n = 0
    for fname in facts.defined_functions():
        fn = facts.func(fname)
        from ..cexpr import callee
        if not any(x.kind == "CallExpr" and callee(x) == "default_value_for"
                   for x in fn.walk()):
            continue
        ps, _, g = paths_of(ctx, fname)
        stored = 0
        bad = None
        for p in ps:
            dv = None
            st = None
            for i, it in enumerate(p.trace):
                if it[0] != "call":
                    continue
                if it[1] == "default_value_for":
                    dv = it[3]
                elif it[1] == "PyDict_SetItem" and dv and len(it[2]) == 3 \
                        and it[2][2] == dv:
                    st = (i, it[2][1])
                    stored += 1
                elif it[1] in ("PyDict_DelItem", "PyDict_Clear") and st \
                        and (len(it[2]) < 2 or it[2][1] == st[1]):
                    bad = (p, it[4])
        if not stored:
            continue
        n += 1
        res.instance(fname, facts.loc(fn), storing_paths=stored)
        res.oblige(bad is None, f"{fname}:rolled-back",
                   f"{CREL}:{bad[1]}" if bad else "",
                   f"{fname} removes the default it has just stored (a "
                   f"failing post_setattr or listener hook-up): the next read "
                   f"runs the factory / _name_default again and returns a "
                   f"different object than the one already handed to "
                   f"post_setattr and the notifiers",
                   [f"{CREL}:{l}" for l in dict.fromkeys(bad[0].lines) if l]
                   if bad else None)
    res.floor(2)


@rule("C13.remove-trait", ["C13"],
      "remove_trait deletes the stored value straight from the instance "
      "dictionary on every path that removes the instance trait: the "
      "deletion is not routed through the class-level rule (Disallow, "
      "ReadOnly, Event, Constant refuse or ignore it and the stale value "
      "would stay readable through the C fast path)")
def remove_trait_rule(ctx, res):
    from .containers import FactFlow
    repo = get_pyrepo(ctx)
    mod = repo.module(HT)
    fn = repo.func(HT, "HasTraits.remove_trait")
    ps = [a.arg for a in fn.args.args]
    selfn, namep = ps[0], ps[1]

    class F(FactFlow):
        def classify(s, e, node):
            if isinstance(e, ast.Delete):
                return [("DEL", False)]
            if isinstance(e, ast.Call) and isinstance(e.func, ast.Attribute) \
                    and e.func.attr == "pop" \
                    and norm(e.func.value) == f"{selfn}.__dict__":
                return [("POPV", False)]
            if isinstance(e, ast.Call) and (
                    norm(e.func) in ("delattr", "setattr")
                    or (isinstance(e.func, ast.Attribute)
                        and e.func.attr in ("reset_traits", "trait_set",
                                            "trait_setq"))):
                return [("VIA", False)]
            return []

        def step(s, st, ev, e, node):
            if ev == "DEL":
                t = norm(e.targets[0])
                if t == f"{selfn}.__dict__[{namep}]":
                    return st | {("DID", "value")}
                if t.endswith(f"[{namep}]"):
                    return st | {("DID", "itrait")}
                return st
            if ev == "POPV":
                return st | {("DID", "value")}
            s.via.append(e)
            return st
    fl = F(mod, fn, "HasTraits.remove_trait")
    fl.via = []
    fl.run(frozenset())
    g = fl.cfg
    n = 0
    bad = None
    for st in fl.states[g.exit.id]:
        if ("DID", "itrait") not in st:
            continue
        n += 1
        present_false = ("F", f"{namep} in {selfn}.__dict__") in st
        if ("DID", "value") not in st and not present_false:
            bad = st
    res.instance("HasTraits.remove_trait", mod.loc(fn), removing_paths=n)
    if n == 0:
        raise AnalysisError("remove_trait: no path deletes the instance trait")
    res.oblige(bad is None, "remove_trait:value-deleted", mod.loc(fn),
               "a path removes the instance trait but leaves the value in "
               "self.__dict__ (not deleted, not known absent)")
    res.oblige(not fl.via, "remove_trait:direct",
               mod.loc(fl.via[0]) if fl.via else mod.loc(fn),
               f"`{norm(fl.via[0])[:60] if fl.via else ''}` routes the "
               f"clean-up through attribute assignment/deletion, which the "
               f"class-level trait governs once the instance trait is gone")
    res.floor(1)


# ---------------------------------------------------------------------------
# C13.define-once: `_add_class_trait` (the worker of add_class_trait, called
# for the class and then for every subclass) never replaces an existing
# definition: a store into a class-level trait table under the name is reached
# only through the "absent" outcome of a membership test of that table - a
# subclass's own declaration keeps governing its objects.

def _table_roots(fn):
    """local -> text of the class table it was read from"""
    out = {}
    for a in ast.walk(fn):
        if isinstance(a, ast.Assign) and len(a.targets) == 1 \
                and isinstance(a.targets[0], ast.Name):
            out[a.targets[0].id] = norm(a.value)
    return out


@rule("C13.define-once", ["C13"],
      "_add_class_trait stores into a class-level trait table only on paths "
      "where a membership test found the name absent from that table (a "
      "subclass's own declaration is never replaced by a trait added to a "
      "base class)")
def define_once(ctx, res):
    from ..cfg import enumerate_paths
    from ..pycfg import build_cfg
    repo = get_pyrepo(ctx)
    mod = repo.module(HT)
    fn = repo.inlined(HT, "HasTraits._add_class_trait")
    ps = [a.arg for a in fn.args.args]
    namep = ps[1]
    g = build_cfg(fn, "_add_class_trait")
    roots = _table_roots(fn)

    def table_of(e):
        """the class table an expression denotes: 'prefix', 'class' or None"""
        t = norm(e)
        t = roots.get(t, t) if isinstance(e, ast.Name) else t
        if "PrefixTraits" in t:
            return "prefix"
        if "ClassTraits" in t or "BaseTraits" in t:
            return "class"
        return None

    _defs = {}
    for a_ in ast.walk(fn):
        if isinstance(a_, ast.Assign) and len(a_.targets) == 1 \
                and isinstance(a_.targets[0], ast.Name):
            _defs.setdefault(a_.targets[0].id, []).append(a_.value)
    flags = {k: v[0] for k, v in _defs.items()
             if len(v) == 1 and isinstance(v[0], ast.Compare)}

    # the key: the name parameter or a local derived from it
    # (`prefix = name[:-1]`)
    keys = {namep}
    for _ in range(3):
        for k_, vs in _defs.items():
            if any(any(isinstance(n_, ast.Name) and n_.id in keys
                       for n_ in ast.walk(v_)) for v_ in vs) \
                    and not any(isinstance(v_, ast.Compare) for v_ in vs):
                keys.add(k_)

    def absent_test(a, lab):
        """(table, key, present?) for a membership test of the name"""
        if isinstance(a, ast.Name) and a.id in flags:
            a = flags[a.id]         # `exists = name in table; if exists:`
        if isinstance(a, ast.Compare) and len(a.ops) == 1:
            op, l, r = a.ops[0], a.left, a.comparators[0]
            if isinstance(op, (ast.In, ast.NotIn)) and norm(l) in keys:
                tb = table_of(r)
                if tb:
                    return tb, norm(l), isinstance(op, ast.In) == (lab == "T")
            if isinstance(op, (ast.Is, ast.IsNot)) and norm(r) == "None" \
                    and isinstance(l, ast.Call) \
                    and isinstance(l.func, ast.Attribute) \
                    and l.func.attr == "get" and l.args \
                    and norm(l.args[0]) in keys:
                tb = table_of(l.func.value)
                if tb:
                    return tb, norm(l.args[0]), \
                        isinstance(op, ast.IsNot) == (lab == "T")
        return None

    stores = {}
    for path in enumerate_paths(g, max_paths=20000):
        known = {}
        for nid, lab in path:
            nd = g.nodes[nid]
            a = nd.ast
            if a is None:
                continue
            if nd.kind == "cond":
                r = absent_test(a, lab)
                if r:
                    known[(r[0], r[1])] = r[2]
                continue
            if isinstance(a, ast.Assign):
                for t in a.targets:
                    if isinstance(t, ast.Name) and t.id in keys:
                        # `name = name[:-1]`: tests so far were about the
                        # old spelling
                        known = {k: v for k, v in known.items()
                                 if k[1] != t.id}
                    if isinstance(t, ast.Subscript) \
                            and norm(t.slice) in keys:
                        tb = table_of(t.value)
                        if tb:
                            st = stores.setdefault(
                                (tb, norm(t), a.lineno), set())
                            st.add(known.get((tb, norm(t.slice))))
    if not stores:
        raise AnalysisError("_add_class_trait: no class-table store found")
    for (tb, text, ln), outcomes in sorted(stores.items()):
        key = f"_add_class_trait:{text}"
        res.instance(key, f"{HT}:{ln}")
        res.oblige(outcomes == {False}, key + ":absent", f"{HT}:{ln}",
                   f"`{text} = ...` is reached "
                   + ("after the membership test found the name *present*"
                      if True in outcomes else
                      "without a membership test of that table")
                   + ": an existing definition (for a subclass: its own "
                   "declaration) is replaced by the added trait")
    res.floor(3)


# ---------------------------------------------------------------------------
# C10.itrait-writers: what goes into an instance-trait dictionary is a
# private object

@rule("C10.itrait-writers", ["C10", "C08"],
      "every C store into an object's instance-trait dictionary puts a CTrait "
      "that was created on that very path (a fresh clone): a caller-supplied "
      "or class-level trait object installed as an instance trait would be "
      "shared - definition and notifier list - by every object it is "
      "installed on")
def itrait_writers(ctx, res):
    from .cstore import fresh_oracle, paths_of
    facts = get_cfacts(ctx)
    is_fresh = fresh_oracle(ctx, facts)
    n = 0
    for fname in facts.defined_functions():
        src = facts.text(facts.func(fname))
        if "itrait_dict" not in src or "PyDict_SetItem" not in src:
            continue
        try:
            paths, _, _ = paths_of(ctx, fname)
        except AnalysisError:
            continue
        bad = None
        sites = 0
        for p in paths:
            for it in p.trace:
                if it[0] != "call" or it[1] != "PyDict_SetItem":
                    continue
                args = it[2]
                if len(args) != 3:
                    continue
                d = args[0]
                # the dictionary is the object's instance-trait dictionary:
                # the field itself, or the dictionary just created for it
                is_itrait = "->itrait_dict" in d or any(
                    s_[0] == "store" and s_[1].endswith("->itrait_dict")
                    and s_[2] == d for s_ in p.trace)
                if not is_itrait:
                    continue
                sites += 1
                if not is_fresh(args[2]) and bad is None:
                    bad = (it, args[2])
        if not sites:
            continue
        n += 1
        res.instance(fname, facts.loc(facts.func(fname)), store_paths=sites)
        res.oblige(bad is None, f"{fname}:itrait-store:not-fresh",
                   f"{CREL}:{bad[0][4] if bad else 0}",
                   f"{fname} stores `{bad[1][:60] if bad else ''}` into the "
                   f"instance-trait dictionary: that object was not created "
                   f"on this path, so several objects (or an object and its "
                   f"class) end up sharing one CTrait and its notifier list")
    if n < 1:
        raise AnalysisError("no store into an instance-trait dictionary found")
    res.floor(1)
