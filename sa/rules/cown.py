"""C18.ownership: local reference-ownership typestate over symbolic paths of
every function in ctraits.c.

Values are identified by their symbolic text (a call that produced them, a
parameter, a global).  Along each feasible path (loops 0/1) the checker
counts the references the function owns to each value and reports

  leak                 an owned reference is neither released, returned,
                       stored nor stolen when the function returns
  release-of-borrowed  Py_DECREF of a parameter / borrowed value that the
                       function never acquired on that path
  use-after-release    a value whose only reference was released is used
  decref-null          Py_DECREF (not X) of a value known to be NULL

Scope bound (DESIGN.md): paths that exist only because a pure allocator
failed (out of memory) are skipped; struct fields are not owners that are
tracked (only stores into them consume a reference); immortal objects
(None/True/False, the empty tuple) are not counted.
"""
from __future__ import annotations

import re

from ..capi import API
from ..ccfg import get_ccfg
from ..cexpr import callee
from ..cfacts import CREL, get_cfacts
from ..core import AnalysisError, rule
from ..csym import feasible_paths
from .cstore import split_cmp

BORROWED_RETURNS = {
    "dict_getitem": "documented: wraps PyDict_GetItem (borrowed)",
    "get_prefix_trait": "documented in the source: returns a *borrowed* "
                        "reference, to match dict_getitem",
}
IMMORTAL = {"&_Py_NoneStruct", "&_Py_TrueStruct", "&_Py_FalseStruct",
            "PyTuple_New(0)"}
INCREF = {"Py_INCREF", "Py_XINCREF"}
DECREF = {"Py_DECREF", "Py_XDECREF"}
HELD_RESULTS = {
    "get_trait": "the returned CTrait is also referenced by the class or "
                 "instance trait dictionary it was found in / stored into",
}
# paths that exist only because an interpreter invariant is violated
# (defensive RuntimeError exits), per function, with the reason
SKIP_PATH_MARKERS = {
    "has_traits_new": ("PyExc_RuntimeError",
                       "defensive checks that the type has a tp_dict holding "
                       "the class traits: unreachable through the API"),
}
SKIP_FUNCS = {
    # type-object slots operating on struct fields only (checked by
    # C18.gc-fields) and module initialisation
    "trait_clear", "has_traits_clear", "trait_traverse",
    "has_traits_traverse", "trait_dealloc", "has_traits_dealloc",
    "PyInit_ctraits", "trait_clone", "set_value",
}


def is_field_text(t):
    """text denotes a struct field / array element of a non-local object"""
    if t.endswith(")") and not re.search(r"\)(->|\.)\w+$", t) \
            and not re.search(r"\]$", t):
        return False
    return "->" in t or "ob_item[" in t


def base_call(t):
    m = re.match(r"([A-Za-z_]\w*)\(", t)
    return m.group(1) if m else None


def python_runners(facts):
    """in-file functions that can (transitively) run arbitrary Python code;
    reference releases are not counted (finalizers are out of scope)"""
    from ..cexpr import callee
    direct, calls = set(), {}
    for f in facts.defined_functions():
        cs = set()
        for x in facts.func(f).walk():
            if x.kind == "CallExpr":
                c = callee(x)
                cs.add(c)
                if c in DECREF or c in INCREF:
                    continue
                if (c in API and API[c]["python"]) or c.startswith("->"):
                    direct.add(f)
        calls[f] = cs
    run = set(direct)
    changed = True
    while changed:
        changed = False
        for f, cs in calls.items():
            if f not in run and cs & run:
                run.add(f)
                changed = True
    return run


def slot_targets(facts):
    """callee text -> in-file functions it may reach: a direct call, or a call
    through a handler slot (every member of the table that
    C14.getstate-membership proves to be all that can be stored there)"""
    from .crec import _field_tables
    ft = _field_tables(facts)
    defined = set(facts.defined_functions())
    cache = {}

    def targets(c):
        if c not in cache:
            if c in defined:
                cache[c] = [c]
            elif c.startswith("->") and c[2:] in ft:
                cache[c] = [m for m in facts.table(ft[c[2:]]) if m in defined]
            else:
                cache[c] = []
        return cache[c]
    return targets


def uses_after_callback(ctx, facts, runners):
    """{(function, parameter index)}: on some path the function still
    consults that (pointer) parameter - dereferences it, or hands it to a
    callee that does - after a call that can run arbitrary Python code.  A
    caller must therefore keep the object alive for the whole call: a
    reference that is merely borrowed from a dictionary is not enough."""
    from ..csym import cached_paths
    targets = slot_targets(facts)
    events = {}
    for f in facts.defined_functions():
        if f in SKIP_FUNCS:
            continue
        paths = cached_paths(ctx, facts, f)
        if paths is None:
            continue
        params = [p.name for p in facts.params(f)]
        evs = []
        for p in paths:
            ev = []
            for it in p.trace:
                if it[0] == "atom":
                    ev.append(("use", [it[1]]))
                elif it[0] == "store":
                    ev.append(("use", [it[1], it[2]]))
                else:
                    _, c, args, full, line, _stmt = it
                    if c in INCREF or c in DECREF:
                        # the function's own reference to a parameter keeps
                        # the object alive between the two
                        ev.append(("hold" if c in INCREF else "drop",
                                   args[0] if args else ""))
                        continue
                    ev.append(("call", c, list(args), full))
            evs.append(ev)
        events[f] = (params, evs)

    def mentions(t, prm):
        return t == prm or t.startswith(prm + "->") or derefs(t, prm)

    summ = set()
    changed = True
    while changed:
        changed = False
        for f, (params, evs) in events.items():
            for i, prm in enumerate(params):
                if (f, i) in summ:
                    continue
                hit = False
                for ev in evs:
                    after = False
                    held = 0
                    for e in ev:
                        if e[0] in ("hold", "drop"):
                            if e[1] == prm:
                                held += 1 if e[0] == "hold" else -1
                            continue
                        if held > 0:
                            # (what runs Python code while the reference is
                            # held still counts for uses after the release)
                            if e[0] == "call" and (
                                    (e[1] in API and API[e[1]]["python"])
                                    or e[1].startswith("->")
                                    or e[1] in runners):
                                after = True
                            continue
                        if e[0] == "use":
                            if after and any(mentions(t, prm) for t in e[1]):
                                hit = True
                        else:
                            _, c, args, full = e
                            if after and (full.startswith(prm + "->")
                                          or any(mentions(a, prm) for a in args)):
                                hit = True
                            for j, a in enumerate(args):
                                if a == prm and any((g, j) in summ
                                                    for g in targets(c)):
                                    hit = True
                            if (c in API and API[c]["python"]) \
                                    or c.startswith("->") or c in runners:
                                after = True
                        if hit:
                            break
                    if hit:
                        break
                if hit:
                    summ.add((f, i))
                    changed = True
    return summ, targets


class Own:
    RUNNERS = frozenset()
    USES_AFTER = frozenset()
    TARGETS = staticmethod(lambda c: [])

    def __init__(self, facts, fname, params, ret_pointer):
        self.facts, self.fname = facts, fname
        self.params = set(params)
        self.ret_pointer = ret_pointer
        self.reports = []

    def returns_new(self, callee_name, text):
        if callee_name in API:
            return API[callee_name]["ret"] == "new"
        if self.facts.has_func(callee_name):
            if callee_name in BORROWED_RETURNS \
                    or callee_name in self.facts._lookup_like:
                return False
            t = self.facts.func(callee_name).type or ""
            return "*" in t.split("(")[0] and ("PyObject" in t
                                               or "trait_object" in t)
        return False

    def run(self, p):
        owned, origin, null, dead = {}, {}, set(), {}
        weak, stale = set(), {}     # held only by a container / after a callback
        out = []

        seen_calls = []

        def mask(t, keep=None):
            """replace the text of call results already computed on this path
            (they are values in their own right, not new uses of their
            operands)"""
            for ct in sorted(seen_calls, key=len, reverse=True):
                if ct != keep and len(ct) < len(t) + 1 and ct in t and ct != t:
                    t = t.replace(ct, "@")
                elif ct == t and ct != keep:
                    t = "@"
            return t

        def check_stale(texts, line, what):
            for a in texts:
                for d, dl in stale.items():
                    if derefs(mask(a, d), d):
                        out.append(("borrowed-across-callback", d, line,
                                    f"`{d[:70]}` is not owned by this "
                                    f"function (it is kept alive only by a "
                                    f"container) and is used in {what} after "
                                    f"the call at line {dl}, which can run "
                                    f"arbitrary Python code that replaces or "
                                    f"removes it"))
        assigned_globals = set()
        out_count = {}
        stored = set()          # values put into a container by this path
        marker = SKIP_PATH_MARKERS.get(self.fname)
        if marker and any(it[0] == "call" and marker[0] in " ".join(it[2])
                          for it in p.trace):
            return None

        def track(t, org):
            if t in IMMORTAL or t == "0":
                return False
            origin.setdefault(t, org)
            owned.setdefault(t, 0)
            return True

        def classify(t):
            if t in origin:
                return True
            if t in self.params:
                return track(t, "param")
            if re.fullmatch(r"[A-Za-z_]\w*", t) and t in self.facts.globals:
                return track(t, "global")
            return False

        def check_use(texts, line, what):
            for a in texts:
                for d, dl in dead.items():
                    if derefs(mask(a, d), d):
                        out.append(("use-after-release", d, line,
                                    f"`{d[:70]}` was released at line "
                                    f"{dl} (its only reference) and is "
                                    f"used in {what}"))

        # OOM-only path?
        for it in p.trace:
            if it[0] != "atom" or not isinstance(it[2], bool):
                continue
            for op, isnull in (("==", True), ("!=", False)):
                sp = split_cmp(it[1], op)
                if sp and "0" in sp:
                    other = sp[0] if sp[1] == "0" else sp[1]
                    bc = base_call(other)
                    says_null = isnull if it[2] else not isnull
                    if says_null and bc in API and API[bc]["oom"] \
                            and other.endswith(")"):
                        return None
            sp = split_cmp(it[1], "<")
            if sp and sp[1] == "0" and it[2]:
                bc = base_call(sp[0])
                if bc in ("PyList_Append",):
                    return None

        for it in p.trace:
            if it[0] == "atom":
                text, truth = it[1], it[2]
                if not isinstance(truth, bool):
                    continue
                for op, isnull in (("==", True), ("!=", False)):
                    sp = split_cmp(text, op)
                    if sp and "0" in sp:
                        other = sp[0] if sp[1] == "0" else sp[1]
                        says_null = isnull if truth else not isnull
                        if says_null:
                            null.add(other)
                            if other in owned:
                                owned[other] = 0
                        else:
                            null.discard(other)
                if text in owned and not truth:
                    null.add(text)
                    owned[text] = 0
                # dereference of a dead value inside a condition
                check_stale([text], 0, f"the condition `{text[:60]}`")
                for d, dl in dead.items():
                    if derefs(mask(text, d), d):
                        out.append(("use-after-release", d,
                                    0, f"`{d[:70]}` is dereferenced in the "
                                    f"condition `{text[:80]}` after its only "
                                    f"reference was released at line {dl}"))
                continue
            if it[0] == "store":
                _, lhs, rhs, line = it
                if classify(rhs) or rhs in origin:
                    if rhs not in null:
                        owned[rhs] -= 1       # the field now holds it
                continue
            _, c, args, full, line, stmt = it
            if c in INCREF:
                a = args[0]
                if a in null and c == "Py_INCREF":
                    out.append(("incref-null", a, line,
                                f"Py_INCREF of `{a[:60]}` which is NULL on "
                                f"this path"))
                if is_field_text(a) and a not in origin:
                    continue
                if classify(a) or a in origin:
                    if a not in null:
                        owned[a] += 1
                check_use([a], line, "Py_INCREF")
                continue
            if c in DECREF:
                a = args[0]
                if a in null:
                    if c == "Py_DECREF":
                        out.append(("decref-null", a, line,
                                    f"Py_DECREF of `{a[:60]}`, which is NULL "
                                    f"on this path"))
                    continue
                if a in dead:
                    out.append(("double-release", a, line,
                                f"`{a[:60]}` is released again after its "
                                f"only reference was released at line "
                                f"{dead[a]}"))
                    continue
                if is_field_text(a) and a not in origin:
                    continue            # releasing a field's own reference
                if a in IMMORTAL:
                    continue
                if classify(a) or a in origin:
                    if owned[a] > 0:
                        owned[a] -= 1
                        if owned[a] == 0 and origin[a] == "new":
                            if top_callee(a) in HELD_RESULTS or a in stored:
                                weak.add(a)
                            else:
                                dead[a] = line
                    elif origin[a] in ("param", "borrowed"):
                        out.append(("release-of-borrowed", a, line,
                                    f"`{c}({a[:60]})` releases a "
                                    f"{'parameter' if origin[a] == 'param' else 'borrowed value'}"
                                    f" the function never acquired on this "
                                    f"path (the caller's reference is "
                                    f"over-released)"))
                    else:
                        owned[a] -= 1
                continue
            # uses
            check_use(args, line, f"`{c}(...)`")
            check_stale(args, line, f"`{c}(...)`")
            # a value kept alive only by a dictionary is handed to a callee
            # that still uses it after running arbitrary Python code
            for j, a in enumerate(args):
                if a in weak and owned.get(a, 0) <= 0 \
                        and origin.get(a) != "param":
                    tg = [g for g in Own.TARGETS(c)
                          if (g, j) in Own.USES_AFTER]
                    if tg:
                        out.append(("borrowed-into-callback", a, line,
                                    f"`{a[:70]}` is only borrowed from a "
                                    f"dictionary and is passed to `{c}` "
                                    f"(argument {j + 1}); {', '.join(sorted(tg)[:4])} "
                                    f"can run arbitrary Python code - which "
                                    f"may remove that dictionary entry and "
                                    f"free the object - and still use the "
                                    f"argument afterwards: the caller must "
                                    f"hold its own reference for the "
                                    f"duration of the call"))
            if c in ("PyDict_SetItem", "PyList_Append", "PyDict_SetItemString") \
                    and args:
                stored.add(args[-1])
            if (c in API and API[c]["python"]) or c.startswith("->") \
                    or c in Own.RUNNERS:
                for wv in weak:
                    if owned.get(wv, 0) <= 0 and wv not in stale:
                        stale[wv] = line
            for a in args:
                if a.startswith("&") and a[1:] in self.facts.globals:
                    assigned_globals.add(a[1:])
            # `&local` out-parameters: csym names the value the call left in
            # the local `out<k>(<local>)`, k counting the writes so far
            for i, a in enumerate(args):
                if not a.startswith("&"):
                    continue
                m = re.fullmatch(r"&(?:out\d+\()?([A-Za-z_]\w*)\)?", a)
                if not m or m.group(1) in self.facts.globals \
                        or m.group(1).startswith("_Py_"):
                    continue
                v = m.group(1)
                out_count[v] = out_count.get(v, 0) + 1
                newv = f"out{out_count[v]}({v})"
                spec = API.get(c)
                if spec and i in spec.get("inout", ()):
                    oldv = a[1:]
                    if (oldv in origin) and oldv not in null:
                        owned[oldv] -= 1      # consumed by the call
                    if oldv in null:
                        null.add(newv)
                if spec and (i in spec.get("outs_new", ())
                             or i in spec.get("inout", ())):
                    if track(newv, "new") and newv not in null:
                        owned[newv] += 1
            if c in API and API[c]["steals"]:
                for i in API[c]["steals"]:
                    if i < len(args):
                        a = args[i]
                        if classify(a) or a in origin:
                            if a not in null:
                                owned[a] -= 1
            seen_calls.append(full)
            if self.returns_new(c, full):
                if track(full, "new"):
                    owned[full] += 1
                    dead.pop(full, None)
            elif c in API and API[c]["ret"] == "borrowed" or \
                    c in BORROWED_RETURNS or c in self.facts._lookup_like:
                if track(full, "borrowed") and c != "PyErr_Occurred":
                    weak.add(full)
                    stale.pop(full, None)
        # return
        if p.outcome[0] == "RETURN" and self.ret_pointer:
            check_stale([p.outcome[1]], p.lines[-1] if p.lines else 0,
                        "the return value")
            rv = p.outcome[1]
            if rv not in ("0", "") and rv not in IMMORTAL:
                if (classify(rv) or rv in origin) and rv not in null:
                    if self.fname in BORROWED_RETURNS \
                            or self.fname in self.facts._lookup_like:
                        pass
                    else:
                        owned[rv] -= 1
                        if rv in dead:
                            out.append(("use-after-release", rv,
                                        p.lines[-1] if p.lines else 0,
                                        f"`{rv[:60]}` is returned after its "
                                        f"only reference was released"))
        for t, n in owned.items():
            if t in null or t in IMMORTAL:
                continue
            org = origin[t]
            line = p.lines[-1] if p.lines else 0
            if org == "global" and t in assigned_globals:
                continue        # the global itself is the owner
            if n > 0:
                out.append(("leak", t, line,
                            f"a reference to `{t[:70]}` is still owned when "
                            f"the function returns on this path (never "
                            f"released, returned or stored)"))
            elif n < 0:
                if org == "new":
                    out.append(("over-release", t, line,
                                f"`{t[:70]}` is released/consumed more often "
                                f"than it was acquired"))
                else:
                    out.append(("borrowed-consumed", t, line,
                                f"a borrowed reference to `{t[:70]}` is "
                                f"returned, stored or stolen without "
                                f"Py_INCREF"))
        return out


def top_callee(text):
    """Name of the outermost call of a symbolic text: `f(...)` -> f,
    `<expr>->g(...)` -> ->g; None when the text is not a call."""
    if not text.endswith(")"):
        return None
    depth = 0
    start = None
    for i in range(len(text) - 1, -1, -1):
        ch = text[i]
        if ch == ")":
            depth += 1
        elif ch == "(":
            depth -= 1
            if depth == 0:
                start = i
                break
    if start is None:
        return None
    head = text[:start]
    m = re.search(r"(->|\.)?([A-Za-z_]\w*)$", head)
    if not m:
        return None
    return ("->" if m.group(1) else "") + m.group(2)


def _norm_key(fname, kind, text):
    """Stable key: function, kind and the producer of the value (outermost
    callee, parameter or global name); never a line number."""
    tc = top_callee(text)
    return f"{fname}:{kind}:{tc if tc else text[:40]}"


def derefs(text, d):
    """does `text` use the dead value `d` directly (as the value itself or
    through `d->field`), as opposed to merely mentioning how another value
    was once computed from it?"""
    if text == d or text.startswith(d + "->"):
        return True
    for op in ("==", "!=", "<", "<=", ">", ">="):
        sp = split_cmp(text, op)
        if sp:
            return any(x == d or x.startswith(d + "->") for x in sp)
    return False


def analyse_ownership(ctx):
    def compute():
        facts = get_cfacts(ctx)
        Own.RUNNERS = frozenset(python_runners(facts))
        ua, tg = uses_after_callback(ctx, facts, Own.RUNNERS)
        Own.USES_AFTER = frozenset(ua)
        Own.TARGETS = staticmethod(tg)
        results = {}
        analysed, skipped = [], []
        for fname in facts.defined_functions():
            if fname in SKIP_FUNCS:
                skipped.append((fname, "struct-field only / init"))
                continue
            from ..csym import cached_paths
            paths = cached_paths(ctx, facts, fname)
            if paths is None:
                skipped.append((fname, "too many paths"))
                continue
            params = [p.name for p in facts.params(fname)]
            t = facts.func(fname).type or ""
            retp = "*" in t.split("(")[0]
            own = Own(facts, fname, params, retp)
            found = {}
            n_paths = 0
            for p in paths:
                r = own.run(p)
                if r is None:
                    continue
                n_paths += 1
                for kind, text, line, msg in r:
                    k = _norm_key(fname, kind, text)
                    if k not in found:
                        found[k] = (kind, text, line or (p.lines[-1] if p.lines
                                                         else 0), msg, p)
            analysed.append((fname, n_paths))
            results[fname] = found
        # a transparent helper (one call site, spliced into its caller by the
        # path engine) is judged in the caller's context as far as the
        # contract of its parameters goes: standing alone, a helper that
        # consumes a reference handed to it looks like one that releases a
        # borrowed parameter, and one that hands back what it looked up in a
        # dictionary like one that gives away a reference it does not own
        # (every store or steal inside it is seen again, spliced, in the
        # caller)
        from ..csym import inlined_helpers
        for h in inlined_helpers(ctx, facts):
            hp = {q.name for q in facts.params(h)}
            for k in [k for k, v in results.get(h, {}).items()
                      if (v[0] == "release-of-borrowed" and v[1] in hp)
                      or v[0] == "borrowed-consumed"]:
                del results[h][k]
        from ..csym import flush_paths
        flush_paths(ctx)
        return facts, results, analysed, skipped
    return ctx.memo("c-ownership", compute)


@rule("C18.ownership", ["C18"],
      "reference ownership is balanced on every path of every C function: "
      "no leak, no release of a borrowed reference, no use after release")
def ownership(ctx, res):
    facts, results, analysed, skipped = analyse_ownership(ctx)
    for fname, n_paths in analysed:
        found = results[fname]
        res.instance(fname, facts.loc(facts.func(fname)), paths=n_paths,
                     nontrivial=n_paths > 1)
        if not found:
            res.oblige(True, fname, "", "")
        for k, (kind, text, line, msg, p) in sorted(found.items()):
            res.violation(k, f"{CREL}:{line}", f"{fname}: {msg}",
                          [f"{CREL}:{l}" for l in dict.fromkeys(p.lines) if l])
    for f, why in skipped:
        res.note(f"{f}: not analysed ({why})")
    if len(analysed) < 130:
        raise AnalysisError(f"only {len(analysed)} functions analysed "
                            f"(floor 130)")


# ---------------------------------------------------------------------------
# retry loops re-read the state they retry on

@rule("C18.retry-rereads", ["C18", "C05", "C06", "C07"],
      "a `goto retry` loop around a call that runs Python code re-reads the "
      "object fields it retries on: no local that caches a struct field from "
      "before the loop is consulted inside it")
def retry_rereads(ctx, res):
    from ..cexpr import callee, strip
    facts = get_cfacts(ctx)
    runners = python_runners(facts)
    n = 0
    for fname in facts.defined_functions():
        fn = facts.func(fname)
        order = {id(x): i for i, x in enumerate(fn.walk())}
        nodes = list(fn.walk())
        labels = {x.refid: x for x in nodes if x.kind == "LabelStmt"}
        for g in nodes:
            if g.kind != "GotoStmt" or g.refid not in labels:
                continue
            lab = labels[g.refid]
            lo, hi = order[id(lab)], order[id(g)]
            if lo > hi:
                continue        # forward jump (error/cleanup label)
            region = nodes[lo:hi + 1]
            runs = [x for x in region if x.kind == "CallExpr" and (
                (callee(x) in API and API[callee(x)]["python"])
                or callee(x) in runners or callee(x).startswith("->"))
                and callee(x) not in DECREF and callee(x) not in INCREF]
            if not runs:
                continue
            n += 1
            key = f"{fname}:{lab.name}"
            res.instance(key, facts.loc(lab),
                         python_calls=sorted({callee(x) for x in runs}))
            assigned_in = set()
            for x in region:
                if x.kind in ("BinaryOperator", "CompoundAssignOperator") \
                        and x.op and x.op.endswith("=") \
                        and x.op not in ("==", "!=", "<=", ">="):
                    l = strip(x.ch[0])
                    if l.kind == "DeclRefExpr":
                        assigned_in.add(l.ref)
                if x.kind == "UnaryOperator" and x.op == "&":
                    l = strip(x.ch[0])
                    if l.kind == "DeclRefExpr":
                        assigned_in.add(l.ref)      # out-parameter
            # locals defined before the loop from a field read
            cached = {}
            for x in nodes[:lo]:
                rhs = lhs = None
                if x.kind == "VarDecl" and x.ch:
                    lhs, rhs = x.name, x.ch[-1]
                elif x.kind == "BinaryOperator" and x.op == "=":
                    l = strip(x.ch[0])
                    if l.kind == "DeclRefExpr" and l.refkind == "VarDecl":
                        lhs, rhs = l.ref, x.ch[1]
                if lhs is None or rhs is None:
                    continue
                r = strip(rhs)
                if r is not None and r.kind == "MemberExpr" and r.arrow:
                    cached[lhs] = (cnorm_field(r), x)
                else:
                    cached.pop(lhs, None)
            bad = []
            for x in region:
                if x.kind == "DeclRefExpr" and x.ref in cached \
                        and x.ref not in assigned_in:
                    bad.append((x.ref, x))
            seen = set()
            for name, x in bad:
                if name in seen:
                    continue
                seen.add(name)
                res.violation(f"{key}:stale:{name}", facts.loc(x),
                              f"{fname}: `{name}` caches "
                              f"`{cached[name][0]}` from before the "
                              f"`{lab.name}:` loop and is consulted inside it "
                              f"after `{callee(runs[0])}` ran Python code "
                              f"that can create or replace that field (an "
                              f"instance-trait dictionary created by the "
                              f"first add_trait stays NULL in the copy and "
                              f"the retry fails)")
            if not seen:
                res.oblige(True, key, "", "")
    if n == 0:
        # no retry loop around a Python-running call in this source: nothing
        # to re-read (the self-test keeps a positive example)
        res.instance("(no retry loop)", CREL)
        res.oblige(True, "(no retry loop)", "", "")


def cnorm_field(n):
    from ..cexpr import cnorm
    return cnorm(n)


# ---------------------------------------------------------------------------
# replace-order: acquire the new value of a field before releasing the old one

def _is_slot(t, params):
    """text of a storage slot outside the function: a struct field or the
    target of a pointer parameter"""
    return is_field_text(t) or (t.startswith("*") and t[1:] in params)


REPLACE_SKIP = {"trait_clear", "has_traits_clear", "trait_dealloc",
                "has_traits_dealloc", "PyInit_ctraits", "trait_traverse",
                "has_traits_traverse"}


@rule("C18.replace-order", ["C18"],
      "a struct field is replaced in the order acquire-new, store, "
      "release-old: the old value is never released before the reference "
      "to its replacement is taken (the two can be the same object)")
def replace_order(ctx, res):
    from ..csym import cached_paths
    from .ctables import _owning_setters
    facts = get_cfacts(ctx)
    setters = _owning_setters(facts)
    n_sites = 0
    for fname in facts.defined_functions():
        if fname in REPLACE_SKIP:
            continue
        fn = facts.func(fname)
        # cheap pre-filter: the function stores into a field
        paths = cached_paths(ctx, facts, fname)
        if paths is None:
            continue
        found = {}
        twice = {}
        stores_seen = set()
        params = {q.name for q in facts.params(fname)}
        for p in paths:
            rel = {}        # field text -> index of first release of old value
            inc = {}        # value text -> index of first INCREF
            stores = []
            gone = {}       # field whose content was released and not replaced
            for i, it in enumerate(p.trace):
                if it[0] == "call":
                    _, c, args, full, line, stmt = it
                    if c in DECREF and args and _is_slot(args[0], params):
                        rel.setdefault(args[0], (i, line))
                        if args[0] in gone:
                            k = _norm_key(fname, "field-released-twice",
                                          args[0])
                            twice.setdefault(k, (args[0], gone[args[0]],
                                                 line, p))
                        gone[args[0]] = line
                    elif c in INCREF and args:
                        inc.setdefault(args[0], i)
                    elif c in setters and len(args) == 2 \
                            and args[0].startswith("&"):
                        # helper(&slot, v): INCREF v; slot = v; XDECREF old
                        slot = args[0][1:]
                        inc.setdefault(args[1], i)
                        stores.append((i, slot, args[1], line))
                        if slot in gone:
                            k = _norm_key(fname, "field-released-twice", slot)
                            twice.setdefault(k, (slot, gone[slot], line, p))
                        gone.pop(slot, None)
                elif it[0] == "store":
                    _, lhs, rhs, line = it
                    if _is_slot(lhs, params):
                        stores.append((i, lhs, rhs, line))
                        gone.pop(lhs, None)
            for i, lhs, rhs, line in stores:
                if rhs in ("0", "") or rhs in IMMORTAL:
                    continue
                bc = base_call(rhs)
                fresh = bc is not None and rhs.endswith(")") and (
                    (bc in API and API[bc]["ret"] == "new")
                    or (facts.has_func(bc) and bc not in BORROWED_RETURNS
                        and bc not in facts._lookup_like))
                stores_seen.add((lhs, line))
                r = rel.get(lhs)
                if r is None or r[0] > i or fresh:
                    continue
                j = inc.get(rhs)
                if j is None or j > r[0]:
                    k = _norm_key(fname, "released-before-acquire", lhs)
                    found.setdefault(k, (lhs, rhs, r[1], line, p))
        if stores_seen:
            n_sites += 1
            res.instance(fname, facts.loc(fn), field_stores=len(stores_seen))
            if not found and not twice:
                res.oblige(True, fname, "", "")
        for k, (slot, l1, l2, p) in sorted(twice.items()):
            res.violation(k, f"{CREL}:{l2}",
                          f"{fname}: the content of `{slot}` is released at "
                          f"line {l1} and, without having been replaced, "
                          f"released again at line {l2}: the reference count "
                          f"of a live object drops below the number of "
                          f"references to it (use after free)",
                          [f"{CREL}:{l}" for l in dict.fromkeys(p.lines) if l])
        for k, (lhs, rhs, rl, sl, p) in sorted(found.items()):
            res.violation(k, f"{CREL}:{rl}",
                          f"{fname}: the old value of `{lhs}` is released "
                          f"(line {rl}) before a reference to its "
                          f"replacement `{rhs[:60]}` (stored at line {sl}) "
                          f"is taken: when both are the same object "
                          f"(cloning a trait onto itself, re-assigning the "
                          f"current value) it is freed while still in use",
                          [f"{CREL}:{l}" for l in dict.fromkeys(p.lines) if l])
    from ..csym import flush_paths
    flush_paths(ctx)
    res.floor(15)


# ---------------------------------------------------------------------------
# field-overwrite: the old content of an object-typed field is released (or
# known to be NULL) when the field is overwritten

# no exemptions: `_trait_setstate` used to be listed here (unpickling entry
# point on a fresh object); since D40 it commits the state through the owning
# setter helper like every other writer
OVERWRITE_EXEMPT = {}


def _object_fields(facts):
    out = set()
    for d in facts.decls:
        if d.kind == "RecordDecl":
            fields = [c for c in d.ch if c.kind == "FieldDecl"]
            names = {f.name for f in fields}
            if "py_validate" in names or "ctrait_dict" in names:
                for f in fields:
                    t = (f.type or "")
                    if t.endswith("*") and ("PyObject" in t or "Object" in t):
                        out.add(f.name)
    if len(out) < 10:
        raise AnalysisError(f"object-typed struct fields not found ({out})")
    return out


@rule("C18.field-overwrite", ["C18"],
      "when a method overwrites an object-typed field of an existing CTrait / "
      "HasTraits object, the previous content is released (or is known to "
      "be NULL) on that path: re-applying delegate(), property_fields, "
      "clone(), ... does not leak the values passed earlier")
def field_overwrite(ctx, res):
    from ..csym import cached_paths, flush_paths
    facts = get_cfacts(ctx)
    objf = _object_fields(facts)
    n = 0
    for fname in facts.defined_functions():
        if fname in REPLACE_SKIP:
            continue
        paths = cached_paths(ctx, facts, fname)
        if not paths:
            continue
        params = {p.name for p in facts.params(fname)}
        hits, sites = {}, set()
        for p in paths:
            released, nulls = set(), set()
            for it in p.trace:
                if it[0] == "call" and it[1] in DECREF and it[2]:
                    released.add(it[2][0])
                if it[0] == "atom" and isinstance(it[2], bool):
                    for op, isnull in (("==", True), ("!=", False)):
                        sp = split_cmp(it[1], op)
                        if sp and "0" in sp:
                            other = sp[0] if sp[1] == "0" else sp[1]
                            if (isnull if it[2] else not isnull):
                                nulls.add(other)
                    if not it[2]:
                        nulls.add(it[1])
            assigned = set()
            for it in p.trace:
                if it[0] != "store":
                    continue
                _, lhs, rhs, line = it
                m = re.fullmatch(r"(\w+)->(\w+)", lhs)
                if not m or m.group(1) not in params \
                        or m.group(2) not in objf:
                    continue
                if lhs in assigned:
                    continue
                assigned.add(lhs)
                sites.add(lhs)
                if lhs not in released and lhs not in nulls:
                    hits.setdefault(lhs, (line, rhs, p))
        if not sites:
            continue
        n += 1
        res.instance(fname, facts.loc(facts.func(fname)),
                     fields=sorted(sites))
        if fname in OVERWRITE_EXEMPT:
            res.note(f"{fname}: exempt - {OVERWRITE_EXEMPT[fname]}")
            continue
        if not hits:
            res.oblige(True, fname, "", "")
        for lhs, (line, rhs, p) in sorted(hits.items()):
            res.violation(_norm_key(fname, "overwrite-leak", lhs),
                          f"{CREL}:{line}",
                          f"{fname}: `{lhs}` is overwritten with "
                          f"`{rhs[:50]}` on a path that neither releases its "
                          f"previous content nor knows it to be NULL: the "
                          f"value stored by an earlier call keeps its "
                          f"reference for good",
                          [f"{CREL}:{l}" for l in dict.fromkeys(p.lines) if l])
    flush_paths(ctx)
    res.floor(8)


# ---------------------------------------------------------------------------
# C18.set-item-fresh: PyTuple_SET_ITEM / PyList_SET_ITEM write a slot without
# releasing what it held and without any check: they are only legal on a
# container this function has just created with Py{Tuple,List}_New and not
# yet published.  Anything else (a slice or copy that may be the argument
# itself, a parameter, a field) mutates a shared, possibly hashed object and
# leaks the replaced items.

@rule("C18.set-item-fresh", ["C18", "C01"],
      "PyTuple_SET_ITEM / PyList_SET_ITEM only fill containers created by "
      "Py{Tuple,List}_New on the same path (never an argument, a slice or a "
      "copy, whose slots are occupied and which may be the caller's object)")
def set_item_fresh(ctx, res):
    from ..csym import cached_paths
    facts = get_cfacts(ctx)
    MAKERS = {"PyTuple_SET_ITEM": "PyTuple_New(",
              "PyList_SET_ITEM": "PyList_New("}
    n = 0
    for fname in facts.defined_functions():
        if not any(x.kind == "CallExpr" and callee(x) in MAKERS
                   for x in facts.func(fname).walk()):
            continue
        paths = cached_paths(ctx, facts, fname)
        if paths is None:
            raise AnalysisError(f"{fname}: too many paths")
        sites = {}
        for p in paths:
            for it in p.trace:
                if it[0] == "call" and it[1] in MAKERS:
                    tgt = it[2][0]
                    ok = tgt.startswith(MAKERS[it[1]])
                    cur = sites.get(it[4])
                    if cur is None or (cur[0] and not ok):
                        sites[it[4]] = (ok, it[1], tgt, p)
        for line, (ok, c, tgt, p) in sorted(sites.items()):
            n += 1
            key = f"{fname}:{c}"
            res.instance(key, f"{CREL}:{line}")
            res.oblige(ok, f"{key}:{top_callee(tgt) or tgt[:30]}",
                       f"{CREL}:{line}",
                       f"{fname}: `{c}` fills `{tgt[:60]}`, which is not a "
                       f"container newly created by {MAKERS[c]}...) on this "
                       f"path: its slots are occupied (the old items leak) "
                       f"and it may be the very object the caller passed "
                       f"(an immutable tuple modified in place)",
                       [f"{CREL}:{l}" for l in p.lines[-6:]])
    from ..csym import flush_paths
    flush_paths(ctx)
    res.floor(6)


# ---------------------------------------------------------------------------
# parse-into-locals: argument parsing never writes borrowed references
# straight into owning struct fields

PARSERS = {"PyArg_ParseTuple", "PyArg_ParseTupleAndKeywords", "PyArg_Parse",
           "PyArg_UnpackTuple"}


@rule("C18.parse-into-locals", ["C18", "C14"],
      "PyArg_Parse* stores *borrowed* references, item by item: its object "
      "destinations are locals, never `&obj->field` of a long-lived struct "
      "(a later item that fails to convert would leave the earlier fields "
      "holding references the object does not own, and their previous "
      "content leaked)")
def parse_into_locals(ctx, res):
    from ..cexpr import cnorm, strip
    facts = get_cfacts(ctx)
    n = 0
    for fname in facts.defined_functions():
        for c in facts.func(fname).walk():
            if c.kind != "CallExpr" or callee(c) not in PARSERS:
                continue
            n += 1
            key = f"{fname}:{callee(c)}"
            res.instance(key, facts.loc(c))
            bad = []
            for a in c.ch[1:]:
                a = strip(a)
                if a is None or a.kind != "UnaryOperator" or a.op != "&":
                    continue
                inner = strip(a.ch[0])
                if inner is not None and inner.kind == "MemberExpr" \
                        and inner.arrow and "*" in (inner.type or ""):
                    bad.append(cnorm(inner))
            if not bad:
                res.oblige(True, key, "", "")
            for b in bad:
                res.violation(f"{key}:field-destination:{b}", facts.loc(c),
                              f"{fname}: `{callee(c)}` writes a borrowed "
                              f"reference directly into the owning field "
                              f"`{b}`; if a later item of the format fails "
                              f"to convert the function returns with that "
                              f"field un-owned (deallocation then releases "
                              f"a reference it never took) and its previous "
                              f"content leaked: parse into locals and "
                              f"commit after validation")
    res.floor(15)


# ---------------------------------------------------------------------------
# cached-field-stable: a field whose content some function keeps in a local
# across Python-running calls is never released behind its back

FIELD_OWNER_FUNCS = {"trait_clear", "has_traits_clear", "trait_dealloc",
                     "has_traits_dealloc"}
# Fields that documented setter APIs replace on a live object, although a
# holder keeps their content across callbacks.  The hazard is real in
# principle (a validator that calls set_validate() on its own trait, a
# callback that assigns obj.__dict__): reported by sub-agents as suspicions,
# one of them (obj.__dict__ replaced inside a validator: the value lands in
# the discarded dictionary) confirmed as a lost write but not a crash.  They
# are not armed: the repair (a held reference in every holder) is not small.
REPLACEABLE_FIELDS = {
    "py_validate": "set_validate / property_fields / clone / __setstate__",
    "default_value": "set_default_value / clone / __setstate__",
    "obj_dict": "the __dict__ setters of CHasTraits and CTrait, __setstate__",
}


def _cached_fields(facts, runners):
    """{field: [(function, local, line)]} - object fields loaded into a local
    that is used again after a later call that can run Python code"""
    from ..cexpr import strip, var
    out = {}
    for fname in facts.defined_functions():
        fn = facts.func(fname)
        loads = []      # (line, local, field)
        calls = []      # lines of python-running calls
        uses = {}       # local -> [lines]
        for x in fn.walk():
            name = rhs = None
            if x.kind == "VarDecl" and x.ch:
                name, rhs = x.name, x.ch[-1]
            elif x.kind == "BinaryOperator" and x.op == "=" and var(x.ch[0]):
                name, rhs = var(x.ch[0]), x.ch[1]
            if name and rhs is not None:
                r = strip(rhs)
                if r is not None and r.kind == "MemberExpr" and r.arrow \
                        and "*" in (r.type or "") and "(" not in (r.type or ""):
                    loads.append((x.line or 0, name, r.name))
            if x.kind == "CallExpr":
                c = callee(x)
                if c in INCREF or c in DECREF:
                    continue
                if (c in API and API[c]["python"]) or c.startswith("->") \
                        or c in runners:
                    calls.append(x.line or 0)
            if x.kind == "DeclRefExpr" and x.refkind in ("VarDecl",
                                                         "ParmVarDecl"):
                uses.setdefault(x.ref, []).append(x.line or 0)
        for la, local, field in loads:
            later_calls = [lc for lc in calls if lc > la]
            if not later_calls:
                continue
            # re-loads of the same local end the cached interval
            reloads = [l2 for l2, n2, f2 in loads if n2 == local and l2 > la]
            end = min(reloads) if reloads else 10 ** 9
            if any(lu > min(later_calls) and lu < end
                   for lu in uses.get(local, [])):
                out.setdefault(field, []).append((fname, local, la))
    return out


@rule("C18.cached-field-stable", ["C18"],
      "an object field whose content some C function keeps in a local while "
      "it runs Python code (the notifier lists, the instance dictionary) is "
      "released or replaced only by the owner's tp_clear / dealloc: any "
      "other function that drops it can be reached from those callbacks and "
      "frees the object under the function that still uses it")
def cached_field_stable(ctx, res):
    from ..cexpr import cnorm, strip
    facts = get_cfacts(ctx)
    runners = python_runners(facts)
    cached = _cached_fields(facts, runners)
    if len(cached) < 2:
        raise AnalysisError(f"cached fields: {sorted(cached)}")
    for field, holders in sorted(cached.items()):
        res.instance(f"field:{field}", CREL,
                     cached_by=sorted({h[0] for h in holders}),
                     armed=field not in REPLACEABLE_FIELDS)
    if not (set(cached) - set(REPLACEABLE_FIELDS)):
        raise AnalysisError("no armed cached field left")
    n = 0
    for fname in facts.defined_functions():
        if fname in FIELD_OWNER_FUNCS:
            continue
        fn = facts.func(fname)
        for c in fn.walk():
            if c.kind != "CallExpr":
                continue
            cal = callee(c)
            target = None
            if cal in ("Py_CLEAR", "Py_DECREF", "Py_XDECREF", "Py_SETREF",
                       "Py_XSETREF") and len(c.ch) >= 2:
                a = strip(c.ch[1])
                if a is not None and a.kind == "MemberExpr" and a.arrow:
                    target = a
            elif facts.has_func(cal) and len(c.ch) == 3:
                a = strip(c.ch[1])      # set_value(&X->F, v)
                if a is not None and a.kind == "UnaryOperator" and a.op == "&":
                    inner = strip(a.ch[0])
                    if inner is not None and inner.kind == "MemberExpr" \
                            and inner.arrow:
                        target = inner
            if target is None or target.name not in cached \
                    or target.name in REPLACEABLE_FIELDS:
                continue
            n += 1
            holders = sorted({h[0] for h in cached[target.name]})
            res.violation(f"{fname}:releases-cached-field:{target.name}",
                          facts.loc(c),
                          f"{fname} releases `{cnorm(target)}` "
                          f"(`{cal}`), but {', '.join(holders[:4])} keep the "
                          f"content of ->{target.name} in a local across "
                          f"calls that run Python code: reached from such a "
                          f"callback, this frees (or swaps) the object they "
                          f"go on using")
    # Py_CLEAR is a macro on this build: its expansion stores NULL into the
    # field (and releases the previous content through a temporary)
    from ..cexpr import is_null
    for fname in facts.defined_functions():
        if fname in FIELD_OWNER_FUNCS:
            continue
        for x in facts.func(fname).walk():
            if x.kind == "VarDecl" and x.ch:
                # `PyObject **_tmp_op_ptr = &X->F;` (the Py_CLEAR / Py_SETREF
                # expansion of this CPython): the field is about to be
                # replaced through the pointer
                i0 = strip(x.ch[-1])
                if i0 is not None and i0.kind == "UnaryOperator" \
                        and i0.op == "&":
                    tg = strip(i0.ch[0])
                    if tg is not None and tg.kind == "MemberExpr" and tg.arrow \
                            and tg.name in cached \
                            and tg.name not in REPLACEABLE_FIELDS:
                        n += 1
                        holders = sorted({h[0] for h in cached[tg.name]})
                        res.violation(
                            f"{fname}:releases-cached-field:{tg.name}",
                            facts.loc(x),
                            f"{fname} clears/replaces `{cnorm(tg)}` "
                            f"(Py_CLEAR-style), but {', '.join(holders[:4])} "
                            f"keep the content of ->{tg.name} in a local "
                            f"across calls that run Python code: reached "
                            f"from such a callback (a default-value method, "
                            f"a validator), this frees the list they go on "
                            f"using")
            if x.kind == "BinaryOperator" and x.op == "=":
                lhs = strip(x.ch[0])
                if lhs is not None and lhs.kind == "MemberExpr" and lhs.arrow \
                        and lhs.name in cached \
                        and lhs.name not in REPLACEABLE_FIELDS \
                        and is_null(x.ch[1]):
                    n += 1
                    holders = sorted({h[0] for h in cached[lhs.name]})
                    res.violation(
                        f"{fname}:releases-cached-field:{lhs.name}",
                        facts.loc(x),
                        f"{fname} clears `{cnorm(lhs)}`, but "
                        f"{', '.join(holders[:4])} keep the content of "
                        f"->{lhs.name} in a local across calls that run "
                        f"Python code: reached from such a callback (a "
                        f"default-value method, a validator), this frees "
                        f"the list they go on using")
    if n == 0:
        res.oblige(True, "no-release-outside-owner", "", "")
    res.floor(2)
