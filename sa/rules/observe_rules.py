"""Observation framework rules: C08 (reachability maintenance), C09
(registration discipline)."""
from __future__ import annotations

import ast

from ..core import AnalysisError, rule
from ..pyfacts import (get_pyrepo, is_self_attr, is_self_call, names_in, norm)
from ..pyflow import PyFlow
from .containers import FactFlow

OBS = "traits/observation/"
HTH = OBS + "_has_traits_helpers.py"

ITEM_OBSERVERS = {
    "list": (OBS + "_list_item_observer.py", "ListItemObserver", "TraitList", ""),
    "dict": (OBS + "_dict_item_observer.py", "DictItemObserver", "TraitDict",
             ".values()"),
    "set": (OBS + "_set_item_observer.py", "SetItemObserver", "TraitSet", ""),
}
TRAIT_OBSERVERS = [
    (OBS + "_named_trait_observer.py", "NamedTraitObserver"),
    (OBS + "_filtered_trait_observer.py", "FilteredTraitObserver"),
]
ALL_OBSERVERS = TRAIT_OBSERVERS + [
    (v[0], v[1]) for v in ITEM_OBSERVERS.values()] + [
    (OBS + "_trait_added_observer.py", "TraitAddedObserver"),
    (OBS + "_trait_added_observer.py", "_RestrictedNamedTraitObserver"),
]


def _origin(fn, expr, depth=4):
    """Set of dotted source expressions (e.g. 'event.removed') that ``expr``
    derives from through local assignments and for-loop targets."""
    out = set()
    todo = [expr]
    seen = set()
    for _ in range(depth):
        nxt = []
        for e in todo:
            for n in ast.walk(e):
                if isinstance(n, ast.Attribute):
                    out.add(norm(n))
                if isinstance(n, ast.Name) and n.id not in seen:
                    seen.add(n.id)
                    for s in ast.walk(fn):
                        if isinstance(s, ast.For) and n.id in names_in(s.target):
                            nxt.append(s.iter)
                        if isinstance(s, ast.Assign) and any(
                                n.id in names_in(t) for t in s.targets):
                            nxt.append(s.value)
        todo = nxt
    return out


def _aorn_calls(fn):
    return [n for n in ast.walk(fn) if isinstance(n, ast.Call)
            and norm(n.func).split(".")[-1] == "add_or_remove_notifiers"]


# ---------------------------------------------------------------------------
# C08.polarity

MAINTAINERS = [
    (HTH, "observer_change_handler", {"old": "remove", "new": "add"}, 2),
    (OBS + "_list_item_observer.py", "_observer_change_handler",
     {"removed": "remove", "added": "add"}, 2),
    (OBS + "_dict_item_observer.py", "_observer_change_handler",
     {"removed": "remove", "added": "add"}, 2),
    (OBS + "_set_item_observer.py", "_observer_change_handler",
     {"removed": "remove", "added": "add"}, 2),
]


def _check_forwarding(res, mod, fn, call, key):
    params = [a.arg for a in fn.args.args]
    kws = {k.arg: k.value for k in call.keywords}
    for name in ("handler", "target", "dispatcher"):
        v = kws.get(name)
        ok = isinstance(v, ast.Name) and v.id == name and name in params
        res.oblige(ok, f"{key}:forward:{name}", mod.loc(call),
                   f"`{name}` is not forwarded unchanged to "
                   f"add_or_remove_notifiers (got "
                   f"`{norm(v) if v is not None else None}`): hooks would be "
                   f"registered for a different handler/target/dispatcher "
                   f"than the one being maintained")
    return kws


@rule("C08.polarity", ["C08", "C09", "C12"],
      "maintainers unhook what left (old/removed) and hook what arrived "
      "(new/added), forwarding graph, handler, target and dispatcher")
def polarity(ctx, res):
    repo = get_pyrepo(ctx)
    for rel, qual, sides, floor in MAINTAINERS:
        mod = repo.module(rel)
        fn = repo.inlined(rel, qual)
        ev = fn.args.args[0].arg
        calls = _aorn_calls(fn)
        seen_sides = set()
        for c in calls:
            kws = {k.arg: k.value for k in c.keywords}
            obj = kws.get("object")
            if obj is None:
                raise AnalysisError(f"{rel}:{qual}: add_or_remove_notifiers "
                                    f"without object=")
            org = _origin(fn, obj)
            side = [s for s in sides if f"{ev}.{s}" in org]
            key = f"{rel.split('/')[-1]}:{qual}:{'/'.join(side) or '?'}"
            res.instance(key, mod.loc(c), object=norm(obj))
            if len(side) != 1:
                res.violation(key + ":side", mod.loc(c),
                              f"object=`{norm(obj)}` does not derive from "
                              f"exactly one of {[ev + '.' + s for s in sides]}")
                continue
            seen_sides.add(side[0])
            want = sides[side[0]] == "remove"
            rm = kws.get("remove")
            ok = isinstance(rm, ast.Constant) and rm.value is want
            res.oblige(ok, key + ":remove-flag", mod.loc(c),
                       f"objects from `{ev}.{side[0]}` are passed with "
                       f"remove={norm(rm) if rm is not None else None}; must "
                       f"be remove={want} (handlers would "
                       f"{'stay on detached' if want else 'never reach new'} "
                       f"objects)")
            g = kws.get("graph")
            res.oblige(isinstance(g, ast.Name) and g.id == "graph",
                       key + ":forward:graph", mod.loc(c),
                       "downstream graph is not forwarded unchanged")
            _check_forwarding(res, mod, fn, c, key)
            # the (un)hooking applies to every item: nothing but the loop
            # over the items (and, for trait values, the UNOBSERVABLE filter
            # with its NotifierNotFound tolerance) may stand between the
            # function entry and the call
            par = {}
            for pnode in ast.walk(fn):
                for ch in ast.iter_child_nodes(pnode):
                    par[id(ch)] = pnode
            chain = []
            x = par.get(id(c))
            while x is not None and x is not fn:
                chain.append(x)
                x = par.get(id(x))
            bad = None
            for st in chain:
                if isinstance(st, (ast.Expr, ast.For, ast.keyword)):
                    continue
                if isinstance(st, ast.Try):
                    continue
                if isinstance(st, ast.If) and _is_unobservable_test(
                        mod, st.test):
                    continue
                bad = st
            loops = [st for st in chain if isinstance(st, ast.For)]
            skips = [n2 for l in loops for n2 in ast.walk(l)
                     if isinstance(n2, (ast.Continue, ast.Break, ast.Return))]
            res.oblige(bad is None and not skips, key + ":unconditional",
                       mod.loc(bad or (skips[0] if skips else c)),
                       f"the maintainer (un)hooks `{norm(obj)}` only "
                       f"conditionally ("
                       f"{'`' + norm(bad.test)[:50] + '`' if isinstance(bad, ast.If) else 'continue/break in the loop'}"
                       f"): registrations are counted per occurrence, so "
                       f"skipping an item makes the count drift")
        res.oblige(seen_sides == set(sides),
                   f"{rel.split('/')[-1]}:{qual}:both-sides", mod.loc(fn),
                   f"maintainer handles only {sorted(seen_sides)} of "
                   f"{sorted(sides)}")
    # trait_added: add-only by design (remove_trait fires no event)
    rel = OBS + "_trait_added_observer.py"
    mod = repo.module(rel)
    fn = repo.inlined(rel, "TraitAddedObserver.observer_change_handler")
    calls = _aorn_calls(fn)
    if len(calls) != 1:
        raise AnalysisError("TraitAddedObserver.observer_change_handler: "
                            "expected one add_or_remove_notifiers call")
    c = calls[0]
    kws = {k.arg: k.value for k in c.keywords}
    key = "_trait_added_observer.py:TraitAddedObserver.observer_change_handler"
    res.instance(key, mod.loc(c))
    res.oblige(norm(kws.get("object")) == "event.object"
               and isinstance(kws.get("remove"), ast.Constant)
               and kws["remove"].value is False, key + ":add-only",
               mod.loc(c),
               "trait_added maintainer must hook (remove=False) the object "
               "that gained the trait (event.object)")
    org = _origin(fn, kws.get("graph"))
    res.oblige("event.new" in org and "graph.children" in org,
               key + ":restricted-graph", mod.loc(c),
               "trait_added maintainer must hook a graph restricted to the "
               "added trait name (event.new) with the original children")
    # ... on *every* path: each definition of the graph handed over is the
    # restricted construction (the unrestricted downstream graph would hook
    # the whole pattern again - and re-register this very maintainer - each
    # time a trait is added)
    gv = kws.get("graph")
    defs_g = [gv] if not isinstance(gv, ast.Name) else [
        a.value for a in ast.walk(fn) if isinstance(a, ast.Assign)
        and any(isinstance(t, ast.Name) and t.id == gv.id for t in a.targets)]
    def _restricted(e):
        if not (isinstance(e, ast.Call) and norm(e.func).endswith("ObserverGraph")):
            return False
        kw_ = {k.arg: k.value for k in e.keywords}
        nd = kw_.get("node", e.args[0] if e.args else None)
        return isinstance(nd, ast.Call) and "Restricted" in norm(nd.func) \
            and "event.new" in norm(nd)
    res.oblige(bool(defs_g) and all(_restricted(d) for d in defs_g),
               key + ":restricted-always", mod.loc(c),
               "on some path the trait_added maintainer hooks a graph that "
               "is not restricted to the added name "
               f"({[norm(d)[:40] for d in defs_g if not _restricted(d)][:1]})"
               ": the unrestricted pattern matches again, so a second, equal "
               "maintainer is added every time the event fires and the "
               "registration can no longer be removed exactly")
    _check_forwarding(res, mod, fn, c, key)
    res.floor(9)


# ---------------------------------------------------------------------------
# C08.projection

def _yields(fn):
    out = []
    for n in ast.walk(fn):
        if isinstance(n, ast.YieldFrom):
            out.append(("from", n.value, n))
        elif isinstance(n, ast.Yield) and n.value is not None:
            out.append(("one", n.value, n))
    return out


@rule("C08.projection", ["C08", "C12", "C09"],
      "what an observer hooks at registration (iter_objects) is the same "
      "projection its maintainer applies to added/removed items")
def projection(ctx, res):
    repo = get_pyrepo(ctx)
    for kind, (rel, cname, tname, suffix) in ITEM_OBSERVERS.items():
        mod = repo.module(rel)
        cls = repo.cls(rel, cname)
        io = cls.methods.get("iter_objects")
        iob = cls.methods.get("iter_observables")
        if io is None or iob is None:
            raise AnalysisError(f"{cname}: iter_objects/iter_observables")
        objp = io.args.args[1].arg
        ys = [y for y in _yields(io)]
        key = f"{cname}.iter_objects"
        res.instance(key, mod.loc(io))
        proj = [norm(v) for k, v, n in ys if k == "from"]
        res.oblige(proj == [objp + suffix], key + ":projection", mod.loc(io),
                   f"{cname}.iter_objects yields {proj}; expected the "
                   f"container's {'values' if suffix else 'items'} "
                   f"`{objp + suffix}`")
        ys2 = [norm(v) for k, v, n in _yields(iob) if k == "one"]
        res.oblige(ys2 == [iob.args.args[1].arg],
                   f"{cname}.iter_observables", mod.loc(iob),
                   f"{cname}.iter_observables must yield the container "
                   f"itself, yields {ys2}")
        # type guard agrees with the observer kind
        for m in (io, iob):
            guards = [n for n in ast.walk(m) if isinstance(n, ast.Call)
                      and norm(n.func) == "isinstance"]
            res.oblige(any(norm(g.args[1]) == tname for g in guards),
                       f"{cname}.{m.name}:type-guard", mod.loc(m),
                       f"{cname}.{m.name} does not test isinstance(..., "
                       f"{tname})")
        # maintainer
        fn = repo.inlined(rel, "_observer_change_handler")
        ev = fn.args.args[0].arg
        iters = [norm(n.iter) for n in ast.walk(fn) if isinstance(n, ast.For)]
        res.instance(f"{rel.split('/')[-1]}:_observer_change_handler",
                     mod.loc(fn), iterates=iters)
        for side in ("removed", "added"):
            want = f"{ev}.{side}{suffix}"
            res.oblige(want in iters,
                       f"{cname}:maintainer:{side}", mod.loc(fn),
                       f"maintainer iterates {iters}; registration hooks "
                       f"`{objp + suffix}`, so it must walk `{want}`")
    # the registration walk visits the next objects *with multiplicity*,
    # exactly as iter_objects yields them: the maintainers count per
    # occurrence (an object that is in a list twice is hooked twice), so a
    # walk that visits each distinct object once makes the counts drift
    rel_o = OBS + "_observe.py"
    mod_o = repo.module(rel_o)
    walk = repo.inlined(rel_o, "_AddOrRemoveNotifier._add_or_remove_children_notifiers")
    from ..pyfacts import expand_locals as _xl2
    loops = [l for l in ast.walk(walk) if isinstance(l, ast.For)]
    src = None
    for l in loops:
        it = _xl2(walk, l.iter)
        if "iter_objects(" in norm(it):
            src = (l, it)
    res.instance("_add_or_remove_children_notifiers", mod_o.loc(walk),
                 iterates=norm(src[1])[:80] if src else None)
    ok = src is not None and isinstance(src[1], ast.Call) \
        and norm(src[1].func).endswith(".iter_objects")
    res.oblige(ok, "_observe.py:children-walk:multiplicity",
               mod_o.loc(src[0]) if src else mod_o.loc(walk),
               f"the registration walk iterates "
               f"`{norm(src[1])[:70] if src else '?'}` instead of the objects "
               f"iter_objects() yields one by one: duplicates are collapsed "
               f"(or the walk is skipped), while the item maintainers hook "
               f"and unhook per occurrence - removing one of two occurrences "
               f"then drops the only hook of an object that is still "
               f"reachable")
    # trait observers: UNOBSERVABLE filter at hook-up and in the maintainer
    mod = repo.module(HTH)
    fn = repo.inlined(HTH, "iter_objects")
    res.instance("iter_objects", mod.loc(fn))
    res.oblige(("UNOBSERVABLE_VALUES" in names_in(fn)
                or any(_is_unobservable_test(mod, n.test)
                       for n in ast.walk(fn) if isinstance(n, ast.If)))
               and any("__dict__" in norm(n) for n in ast.walk(fn)
                       if isinstance(n, ast.Attribute)),
               "iter_objects:filter", mod.loc(fn),
               "iter_objects must read the instance __dict__ (no default "
               "materialisation) and skip UNOBSERVABLE_VALUES")
    och = repo.inlined(HTH, "observer_change_handler")
    ev = och.args.args[0].arg
    for side in ("old", "new"):
        guards = [n for n in ast.walk(och) if isinstance(n, ast.If)
                  and f"{ev}.{side}" in norm(_xl2(och, n.test))
                  and _is_unobservable_test(mod, n.test)]
        ok = False
        for gd in guards:
            for c in _aorn_calls(gd):
                kws = {k.arg: k.value for k in c.keywords}
                if norm(_xl2(och, kws.get("object"))) == f"{ev}.{side}":
                    ok = True
            # guard-clause form: `if not <filter>(event.side): return`
            # followed, in the same block, by the (un)hooking call
            if not ok and gd.body and isinstance(gd.body[-1], ast.Return) \
                    and not gd.orelse:
                for blk in [b for n in ast.walk(och) for b in (
                        getattr(n, "body", None), getattr(n, "orelse", None))
                        if isinstance(b, list) and gd in b]:
                    for later in blk[blk.index(gd) + 1:]:
                        for c in _aorn_calls(later):
                            kws = {k.arg: k.value for k in c.keywords}
                            if norm(_xl2(och, kws.get("object"))) == \
                                    f"{ev}.{side}":
                                ok = True
        res.oblige(ok, f"observer_change_handler:guard:{side}", mod.loc(och),
                   f"the {side} value is (un)hooked without the "
                   f"UNOBSERVABLE_VALUES guard applied at registration")
    res.floor(7)


def _is_unobservable_test(mod, test):
    """the test applies the UNOBSERVABLE_VALUES filter: inline, or through a
    one-argument module-level predicate whose body consults that table"""
    if "UNOBSERVABLE_VALUES" in norm(test):
        return True
    for c in ast.walk(test):
        if isinstance(c, ast.Call) and isinstance(c.func, ast.Name) \
                and c.func.id in mod.functions and len(c.args) == 1:
            f = mod.functions[c.func.id]
            if "UNOBSERVABLE_VALUES" in names_in(f) and all(
                    r.value is not None for r in ast.walk(f)
                    if isinstance(r, ast.Return)):
                return True
    return False


# ---------------------------------------------------------------------------
# C08.instance-trait

@rule("C08.instance-trait", ["C08", "C10"],
      "observers hook the *instance* trait (object._trait(name, 2)), never "
      "the class-level trait shared by all instances")
def instance_trait(ctx, res):
    repo = get_pyrepo(ctx)
    n = 0
    for rel, cname in ALL_OBSERVERS:
        mod = repo.module(rel)
        cls = repo.cls(rel, cname)
        fn = cls.methods.get("iter_observables")
        if fn is None:
            continue
        for k, v0, node in _yields(fn):
            for v in ast.walk(v0):
                if not (isinstance(v, ast.Call)
                        and isinstance(v.func, ast.Attribute)
                        and v.func.attr in ("_trait", "trait", "base_trait")):
                    continue
                n += 1
                key = f"{cname}.iter_observables"
                res.instance(key, mod.loc(node), expr=norm(v))
                ok = (v.func.attr == "_trait" and len(v.args) == 2
                      and isinstance(v.args[1], ast.Constant)
                      and v.args[1].value == 2)
                res.oblige(ok, key + ":instance-mode", mod.loc(node),
                           f"`{norm(v)}` does not request the instance trait "
                           f"(mode 2): the notifier would be attached to the "
                           f"trait shared by every instance of the class")
    # legacy on_trait_change: add with instance trait, remove with lookup
    rel = "traits/has_traits.py"
    mod = repo.module(rel)
    fn = repo.inlined(rel, "HasTraits._on_trait_change")
    calls = [c for c in ast.walk(fn) if isinstance(c, ast.Call)
             and is_self_call(c, "_trait")]
    modes = sorted(norm(c.args[1]) for c in calls if len(c.args) == 2)
    res.instance("HasTraits._on_trait_change", mod.loc(fn), modes=modes)
    res.oblige("2" in modes, "HasTraits._on_trait_change:add-mode",
               mod.loc(fn),
               f"_on_trait_change obtains traits with modes {modes}; adding a "
               f"handler must use the instance trait (mode 2)")
    res.floor(5)


# ---------------------------------------------------------------------------
# C08.notify-gate

class CallSiteFlow(FactFlow):
    def __init__(self, module, func, qual, pred):
        super().__init__(module, func, qual)
        self.pred = pred
        self.sites = []

    def classify(self, e, node):
        if isinstance(e, ast.Call) and self.pred(e):
            return [("C", False)]
        return []

    def step(self, state, ev, e, node):
        self.sites.append((e, state, node.id))
        return state


@rule("C08.notify-gate", ["C08", "C15"],
      "user notifiers are attached only when the graph node's notify flag is "
      "true; maintainers are attached regardless")
def notify_gate(ctx, res):
    repo = get_pyrepo(ctx)
    rel = OBS + "_observe.py"
    mod = repo.module(rel)
    fn = repo.inlined(rel, "_AddOrRemoveNotifier._add_or_remove_notifiers")

    def is_effect(e):
        return isinstance(e.func, ast.Attribute) and e.func.attr in (
            "add_to", "remove_from")
    fl = CallSiteFlow(mod, fn, "_add_or_remove_notifiers", is_effect)
    fl.run(frozenset())
    res.instance("_AddOrRemoveNotifier._add_or_remove_notifiers", mod.loc(fn),
                 effect_sites=len(fl.sites))
    if not fl.sites:
        raise AnalysisError("_add_or_remove_notifiers: no add_to/remove_from")
    for e, facts, nid in fl.sites:
        ok = ("T", "self.graph.node.notify") in facts
        res.oblige(ok, "_add_or_remove_notifiers:gate", mod.loc(e),
                   f"`{norm(e)}` is reachable without self.graph.node.notify "
                   f"being true: ':' links would notify",
                   fl.witness_lines(nid, facts))
    # the notifier comes from get_notifier, the maintainer from get_maintainer
    srcs = [norm(n.value.func) for n in ast.walk(fn)
            if isinstance(n, ast.Assign) and isinstance(n.value, ast.Call)]
    res.oblige("self.graph.node.get_notifier" in srcs,
               "_add_or_remove_notifiers:source", mod.loc(fn),
               "user notifier is not obtained from node.get_notifier")
    fm = repo.inlined(rel, "_AddOrRemoveNotifier._add_or_remove_maintainers")
    fl2 = CallSiteFlow(mod, fm, "_add_or_remove_maintainers", is_effect)
    fl2.run(frozenset())
    res.instance("_AddOrRemoveNotifier._add_or_remove_maintainers",
                 mod.loc(fm), effect_sites=len(fl2.sites))
    for e, facts, nid in fl2.sites:
        gated = [f for f in facts if "notify" in f[1]]
        res.oblige(not gated, "_add_or_remove_maintainers:ungated",
                   mod.loc(e),
                   f"maintainers are gated by {gated}: quiet links would not "
                   f"be maintained")
    srcs = [norm(n.value.func) for n in ast.walk(fm)
            if isinstance(n, ast.Assign) and isinstance(n.value, ast.Call)]
    res.oblige("self.graph.node.get_maintainer" in srcs,
               "_add_or_remove_maintainers:source", mod.loc(fm),
               "maintainer is not obtained from node.get_maintainer")
    res.floor(2)


# ---------------------------------------------------------------------------
# C08.interface

@rule("C08.interface", ["C08"],
      "every observer implements the IObserver interface; user notifiers of "
      "trait observers filter with ctrait_prevent_event, maintainers let "
      "every event through")
def interface(ctx, res):
    repo = get_pyrepo(ctx)
    iface = repo.cls(OBS + "_i_observer.py", "IObserver")
    members = [m for m in iface.methods]
    if len(members) < 8:
        raise AnalysisError(f"IObserver members: {members}")
    for rel, cname in ALL_OBSERVERS:
        mod = repo.module(rel)
        cls = repo.cls(rel, cname)
        have = set(cls.methods) | set(cls.attrs)
        slots = cls.attrs.get("__slots__")
        if slots is not None:
            have |= {e.value for e in ast.walk(slots)
                     if isinstance(e, ast.Constant)}
        init = cls.methods.get("__init__")
        if init is not None:
            have |= {n.attr for n in ast.walk(init)
                     if isinstance(n, ast.Attribute)
                     and isinstance(n.ctx, ast.Store)
                     and isinstance(n.value, ast.Name)
                     and n.value.id == "self"}
        res.instance(cname, mod.loc(cls.node), members=len(members))
        for m in members:
            if m == "get_notifier" and cname == "TraitAddedObserver":
                # accepted idiom: notify is the constant False, so the
                # framework never asks for a user notifier
                nf = cls.methods.get("notify")
                rets = [n for n in ast.walk(nf) if isinstance(n, ast.Return)] \
                    if nf else []
                res.oblige(bool(rets) and all(
                    isinstance(r.value, ast.Constant) and r.value.value is False
                    for r in rets), f"{cname}.notify:const-false",
                    mod.loc(cls.node),
                    "TraitAddedObserver lacks get_notifier, so its notify "
                    "must be the constant False")
                continue
            res.oblige(m in have, f"{cname}.{m}", mod.loc(cls.node),
                       f"{cname} does not implement IObserver.{m}")
        # prevent_event table
        for meth, want_trait, want_item in (
                ("get_notifier", "ctrait_prevent_event", "lambda event: False"),
                ("get_maintainer", "lambda event: False", "lambda event: False")):
            fn = cls.methods.get(meth)
            if fn is None or cname in ("TraitAddedObserver",
                                       "_RestrictedNamedTraitObserver"):
                continue
            kw = [k.value for c in ast.walk(fn) if isinstance(c, ast.Call)
                  for k in c.keywords if k.arg == "prevent_event"]
            is_trait = (rel, cname) in TRAIT_OBSERVERS
            want = want_trait if is_trait else want_item
            res.oblige(len(kw) == 1 and norm(kw[0]) == want,
                       f"{cname}.{meth}:prevent_event", mod.loc(fn),
                       f"{cname}.{meth} passes prevent_event="
                       f"{[norm(k) for k in kw]}; expected `{want}`")
    res.floor(7)


# ---------------------------------------------------------------------------
# C09.undo-complete

class UndoFlow(PyFlow):
    """state = pending effect key (or None)"""

    def __init__(self, module, func, qual):
        super().__init__(module, func, qual)
        self.effects = 0
        self.delegated = []

    def classify(self, e, node):
        if isinstance(e, ast.Call) and isinstance(e.func, ast.Attribute):
            if e.func.attr in ("add_to", "remove_from") and len(e.args) == 1:
                return [("EFFECT", True)]
            if norm(e.func) == "self._processed.append":
                return [("LOG", False)]
            if norm(e.func) == "self._processed.extend":
                return [("LOGX", False)]
        if isinstance(e, ast.Call):
            f = norm(e.func)
            if f.split(".")[-1] == "add_or_remove_notifiers":
                return [("DELEGATE-FN", True)]
            if f == "_AddOrRemoveNotifier":
                return [("NESTED-NEW", False)]
        if isinstance(e, ast.Call) and isinstance(e.func, ast.Name):
            return [("CALLNAME", True)]
        return []

    def step(self, st, ev, e, node):
        pending, nested = st
        if ev == "EFFECT":
            self.effects += 1
            if pending is not None:
                self.flag(("unlogged", pending),
                          f"`{pending}` can have taken effect when "
                          f"`{norm(e)}` raises, but it is not yet recorded in "
                          f"self._processed")
            return (f"{norm(e.func.value)}|{norm(e.args[0])}", nested)
        if ev == "LOG":
            a = e.args[0] if e.args else None
            if pending is not None and isinstance(a, ast.Tuple) \
                    and "|".join(norm(x) for x in a.elts) == pending:
                return (None, nested)
            if pending is not None:
                self.flag(("mislogged", pending),
                          f"logged `{norm(a) if a else ''}` does not match "
                          f"the effect `{pending}`")
            return (None, nested)
        if ev == "DELEGATE-FN":
            self.delegated.append(e)
            self.flag(("delegated-unlogged", "add_or_remove_notifiers"),
                      "a completed recursive add_or_remove_notifiers(...) "
                      "call has committed notifier changes that this frame "
                      "neither records nor can undo when a later step raises")
            return st
        if ev == "NESTED-NEW":
            return (pending, "new")
        if ev == "CALLNAME":
            # calling the nested instance: effects are now pending in it
            if nested == "new":
                return (pending, "called")
            return st
        if ev == "LOGX":
            a = e.args[0] if e.args else None
            if nested == "called" and a is not None \
                    and norm(a).endswith("._processed"):
                return (pending, None)
            return st
        return st

    def on_exit(self, node, st):
        pending, nested = st
        if node.kind == "exit":
            if pending is not None:
                self.flag(("unlogged-at-exit", pending),
                          f"`{pending}` is never recorded in self._processed")
            if nested == "called":
                self.flag(("delegated-unlogged", "nested"),
                          "effects of a nested _AddOrRemoveNotifier call are "
                          "not merged into self._processed")

    def transfer(self, node, state):
        outs = super().transfer(node, state)
        # looping back with a nested call that was not merged
        if node.kind == "fornext":
            pending, nested = state
            if nested == "called":
                self._cur = (node.id, state)
                self.flag(("delegated-unlogged", "nested"),
                          "effects of a nested _AddOrRemoveNotifier call are "
                          "not merged into self._processed before the next "
                          "iteration")
                outs = [(lab, (pending, None)) for lab, _ in outs]
        return outs


@rule("C09.undo-complete", ["C09", "C19"],
      "every notifier change made while registering is recorded so that a "
      "failure later in the walk undoes it (failure atomicity of observe)")
def undo_complete(ctx, res):
    repo = get_pyrepo(ctx)
    rel = OBS + "_observe.py"
    mod = repo.module(rel)
    cls = repo.cls(rel, "_AddOrRemoveNotifier")
    if cls.methods.get("__call__") is None:
        raise AnalysisError("_AddOrRemoveNotifier.__call__ missing")
    # private helpers extracted from these methods are analysed in place
    from ..pyfacts import _inlinable
    call = repo.inlined(rel, "_AddOrRemoveNotifier.__call__")
    # steps executed inside the try
    steps = sorted({n.attr for n in ast.walk(call)
                    if isinstance(n, ast.Attribute)
                    and is_self_attr(n) and n.attr in cls.methods
                    and n.attr.startswith("_add_or_remove")})
    if len(steps) < 4:
        raise AnalysisError(f"steps of _AddOrRemoveNotifier: {steps}")
    helper_methods = [m for m in cls.methods
                      if m not in ("__init__", "__call__")
                      and (m in steps or not _inlinable(cls.methods[m]))]
    for m in helper_methods:
        fn = repo.inlined(rel, f"_AddOrRemoveNotifier.{m}")
        fl = UndoFlow(mod, fn, f"_AddOrRemoveNotifier.{m}")
        fl.run((None, None))
        res.instance(f"_AddOrRemoveNotifier.{m}", mod.loc(fn),
                     direct_effects=fl.effects, delegated=len(fl.delegated))
        hits = fl.findings()
        for k, msg, loc, path in hits:
            res.violation(f"_observe.py:_AddOrRemoveNotifier.{m}:{k[0]}",
                          loc, msg, path)
        if not hits:
            res.oblige(True, m, "", "")
    # who may shrink the undo log: only the undo loop pops entries; a
    # completed (nested) registration keeps its record so that the parent
    # can merge it - clearing it "when done" leaves the parent with nothing
    # to undo for that sub-tree
    shrink = []
    for m, fn_ in cls.methods.items():
        if fn_ is None:
            continue
        for x in ast.walk(fn_):
            if isinstance(x, ast.Call) and isinstance(x.func, ast.Attribute) \
                    and x.func.attr in ("clear", "remove", "__delitem__") \
                    and norm(x.func.value).endswith("._processed"):
                shrink.append((m, x))
            if isinstance(x, ast.Delete) and any(
                    "._processed" in norm(t) for t in x.targets):
                shrink.append((m, x))
            if isinstance(x, ast.Assign) and m != "__init__" and any(
                    norm(t).endswith("._processed") for t in x.targets):
                shrink.append((m, x))
    res.instance("_AddOrRemoveNotifier:undo-log-writers", mod.loc(cls.node),
                 shrinking_sites=len(shrink))
    res.oblige(not shrink, "_observe.py:_AddOrRemoveNotifier:undo-log-cleared",
               mod.loc(shrink[0][1]) if shrink else mod.loc(cls.node),
               f"`{norm(shrink[0][1])[:50] if shrink else ''}` in "
               f"{shrink[0][0] if shrink else ''} drops entries of the undo "
               f"log outside the undo loop: a nested registration that has "
               f"completed hands an empty record to its parent, so a later "
               f"failure of the same observe() call leaves its notifiers "
               f"attached")
    # the undo itself
    from ..pyfacts import expand_locals as _xl
    call_i = repo.inlined(rel, "_AddOrRemoveNotifier.__call__")

    def _n(e):
        return norm(_xl(call_i, e))
    tries = [t for t in ast.walk(call_i) if isinstance(t, ast.Try)]
    ok_handler = False
    for t in tries:
        for h in t.handlers:
            if h.type is not None and norm(h.type) not in (
                    "Exception", "BaseException"):
                continue
            pops = [n for n in ast.walk(h) if isinstance(n, ast.Call)
                    and _n(n.func) == "self._processed.pop" and not n.args]
            adds = [n for n in ast.walk(h) if isinstance(n, ast.Call)
                    and isinstance(n.func, ast.Attribute)
                    and n.func.attr in ("add_to", "remove_from")]
            # inverse chosen by self.remove with opposite polarity
            inverse = False
            for i in ast.walk(h):
                if isinstance(i, ast.If) and _n(i.test) == "self.remove":
                    b = [n.func.attr for n in ast.walk(ast.Module(i.body, []))
                         if isinstance(n, ast.Call)
                         and isinstance(n.func, ast.Attribute)
                         and n.func.attr in ("add_to", "remove_from")]
                    o = [n.func.attr for n in ast.walk(ast.Module(i.orelse, []))
                         if isinstance(n, ast.Call)
                         and isinstance(n.func, ast.Attribute)
                         and n.func.attr in ("add_to", "remove_from")]
                    inverse = b == ["add_to"] and o == ["remove_from"]
            reraise = bool(h.body) and isinstance(h.body[-1], ast.Raise) \
                and h.body[-1].exc is None
            ok_handler = bool(pops) and len(adds) == 2 and inverse and reraise
    res.instance("_AddOrRemoveNotifier.__call__:undo", mod.loc(call))
    res.oblige(ok_handler, "_observe.py:_AddOrRemoveNotifier.__call__:undo",
               mod.loc(call),
               "the except clause must pop self._processed LIFO, apply the "
               "inverse operation selected by self.remove (add_to when "
               "removing, remove_from when adding) and re-raise")
    # the multi-graph loop in observe.apply_observers
    rel2 = OBS + "observe.py"
    mod2 = repo.module(rel2)
    fn = repo.inlined(rel2, "apply_observers")
    loops = [l for l in ast.walk(fn) if isinstance(l, ast.For)
             and _aorn_calls(l)]
    res.instance("apply_observers", mod2.loc(fn), loops=len(loops))
    for l in loops:
        t = None
        for tr in ast.walk(fn):
            if isinstance(tr, ast.Try) and any(
                    n is l for s in tr.body for n in ast.walk(s)):
                t = tr
        ok = False
        if t is not None:
            for h in t.handlers:
                if h.type is not None and norm(h.type) not in (
                        "Exception", "BaseException"):
                    continue
                undo = [c for c in _aorn_calls(h)
                        if any(k.arg == "remove" and norm(_xl(fn, k.value)) in (
                            "not remove",) for k in c.keywords)]
                reraise = bool(h.body) and isinstance(h.body[-1], ast.Raise) \
                    and h.body[-1].exc is None
                ok = bool(undo) and reraise
        res.oblige(ok, "observe.py:apply_observers:loop-undo", mod2.loc(l),
                   "graphs already applied are not undone when a later graph "
                   "of the same observe() call fails (the handler stays "
                   "attached for the earlier graphs)")
    res.floor(6)


# ---------------------------------------------------------------------------
# C09.symmetry

class RefCountFlow(PyFlow):
    """state = tuple of events seen on the path"""

    def classify(self, e, node):
        if isinstance(e, ast.AugAssign) and isinstance(e.target, ast.Attribute) \
                and e.target.attr == "_ref_count":
            return [("INC" if isinstance(e.op, ast.Add) else "DEC", False)]
        if isinstance(e, ast.Call) and isinstance(e.func, ast.Attribute):
            if e.func.attr == "append" and norm(e.func.value) == "notifiers":
                return [("APPEND", False)]
            if e.func.attr == "remove" and norm(e.func.value) == "notifiers":
                return [("REMOVE", False)]
        if isinstance(e, ast.Raise):
            return [("RAISE:" + (norm(e.exc.func) if isinstance(e.exc, ast.Call)
                                 else norm(e.exc) if e.exc else ""), False)]
        return []

    def step(self, st, ev, e, node):
        who = ""
        if ev in ("INC", "DEC"):
            who = ":" + norm(e.target.value)
        if ev in ("APPEND", "REMOVE"):
            who = ":" + norm(e.args[0])
        evs, facts = st
        if evs.count(ev + who) >= 2:
            return st           # loops: two occurrences already say "many"
        return (evs + (ev + who,), facts)

    def assume(self, test, truth, st):
        evs, facts = st
        return (evs, facts | {("T" if truth else "F", norm(test))})

    def transfer(self, node, state):
        if node.kind == "fornext":
            # distinguish "loop exhausted" (for-else) from the match path
            evs, facts = state
            return [("T", (evs, facts | {("IN", "loop")})),
                    ("F", (evs, facts | {("EXHAUSTED", "loop")}))]
        return super().transfer(node, state)


@rule("C09.symmetry", ["C09"],
      "add_to/remove_from: one count step per call on the matching notifier, "
      "attach iff absent, detach iff the count was one, NotifierNotFound "
      "when absent")
def symmetry(ctx, res):
    repo = get_pyrepo(ctx)
    rel = OBS + "_trait_event_notifier.py"
    mod = repo.module(rel)
    cls = repo.cls(rel, "TraitEventNotifier")
    for meth in ("add_to", "remove_from"):
        fn = cls.methods.get(meth)
        if fn is None:
            raise AnalysisError(f"TraitEventNotifier.{meth} missing")
        fl = RefCountFlow(mod, fn, f"TraitEventNotifier.{meth}")
        fl.run(((), frozenset()))
        g = fl.cfg
        exits = fl.states[g.exit.id]
        raises = fl.states[g.raise_exit.id]
        res.instance(f"TraitEventNotifier.{meth}", mod.loc(fn),
                     normal_paths=len(exits), raising_paths=len(raises))
        key = f"TraitEventNotifier.{meth}"
        uses_equals = any(is_self_call(n, "equals") for n in ast.walk(fn))
        if not uses_equals:
            # ... or through a private search helper of the class
            for n in ast.walk(fn):
                if isinstance(n, ast.Call) and isinstance(n.func,
                                                          ast.Attribute) \
                        and is_self_attr(n.func) \
                        and n.func.attr in cls.methods \
                        and n.func.attr.startswith("_"):
                    uses_equals = uses_equals or any(
                        is_self_call(x, "equals")
                        for x in ast.walk(cls.methods[n.func.attr]))
        res.oblige(uses_equals, key + ":equals", mod.loc(fn),
                   f"{meth} does not search with self.equals")
        for evs, facts in exits:
            evs_l = [e for e in evs]
            if meth == "add_to":
                incs = [e for e in evs_l if e.startswith("INC")]
                res.oblige(len(incs) == 1, key + ":one-inc", mod.loc(fn),
                           f"a normal path of add_to performs {len(incs)} "
                           f"reference-count increments ({evs_l}); n adds "
                           f"must be matched by n removes")
                matched = any(e.startswith("INC:") and e != "INC:self"
                              for e in evs_l)
                if matched:
                    res.oblige(not any(
                        e.startswith("APPEND") for e in evs_l),
                        key + ":match", mod.loc(fn),
                        f"when an equal notifier exists add_to must bump its "
                        f"count and not append again ({evs_l})")
                else:
                    res.oblige(evs_l == ["APPEND:self", "INC:self"],
                               key + ":absent", mod.loc(fn),
                               f"when no equal notifier exists add_to must "
                               f"append self once and count it ({evs_l})")
            else:
                decs = [e for e in evs_l if e.startswith("DEC")]
                who = decs[0][4:] if decs else "?"
                res.oblige(len(decs) == 1 and who != "self",
                           key + ":one-dec", mod.loc(fn),
                           f"a normal path of remove_from must decrement the "
                           f"matching notifier exactly once ({evs_l})")
                if len(decs) != 1:
                    continue
                was_one = ("T", f"{who}._ref_count == 1") in facts
                removed = [e for e in evs_l if e.startswith("REMOVE")]
                res.oblige((removed == [f"REMOVE:{who}"]) == was_one
                           and (not removed or evs_l.index(removed[0])
                                < evs_l.index(decs[0])),
                           key + ":detach-iff-last", mod.loc(fn),
                           f"the notifier must be detached exactly when its "
                           f"count is 1 before the decrement (path {evs_l}, "
                           f"count==1 is {was_one})")
        if meth == "remove_from":
            nf = [s for s in raises
                  if any(e.startswith("RAISE:NotifierNotFound") for e in s[0])]
            res.oblige(bool(nf) and all(
                not any(e.startswith(("DEC", "REMOVE")) for e in s[0])
                for s in nf), key + ":not-found", mod.loc(fn),
                "remove_from must raise NotifierNotFound, having changed "
                "nothing, when no equal notifier is present")
    # ObserverChangeNotifier
    rel = OBS + "_observer_change_notifier.py"
    mod = repo.module(rel)
    cls = repo.cls(rel, "ObserverChangeNotifier")
    for meth in ("add_to", "remove_from"):
        fn = cls.methods.get(meth)
        if fn is None:
            raise AnalysisError(f"ObserverChangeNotifier.{meth} missing")
        fl = RefCountFlow(mod, fn, f"ObserverChangeNotifier.{meth}")
        fl.run(((), frozenset()))
        g = fl.cfg
        key = f"ObserverChangeNotifier.{meth}"
        res.instance(key, mod.loc(fn))
        for evs, facts in fl.states[g.exit.id]:
            if meth == "add_to":
                res.oblige(list(evs) == ["APPEND:self"], key, mod.loc(fn),
                           f"add_to must append self exactly once ({evs})")
            else:
                res.oblige(list(evs) == ["REMOVE:notifier"]
                           and ("T", "self.equals(notifier)") in facts,
                           key, mod.loc(fn),
                           f"remove_from must remove exactly one equal "
                           f"notifier ({evs})")
        if meth == "remove_from":
            nf = [s for s in fl.states[g.raise_exit.id]
                  if any(e.startswith("RAISE:NotifierNotFound") for e in s[0])]
            res.oblige(bool(nf), key + ":not-found", mod.loc(fn),
                       "remove_from must raise NotifierNotFound when absent")
    res.floor(4)


# ---------------------------------------------------------------------------
# C09.weak

@rule("C09.weak", ["C09", "C20"],
      "notifiers hold the observed target and a bound-method handler's owner "
      "only through weak references")
def weak(ctx, res):
    repo = get_pyrepo(ctx)
    specs = [
        (OBS + "_trait_event_notifier.py", "TraitEventNotifier.__init__"),
        (OBS + "_observer_change_notifier.py",
         "ObserverChangeNotifier.__init__"),
    ]
    for rel, qual in specs:
        mod = repo.module(rel)
        fn = repo.inlined(rel, qual)

        class F(FactFlow):
            def __init__(s, *a):
                super().__init__(*a)
                s.stores = []

            def classify(s, e, node):
                if isinstance(e, ast.Assign) and any(
                        is_self_attr(t) for t in e.targets):
                    return [("S", False)]
                return []

            def step(s, st, ev, e, node):
                s.stores.append((e, st))
                return st
        fl = F(mod, fn, qual)
        fl.run(frozenset())
        res.instance(qual, mod.loc(fn), stores=len(fl.stores))
        saw_target = saw_method = False
        for e, facts in fl.stores:
            names = names_in(e.value)
            v = norm(e.value)
            if "target" in names:
                saw_target = True
                res.oblige(v == "weakref.ref(target)", qual + ":target",
                           mod.loc(e),
                           f"`{norm(e)}` keeps a strong reference to the "
                           f"target: registrations would keep the observed "
                           f"object alive")
            if "handler" in names:
                is_method = ("T", "isinstance(handler, types.MethodType)") \
                    in facts
                if is_method:
                    saw_method = True
                    res.oblige(v == "weakref.WeakMethod(handler)",
                               qual + ":method-handler", mod.loc(e),
                               f"`{norm(e)}` keeps a bound method strongly: "
                               f"the handler's owner could never be "
                               f"collected")
        res.oblige(saw_target and saw_method, qual + ":sites", mod.loc(fn),
                   "target / bound-method storage sites not found")
    # the handlers that the class-level machinery itself registers for every
    # instance (Property(observe=...)): the notifier weakens a handler only
    # when it is a bound method, so the per-instance handler must be one - a
    # closure over the instance would be held strongly by every observed
    # object and keep the owner alive
    HTP = "traits/has_traits.py"
    mod_ht = repo.module(HTP)
    fac = repo.func(HTP, "_create_property_observe_state")
    getters = [f for f in ast.walk(fac) if isinstance(f, ast.FunctionDef)
               and f is not fac and any(
                   isinstance(r, ast.Return) and r.value is not None
                   and not isinstance(r.value, ast.Constant)
                   for r in ast.walk(f))
               and len(f.args.args) == 2]
    if not getters:
        raise AnalysisError("_create_property_observe_state: handler getter "
                            "not found")
    for gfn in getters:
        inst_p = gfn.args.args[0].arg
        rets = [r for r in ast.walk(gfn) if isinstance(r, ast.Return)]
        res.instance(f"_create_property_observe_state.{gfn.name}",
                     mod_ht.loc(gfn), returns=len(rets))
        for r in rets:
            v = r.value
            ok = isinstance(v, ast.Call) and norm(v.func) in (
                "types.MethodType", "MethodType") and len(v.args) == 2 \
                and norm(v.args[1]) == inst_p
            ok = ok or (isinstance(v, ast.Call) and norm(v.func) == "getattr"
                        and v.args and norm(v.args[0]) == inst_p)
            res.oblige(ok, f"property-observer:{gfn.name}:bound-method",
                       mod_ht.loc(r),
                       f"the per-instance handler of an observed property is "
                       f"`{norm(v)[:60] if v is not None else None}`, not a "
                       f"method bound to `{inst_p}`: the notifiers keep "
                       f"anything but a bound method strongly, so every "
                       f"object on the observed path would keep the owner "
                       f"alive (and its handler firing)")
    # legacy wrapper
    rel = "traits/trait_notifiers.py"
    mod = repo.module(rel)
    fn = repo.inlined(rel, "TraitChangeNotifyWrapper.init")
    res.instance("TraitChangeNotifyWrapper.init", mod.loc(fn))
    # in the bound-method branch nothing derived from the method or its owner
    # is stored except weakref.ref(owner) and the method *name*
    for n in ast.walk(fn):
        if isinstance(n, ast.If) and norm(n.test) == "type(handler) is MethodType":
            for s in ast.walk(ast.Module(n.body, [])):
                if isinstance(s, ast.Assign) and any(is_self_attr(t)
                                                     for t in s.targets):
                    v = norm(s.value)
                    names = names_in(s.value)
                    if "object" in names:
                        res.oblige(v.startswith("weakref.ref(object"),
                                   "TraitChangeNotifyWrapper.init:owner",
                                   mod.loc(s),
                                   f"`{norm(s)}` stores the method owner "
                                   f"strongly")
                    if "handler" in names or "func" in names:
                        res.oblige(v in ("handler.__name__", "func.__name__"),
                                   "TraitChangeNotifyWrapper.init:method",
                                   mod.loc(s),
                                   f"`{norm(s)}` stores the bound method or "
                                   f"its function in the method branch")
    res.floor(3)


# ---------------------------------------------------------------------------
# C09.identity

IDENTITY_FILES = [
    OBS + "_named_trait_observer.py", OBS + "_list_item_observer.py",
    OBS + "_dict_item_observer.py", OBS + "_set_item_observer.py",
    OBS + "_filtered_trait_observer.py", OBS + "_trait_added_observer.py",
    OBS + "_observer_graph.py", OBS + "_metadata_filter.py",
    OBS + "_anytrait_filter.py", OBS + "expression.py",
]


def _self_fields(fn, selfn="self"):
    return {n.attr for n in ast.walk(fn) if isinstance(n, ast.Attribute)
            and isinstance(n.value, ast.Name) and n.value.id == selfn
            and not n.attr.startswith("__")}


@rule("C09.identity", ["C09", "C15", "C08"],
      "for every observer/filter/graph/expression class the fields set in "
      "__init__ are exactly the fields compared in __eq__ and hashed in "
      "__hash__ (equal spellings give equal registrations)")
def identity(ctx, res):
    repo = get_pyrepo(ctx)
    n = 0
    for rel in IDENTITY_FILES:
        mod = repo.module(rel)
        for cls in mod.classes.values():
            ms = cls.methods
            if not ("__eq__" in ms and "__hash__" in ms):
                continue
            init = ms.get("__init__")
            init_fields = set()
            if init is not None:
                init_fields = {n2.attr for n2 in ast.walk(init)
                               if isinstance(n2, ast.Attribute)
                               and isinstance(n2.ctx, ast.Store)
                               and isinstance(n2.value, ast.Name)
                               and n2.value.id == "self"}
            eq_fields = _self_fields(ms["__eq__"]) - set(ms)
            hash_fields = _self_fields(ms["__hash__"]) - set(ms)
            # methods called on self in eq/hash are not fields
            eq_fields -= {"__class__"}
            hash_fields -= {"__class__"}
            n += 1
            key = f"{rel.split('/')[-1]}:{cls.name}"
            res.instance(key, mod.loc(cls.node), init=sorted(init_fields),
                         eq=sorted(eq_fields), hash=sorted(hash_fields))
            res.oblige(eq_fields == hash_fields, key + ":eq-vs-hash",
                       mod.loc(ms["__eq__"]),
                       f"{cls.name}: __eq__ compares {sorted(eq_fields)} but "
                       f"__hash__ hashes {sorted(hash_fields)}: equal objects "
                       f"may hash differently (removal by an equal expression "
                       f"would not find the registration)")
            if init is not None:
                res.oblige(init_fields == eq_fields, key + ":init-vs-eq",
                           mod.loc(ms["__eq__"]),
                           f"{cls.name}: __init__ sets {sorted(init_fields)} "
                           f"but __eq__ compares {sorted(eq_fields)}")
            # a field is compared whole, not through a projection of its
            # elements: `{c.node for c in self.children}` makes graphs that
            # differ two levels down compare equal (maintainers of distinct
            # expressions are then confused on removal)
            eqf = ms["__eq__"]
            selfn_ = eqf.args.args[0].arg
            projs = []
            for comp in ast.walk(eqf):
                if isinstance(comp, (ast.SetComp, ast.ListComp, ast.DictComp,
                                     ast.GeneratorExp)):
                    for gen in comp.generators:
                        if norm(gen.iter).startswith(selfn_ + ".") \
                                and isinstance(gen.target, ast.Name):
                            elt = comp.elt if not isinstance(comp, ast.DictComp) \
                                else comp.key
                            if not (isinstance(elt, ast.Name)
                                    and elt.id == gen.target.id):
                                projs.append(comp)
            res.oblige(not projs, key + ":eq-projection",
                       mod.loc(projs[0]) if projs else mod.loc(eqf),
                       f"{cls.name}.__eq__ compares "
                       f"`{norm(projs[0])[:60] if projs else ''}`, a "
                       f"projection of the elements of a field, not the "
                       f"field: objects that differ below that projection "
                       f"compare equal while __hash__ tells them apart")
            # other's fields mirror self's
            if len(eqf.args.args) >= 2:
                on = eqf.args.args[1].arg
                other_fields = _self_fields(eqf, on)
                res.oblige(other_fields == eq_fields or not other_fields
                           and not eq_fields, key + ":eq-symmetric",
                           mod.loc(eqf),
                           f"{cls.name}.__eq__ reads {sorted(eq_fields)} of "
                           f"self but {sorted(other_fields)} of {on}")
    # equals() of the two notifier classes
    for rel, cname, want in (
            (OBS + "_trait_event_notifier.py", "TraitEventNotifier",
             {"handler", "target", "dispatcher"}),
            (OBS + "_observer_change_notifier.py", "ObserverChangeNotifier",
             {"handler", "target", "dispatcher", "graph", "observer_handler"})):
        mod = repo.module(rel)
        fn = repo.inlined(rel, f"{cname}.equals")
        got = _self_fields(fn)
        res.instance(f"{cname}.equals", mod.loc(fn), fields=sorted(got))
        res.oblige(got == want, f"{cname}.equals", mod.loc(fn),
                   f"{cname}.equals compares {sorted(got)}; registrations are "
                   f"identified by {sorted(want)}")
        # fields held through weak references are compared through their
        # referents (a weakref compares by *value* of live referents and by
        # identity of dead ones), and the target object by identity
        init = repo.func(rel, f"{cname}.__init__")
        weak = set()
        for a in ast.walk(init):
            if isinstance(a, ast.Assign) and any(
                    isinstance(c, ast.Call) and norm(c.func).split(".")[-1]
                    in ("ref", "WeakMethod", "proxy")
                    for c in ast.walk(a.value)):
                for t in a.targets:
                    if isinstance(t, ast.Attribute) \
                            and isinstance(t.value, ast.Name) \
                            and t.value.id == "self":
                        weak.add(t.attr)
        on = fn.args.args[1].arg if len(fn.args.args) >= 2 else "other"
        for cmp_ in [c for c in ast.walk(fn) if isinstance(c, ast.Compare)]:
            sides = [cmp_.left] + list(cmp_.comparators)
            for f in sorted(weak):
                raw = [x for x in sides if isinstance(x, ast.Attribute)
                       and x.attr == f and isinstance(x.value, ast.Name)
                       and x.value.id in ("self", on)]
                called = [x for x in sides if isinstance(x, ast.Call)
                          and isinstance(x.func, ast.Attribute)
                          and x.func.attr == f and not x.args]
                if not raw and not called:
                    continue
                res.oblige(not raw, f"{cname}.equals:{f}:referent",
                           mod.loc(cmp_),
                           f"`{norm(cmp_)}` compares the weak reference "
                           f"objects themselves: live referents are then "
                           f"compared by value (==) and dead ones by "
                           f"identity of the reference, so equal but "
                           f"distinct objects share one registration")
                if f == "target" and called:
                    res.oblige(all(isinstance(o, (ast.Is, ast.IsNot))
                                   for o in cmp_.ops),
                               f"{cname}.equals:{f}:identity", mod.loc(cmp_),
                               f"`{norm(cmp_)}`: the target object identifies "
                               f"a registration by identity (`is`), not by "
                               f"value")
    res.floor(13)
