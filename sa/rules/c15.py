"""C15: the observe mini-language (grammar-level and translator data flow)."""
from __future__ import annotations

import ast
import itertools

from ..core import AnalysisError, rule
from ..grammar import (END, GEN, LARK, Grammar, Rule, get_embedded,
                       load_lark_grammar)
from ..pyfacts import get_pyrepo, is_self_attr, names_in, norm

PARSING = "traits/observation/parsing.py"
EXPR = "traits/observation/expression.py"
OGRAPH = "traits/observation/_observer_graph.py"


def doc_grammar():
    """The *documented* language (user manual 'Traits Mini Language', the
    observe docstring and the comment block of the grammar file), written
    down independently of the shipped rules:

      names, `items`, `+name`; series with '.' / ':'; parallel with ',';
      grouping with [...]; '*' wherever the position is terminal, i.e. not
      followed directly or indirectly by a connector -- including inside a
      bracket group that is itself in terminal position (the manual's own
      example is "[a.*, b.c]", the grammar file's is "[a:*,b]").
    """
    R = []

    def add(o, *exp):
        R.append(Rule(o, exp, None, False, False, [False] * len(exp)))
    add("conn", "DOT")
    add("conn", "COLON")
    add("atom", "NAME")
    add("atom", "ITEMS")
    add("atom", "PLUS", "NAME")
    # non-terminal position
    add("element", "atom")
    add("element", "LSQB", "parallel", "RSQB")
    add("series", "element")
    add("series", "series", "conn", "element")
    add("parallel", "series")
    add("parallel", "parallel", "COMMA", "series")
    # terminal position
    add("element_t", "atom")
    add("element_t", "STAR")
    add("element_t", "LSQB", "parallel_t", "RSQB")
    add("series_t", "element_t")
    add("series_t", "series", "conn", "element_t")
    add("parallel_t", "series_t")
    add("parallel_t", "parallel_t", "COMMA", "series_t")
    add("start", "parallel_t")
    terms = {t: t for t in ("NAME", "ITEMS", "PLUS", "STAR", "DOT", "COLON",
                            "LSQB", "RSQB", "COMMA")}
    return Grammar(R, terms, "start")


SPELL = {"NAME": "a", "ITEMS": "items", "PLUS": "+", "STAR": "*", "DOT": ".",
         "COLON": ":", "LSQB": "[", "RSQB": "]", "COMMA": ","}


def spell(toks):
    return "".join(SPELL.get(t, t) for t in toks)


def _star_in_brackets(toks):
    depth = 0
    for t in toks:
        if t == "LSQB":
            depth += 1
        elif t == "RSQB":
            depth -= 1
        elif t == "STAR" and depth > 0:
            return True
    return False


def bound(ctx):
    return 9 if ctx.tier == "thorough" else 8


@rule("C15.language", ["C15"],
      "the rules embedded in the shipped parser generate exactly the "
      "documented language (all token strings up to the bound)")
def language(ctx, res):
    E = get_embedded(ctx)
    n = bound(ctx)
    Lemb = E.grammar.language(n)
    Ldoc = doc_grammar().language(n)
    res.instance("embedded-vs-documented", GEN, bound=n,
                 embedded_strings=len(Lemb), documented_strings=len(Ldoc))
    under = sorted(Ldoc - Lemb, key=lambda w: (len(w), w))
    over = sorted(Lemb - Ldoc, key=lambda w: (len(w), w))
    groups = {}
    for w in under:
        cat = ("rejects:star-inside-terminal-brackets"
               if _star_in_brackets(w) else f"rejects:{spell(w)}")
        groups.setdefault(cat, []).append(w)
    for w in over:
        groups.setdefault(f"accepts:{spell(w)}", []).append(w)
    # report at most a handful of distinct categories
    for cat, ws in list(groups.items())[:6]:
        ex = ", ".join(repr(spell(w)) for w in ws[:4])
        if cat.startswith("rejects"):
            msg = (f"the shipped grammar rejects {len(ws)} documented "
                   f"strings up to {n} tokens, e.g. {ex} (shortest first)")
        else:
            msg = (f"the shipped grammar accepts the undocumented string "
                   f"{ex}")
        res.violation(f"embedded-grammar:{cat}", GEN, msg,
                      extra={"witnesses": [spell(w) for w in ws[:20]]})
    res.obligations += len(Ldoc | Lemb)
    res.discharged += len(Ldoc & Lemb)
    res.floor(1)


@rule("C15.table", ["C15"],
      "the LALR table that the shipped parser runs accepts exactly the "
      "language of its embedded rules (exhaustive over short token strings)")
def table(ctx, res):
    E = get_embedded(ctx)
    G = E.grammar
    n_all = 6 if ctx.tier == "thorough" else 5
    n_pos = bound(ctx)
    L = G.language(n_pos)
    alpha = G.token_alphabet()
    checked = bad = 0
    first_bad = None
    for k in range(0, n_all + 1):
        for w in itertools.product(alpha, repeat=k):
            checked += 1
            a = E.accepts(w)
            if a != (w in L):
                bad += 1
                first_bad = first_bad or (w, a)
    for w in L:
        if len(w) > n_all:
            checked += 1
            if not E.accepts(w):
                bad += 1
                first_bad = first_bad or (w, False)
    # every reduction performed while running those strings popped exactly
    # the right-hand side of the rule it reduced by (same language is not
    # enough: `a.*` reduced through `quiet -> COLON` parses, but as `a:*`)
    for (st, tok, rid), (found, w) in sorted(E.bad_reductions.items(),
                                             key=str)[:3]:
        r = E.rule_by_id[rid]
        res.violation(f"lalr-table:reduce-mismatch:state{st}:{tok}", GEN,
                      f"in state {st} with look-ahead {tok} the table reduces "
                      f"by `{r.origin} -> {' '.join(r.expansion)}` while the "
                      f"stack holds {list(found)} (first seen on "
                      f"{spell(w)!r}): the parse tree - and so the meaning - "
                      f"differs from what the rules say")
    res.obligations += 1
    res.discharged += 0 if E.bad_reductions else 1
    res.instance("lalr-table-vs-rules", GEN, strings=checked,
                 exhaustive_up_to=n_all, positive_up_to=n_pos)
    res.obligations += checked
    res.discharged += checked - bad
    if bad:
        w, a = first_bad
        res.violation("lalr-table:disagrees", GEN,
                      f"the parse table {'accepts' if a else 'rejects'} "
                      f"{spell(w)!r} but the embedded rules "
                      f"{'do not' if a else 'do'} generate it ({bad} "
                      f"disagreements)")
    res.floor(1)


@rule("C15.grammar-sync", ["C15"],
      "the rules and terminals of _dsl_grammar.lark equal the ones embedded "
      "in the generated parser")
def grammar_sync(ctx, res):
    E = get_embedded(ctx)
    G = E.grammar
    LG = load_lark_grammar(ctx)
    a = {r.key() for r in LG.rules}
    b = {r.key() for r in G.rules}
    res.instance("lark-vs-embedded", LARK, lark_rules=len(a),
                 embedded_rules=len(b))
    for k in sorted(a - b, key=str)[:5]:
        res.violation(f"rule-only-in-lark:{k[0]}->{' '.join(k[1])}", LARK,
                      f"rule `{k[0]} -> {' '.join(k[1])}` is in the .lark "
                      f"source but not in the shipped parser (parser not "
                      f"regenerated)")
    for k in sorted(b - a, key=str)[:5]:
        res.violation(f"rule-only-embedded:{k[0]}->{' '.join(k[1])}", GEN,
                      f"rule `{k[0]} -> {' '.join(k[1])}` is in the shipped "
                      f"parser but not in the .lark source")
    res.obligations += len(a | b)
    res.discharged += len(a & b)
    ta = {k: v for k, v in LG.terminals.items()}
    tb = {k: v for k, v in G.terminals.items()}
    res.oblige(ta == tb, "terminals", LARK,
               f"terminal definitions differ: lark {sorted(ta.items())} vs "
               f"embedded {sorted(tb.items())}")
    res.oblige(tuple(G.ignore) == ("WS",) and "WS" in tb, "ignore-ws", GEN,
               "whitespace is not ignored by the shipped parser")
    res.floor(1)


@rule("C15.star-terminal", ["C15"],
      "'*' can never be followed by a connector: FOLLOW(anytrait) contains "
      "neither '.' nor ':' (holds for strings of every length)")
def star_terminal(ctx, res):
    E = get_embedded(ctx)
    G = E.grammar
    fol = G.follow()
    if "anytrait" not in fol:
        raise AnalysisError("no `anytrait` rule in the embedded grammar")
    res.instance("FOLLOW(anytrait)", GEN, follow=sorted(fol["anytrait"]))
    bad = fol["anytrait"] & {"DOT", "COLON", "LSQB", "NAME", "ITEMS", "PLUS",
                             "STAR"}
    res.oblige(not bad, "follow-anytrait", GEN,
               f"'*' can be followed by {sorted(bad)}: it is no longer "
               f"restricted to terminal position")
    res.oblige("anytrait" in G.reachable(), "anytrait-reachable", GEN,
               "`anytrait` is unreachable from the start rule: '*' is never "
               "accepted")
    users = [r for r in G.rules if "STAR" in r.expansion]
    res.oblige([r.origin for r in users] == ["anytrait"], "star-only-anytrait",
               GEN, f"STAR is used by rules {[str(r) for r in users]}")
    # a group closing bracket may be followed by a connector only when the
    # group cannot end in '*': FOLLOW of the non-terminal bracket rule
    for r in G.rules:
        if "LSQB" in r.expansion:
            inner = [s for s in r.expansion if s not in ("LSQB", "RSQB")]
            res.instance(f"bracket:{r.origin}", GEN, inner=inner)
            follows_conn = fol[r.origin] & {"DOT", "COLON"}
            if follows_conn:
                lang_has_star = _can_end_with_star(G, inner[0])
                res.oblige(not lang_has_star, f"bracket:{r.origin}:star",
                           GEN,
                           f"a bracket group built from `{inner[0]}` can "
                           f"contain '*' and be followed by a connector")
    res.floor(1)


def _can_end_with_star(G, sym, _seen=None):
    """can `sym` derive a string containing STAR at all"""
    seen = _seen or set()
    if sym == "STAR":
        return True
    if sym in seen or sym not in G.nonterminals:
        return False
    seen.add(sym)
    return any(_can_end_with_star(G, s, seen) for r in G.rules
               if r.origin == sym for s in r.expansion)


# ---------------------------------------------------------------------------
# translator

def tree_nodes(G):
    """Tree node names the grammar can produce with their kept-children
    shapes: name -> set of tuples of child symbol names."""
    out = {}
    for r in G.rules:
        kept = r.kept()
        if r.expand1 and len(kept) == 1:
            continue        # inlined
        out.setdefault(r.alias or r.origin, set()).add(tuple(kept))
    return out


@rule("C15.handlers", ["C15"],
      "every tree node the grammar can produce has a handler with the arity "
      "the handler unpacks")
def handlers(ctx, res):
    repo = get_pyrepo(ctx)
    mod = repo.module(PARSING)
    E = get_embedded(ctx)
    nodes = tree_nodes(E.grammar)
    fn = repo.func(PARSING, "_handle_tree")
    table = None
    for n in ast.walk(fn):
        if isinstance(n, ast.Dict) and n.keys and all(
                isinstance(k, ast.Constant) for k in n.keys):
            table = {k.value: norm(v) for k, v in zip(n.keys, n.values)}
    if table is None:
        # a module-level constant subscripted by the function
        used = {n.value.id for n in ast.walk(fn)
                if isinstance(n, ast.Subscript) and isinstance(n.value,
                                                               ast.Name)}
        for st in mod.tree.body:
            if isinstance(st, ast.Assign) and isinstance(st.value, ast.Dict) \
                    and any(isinstance(t, ast.Name) and t.id in used
                            for t in st.targets) and st.value.keys and all(
                    isinstance(k, ast.Constant) for k in st.value.keys):
                table = {k.value: norm(v) for k, v in zip(st.value.keys,
                                                          st.value.values)}
    if table is None:
        raise AnalysisError("_handle_tree: handler table not found")
    connectors = {n for n, shapes in nodes.items()
                  if n in ("notify", "quiet")}
    res.instance("_handle_tree", mod.loc(fn), handlers=sorted(table),
                 node_names=sorted(nodes))
    for n in sorted(set(nodes) - connectors):
        res.oblige(n in table, f"handler:{n}", mod.loc(fn),
                   f"the grammar can produce a `{n}` node but _handle_tree "
                   f"has no handler for it (KeyError on such input)")
    for n in sorted(set(table) - set(nodes)):
        res.oblige(False, f"handler-unused:{n}", mod.loc(fn),
                   f"_handle_tree has a handler for `{n}` which the grammar "
                   f"never produces")
    # arities
    def shape_ok(name, want):
        return all(len(s) == want for s in nodes.get(name, ()))
    for name, fnname in table.items():
        h = repo.func(PARSING, fnname)
        unpack = None
        for s in h.body:
            if isinstance(s, ast.Assign) and isinstance(s.targets[0], ast.Tuple) \
                    and norm(s.value) == h.args.args[0].arg:
                unpack = len(s.targets[0].elts)
        if unpack is not None and name in nodes:
            res.oblige(shape_ok(name, unpack), f"arity:{name}", mod.loc(h),
                       f"{fnname} unpacks {unpack} children but `{name}` "
                       f"nodes have shapes {sorted(nodes[name])}")
    # series nodes: middle child is the connector
    for name in ("series", "series_terminal"):
        for s in nodes.get(name, ()):
            res.oblige(len(s) == 3 and s[1] in ("notify", "quiet"),
                       f"series-shape:{name}", GEN,
                       f"`{name}` node shape {s} is not (left, connector, "
                       f"right)")
    res.floor(1)


@rule("C15.notify-flow", ["C15", "C08"],
      "the translator gives the left operand of a connector notify iff the "
      "connector is '.', and everything else the inherited flag")
def notify_flow(ctx, res):
    repo = get_pyrepo(ctx)
    mod = repo.module(PARSING)
    E = get_embedded(ctx)
    G = E.grammar
    # which rule name stands for '.'
    dot_rule = [r.origin for r in G.rules if r.expansion == ("DOT",)]
    colon_rule = [r.origin for r in G.rules if r.expansion == ("COLON",)]
    res.instance("connector-rules", GEN, dot=dot_rule, colon=colon_rule)
    res.oblige(G.terminals.get("DOT") == "." and G.terminals.get("COLON") == ":",
               "connector-terminals", GEN,
               "DOT/COLON terminals are not '.' and ':'")
    if len(dot_rule) != 1 or len(colon_rule) != 1:
        raise AnalysisError("connector rules not found")
    # _handle_series
    fn = repo.inlined(PARSING, "_handle_series", keep=("_handle_tree",))
    ps = [a.arg for a in fn.args.args]
    res.instance("_handle_series", mod.loc(fn))
    cmpn = [n for n in ast.walk(fn) if isinstance(n, ast.Compare)
            and norm(n.left).endswith(".data")]
    ok = (len(cmpn) == 1 and isinstance(cmpn[0].ops[0], ast.Eq)
          and isinstance(cmpn[0].comparators[0], ast.Constant)
          and cmpn[0].comparators[0].value == dot_rule[0])
    res.oblige(ok, "_handle_series:dot-means-notify", mod.loc(fn),
               f"the left operand's notify flag is not `connector.data == "
               f"{dot_rule[0]!r}` (the rule spelled '.')")
    from ..pyfacts import expand_locals
    rets = [n for n in ast.walk(fn) if isinstance(n, ast.Return)]
    ok = False
    if rets and cmpn:
        want = (f"_handle_tree(left, {norm(cmpn[0])}).then(_handle_tree("
                f"right, {ps[1]}))")
        ok = norm(expand_locals(fn, rets[0].value)) == want
    res.oblige(ok, "_handle_series:flags", mod.loc(fn),
               "series must be left(notify iff '.').then(right(inherited "
               "notify))")
    fn = repo.inlined(PARSING, "_handle_parallel", keep=("_handle_tree",))
    ps = [a.arg for a in fn.args.args]
    rets = [n for n in ast.walk(fn) if isinstance(n, ast.Return)]
    res.instance("_handle_parallel", mod.loc(fn))
    res.oblige(bool(rets) and norm(expand_locals(fn, rets[0].value)) ==
               f"_handle_tree(left, {ps[1]}) | _handle_tree(right, {ps[1]})",
               "_handle_parallel:flags", mod.loc(fn),
               "both branches of ',' must inherit the notify flag")
    # leaves
    for fname, factory in (("_handle_trait", "trait"),
                           ("_handle_anytrait", "anytrait"),
                           ("_handle_metadata", "metadata")):
        fn = repo.func(PARSING, fname)
        ps = [a.arg for a in fn.args.args]
        calls = [c for c in ast.walk(fn) if isinstance(c, ast.Call)
                 and norm(c.func) == f"expression_module.{factory}"]
        res.instance(fname, mod.loc(fn))
        ok = len(calls) == 1 and any(
            k.arg == "notify" and norm(k.value) == ps[1]
            for k in calls[0].keywords)
        res.oblige(ok, f"{fname}:notify", mod.loc(fn),
                   f"{fname} must build expression_module.{factory}(..., "
                   f"notify=<inherited flag>)")
    fn = repo.func(PARSING, "_handle_items")
    ps = [a.arg for a in fn.args.args]
    calls = [c for c in ast.walk(fn) if isinstance(c, ast.Call)
             and norm(c.func).startswith("expression_module.")]
    got = {}
    for c in calls:
        kws = {k.arg: norm(k.value) for k in c.keywords}
        nm = norm(c.func).split(".")[-1]
        if nm == "trait":
            nm += ":" + (norm(c.args[0]) if c.args else kws.get("name", ""))
        got[nm] = (kws.get("notify"), kws.get("optional"))
    want = {"trait:'items'", "dict_items", "list_items", "set_items"}
    res.instance("_handle_items", mod.loc(fn), alternatives=sorted(got))
    res.oblige(set(got) == want and all(v == (ps[1], "True")
                                        for v in got.values()),
               "_handle_items:alternatives", mod.loc(fn),
               f"`items` must stand for a trait named items, dict, list and "
               f"set items, all optional with the inherited notify flag "
               f"(got {got})")
    rets = [n for n in ast.walk(fn) if isinstance(n, ast.Return)]
    res.oblige(bool(rets) and all(isinstance(n, (ast.BinOp, ast.Call,
               ast.Attribute, ast.Name, ast.keyword, ast.Constant,
               ast.BitOr, ast.Load)) for n in ast.walk(rets[0].value)),
               "_handle_items:union", mod.loc(fn),
               "the four alternatives must be joined with `|`")
    # parse() starts with notify=True and wraps parser errors in ValueError
    fn = repo.func(PARSING, "parse")
    rets = [n for n in ast.walk(fn) if isinstance(n, ast.Return)]
    res.instance("parse", mod.loc(fn))
    def _root_notify(e):
        e = expand_locals(fn, e)
        if not (isinstance(e, ast.Call) and norm(e.func) == "_handle_tree"):
            return False
        flag = e.args[1] if len(e.args) > 1 else next(
            (k.value for k in e.keywords if k.arg == "notify"), None)
        return isinstance(flag, ast.Constant) and flag.value is True
    res.oblige(bool(rets) and _root_notify(rets[-1].value),
               "parse:root-notify",
               mod.loc(fn), "the last element must notify: parse() has to "
               "start the translation with notify=True")
    hs = [h for t in ast.walk(fn) if isinstance(t, ast.Try)
          for h in t.handlers]
    ok = any(any(isinstance(r, ast.Raise) and isinstance(r.exc, ast.Call)
                 and norm(r.exc.func) == "ValueError" for r in ast.walk(h))
             and norm(h.type) == "_generated_parser.LarkError" for h in hs)
    res.oblige(ok, "parse:value-error", mod.loc(fn),
               "invalid text must be reported as ValueError (LarkError is "
               "caught and re-raised)")
    # the text reaches the LALR parser as given: the token language (what is
    # a name, where whitespace separates tokens) is the lexer's business, and
    # any rewriting in front of it changes which strings are accepted
    def _verbatim(f, call_pred, what, key):
        tp = f.args.args[0].arg
        calls = [c for c in ast.walk(f) if isinstance(c, ast.Call)
                 and call_pred(c) and c.args]
        if not calls:
            res.oblige(False, key, mod.loc(f),
                       f"{f.name} no longer hands its `{tp}` argument to "
                       f"{what}")
            return
        for c_ in calls:
          a = expand_locals(f, c_.args[0])
          res.oblige(isinstance(a, ast.Name) and a.id == tp, key,
                   mod.loc(c_),
                   f"{f.name} hands `{norm(a)[:60]}` to {what} instead of "
                   f"its `{tp}` argument unchanged: strings outside the "
                   f"documented language become acceptable (or acceptable "
                   f"ones change meaning) before the grammar sees them")
    _verbatim(repo.inlined(PARSING, "parse"),
              lambda c: isinstance(c.func, ast.Attribute)
              and c.func.attr == "parse", "the generated parser",
              "parse:text-verbatim")
    cs = repo.inlined(PARSING, "compile_str")
    res.instance("compile_str", mod.loc(cs))
    _verbatim(cs, lambda c: norm(c.func) == "parse", "parse()",
              "compile_str:text-verbatim")
    res.floor(8)


@rule("C15.unique-children", ["C15"],
      "whatever can flow into ObserverGraph(children=...) has been "
      "de-duplicated (the constructor rejects duplicates with ValueError)")
def unique_children(ctx, res):
    repo = get_pyrepo(ctx)
    mod = repo.module(EXPR)
    og = repo.func(OGRAPH, "ObserverGraph.__init__")
    raises = [n for n in ast.walk(og) if isinstance(n, ast.Raise)]
    res.instance("ObserverGraph.__init__", f"{OGRAPH}:{og.lineno}",
                 rejects_duplicates=bool(raises))
    if not raises:
        # the precondition is gone: nothing to establish at producers
        res.oblige(True, "ObserverGraph:no-precondition", "", "")
        res.floor(1)
        return
    # producers of multi-element branch lists
    for cname in ("ParallelObserverExpression",):
        fn = repo.func(EXPR, f"{cname}._create_graphs")
        rets = [n for n in ast.walk(fn) if isinstance(n, ast.Return)]
        res.instance(f"{cname}._create_graphs", mod.loc(fn))
        for r in rets:
            v = norm(r.value)
            dedup = ("dict.fromkeys(" in v or v.startswith("list(set(")
                     or "OrderedDict.fromkeys(" in v or "unique" in v)
            if not dedup and isinstance(r.value, ast.Name):
                # built by a loop with a membership test
                dedup = any(isinstance(n, ast.Compare)
                            and isinstance(n.ops[0], ast.NotIn)
                            for n in ast.walk(fn))
            res.oblige(dedup, f"{cname}._create_graphs:dedup", mod.loc(r),
                       f"`return {v}` can contain equal graphs; used as "
                       f"children of a parent graph this raises ValueError "
                       f"for documented strings such as 'a.[b,b]'")
    res.floor(2)


# ---------------------------------------------------------------------------
# C15.metadata-filter: '+name' selects traits whose metadata is defined

@rule("C15.metadata-filter", ["C15"],
      "'+name' / metadata(name) selects exactly the traits whose metadata "
      "`name` is not None: the expression builds MetadataFilter(name), and "
      "the filter tests the CTrait attribute against None (undefined "
      "metadata reads as None; 0, '' and False are defined values)")
def metadata_filter(ctx, res):
    repo = get_pyrepo(ctx)
    rel = "traits/observation/_metadata_filter.py"
    mod = repo.module(rel)
    cls = repo.cls(rel, "MetadataFilter")
    fn = cls.methods.get("__call__")
    if fn is None:
        raise AnalysisError("MetadataFilter.__call__ missing")
    ps = [a.arg for a in fn.args.args]
    selfn, traitp = ps[0], ps[2]
    # the stored attribute
    init = cls.methods["__init__"]
    stored = [norm(a.targets[0]) for a in ast.walk(init)
              if isinstance(a, ast.Assign)
              and isinstance(a.value, ast.Name)
              and a.value.id == init.args.args[1].arg]
    attr = stored[0].split(".", 1)[1] if stored else None
    rets = [r for r in ast.walk(fn) if isinstance(r, ast.Return)]
    res.instance("MetadataFilter.__call__", mod.loc(fn), returns=len(rets))
    local = {a.targets[0].id: a.value for a in ast.walk(fn)
             if isinstance(a, ast.Assign) and len(a.targets) == 1
             and isinstance(a.targets[0], ast.Name)}

    def expand(e):
        while isinstance(e, ast.Name) and e.id in local:
            e = local[e.id]
        return e

    def presence(e, positive=True):
        """True when ``e`` is (equivalent to) `<lookup> is not None`"""
        e = expand(e)
        if isinstance(e, ast.UnaryOp) and isinstance(e.op, ast.Not):
            return presence(e.operand, not positive)
        if isinstance(e, ast.Compare) and len(e.ops) == 1 \
                and isinstance(e.comparators[0], ast.Constant) \
                and e.comparators[0].value is None \
                and isinstance(e.ops[0], (ast.Is, ast.IsNot)):
            if isinstance(e.ops[0], ast.IsNot) != positive:
                return False
            look = expand(e.left)
            return isinstance(look, ast.Call) and norm(look.func) == "getattr" \
                and len(look.args) >= 2 and norm(look.args[0]) == traitp \
                and norm(look.args[1]) == f"{selfn}.{attr}" \
                and (len(look.args) == 2 or norm(look.args[2]) == "None")
        return False
    for r in rets:
        res.oblige(r.value is not None and presence(r.value),
                   "MetadataFilter.__call__:presence", mod.loc(r),
                   f"the filter returns `{norm(r.value) if r.value else None}`"
                   f"; a trait matches '+name' iff getattr({traitp}, "
                   f"{selfn}.{attr}) is not None - a truthiness or equality "
                   f"test drops traits whose metadata is defined as 0, '', "
                   f"False or an empty container")
    # equality/hash over the name (observer identity, graph merging)
    eq = cls.methods.get("__eq__")
    hs = cls.methods.get("__hash__")
    res.oblige(eq is not None and hs is not None
               and f"{selfn}.{attr}" in {norm(n) for n in ast.walk(eq)}
               and f"{selfn}.{attr}" in {norm(n) for n in ast.walk(hs)},
               "MetadataFilter:identity", mod.loc(cls.node),
               "MetadataFilter equality/hash do not depend on the metadata "
               "name")
    # the expression layer builds the filter from the name it was given
    rel2 = "traits/observation/expression.py"
    mod2 = repo.module(rel2)
    n = 0
    for f in ast.walk(mod2.tree):
        if isinstance(f, ast.FunctionDef) and f.name == "metadata":
            n += 1
            namep = [a.arg for a in f.args.args if a.arg != "self"][0]
            calls = [c for c in ast.walk(f) if isinstance(c, ast.Call)
                     and norm(c.func) == "MetadataFilter"]
            kw = {k.arg: norm(k.value) for c in calls for k in c.keywords}
            pos = [norm(a) for c in calls for a in c.args]
            notify = [k for c in ast.walk(f) if isinstance(c, ast.Call)
                      for k in c.keywords if k.arg == "notify"]
            key = f"expression.metadata@{f.lineno}"
            res.instance("expression.metadata", mod2.loc(f))
            res.oblige(len(calls) == 1 and (kw.get("metadata_name") == namep
                                            or pos[:1] == [namep]),
                       "expression.metadata:filter", mod2.loc(f),
                       f"metadata() does not build MetadataFilter({namep})")
            res.oblige(bool(notify) and all(norm(k.value) == "notify"
                                            for k in notify),
                       "expression.metadata:notify", mod2.loc(f),
                       "metadata() does not pass its notify flag on")
    if n < 2:
        raise AnalysisError("expression.metadata definitions not found")
    res.floor(3)


# ---------------------------------------------------------------------------
# C15.undefined-metadata-none: what MetadataFilter relies on in C

@rule("C15.undefined-metadata-none", ["C15"],
      "CTrait attribute lookup turns a missing attribute into None for every "
      "name that is not __dunder__: is_dunder_name tests exactly the "
      "characters 0, 1, n-2 and n-1 for '_' (a conjunction), and "
      "trait_getattro clears the error and returns None otherwise")
def undefined_metadata_none(ctx, res):
    import re
    from ..cfacts import CREL, get_cfacts
    from .cstore import paths_of
    facts = get_cfacts(ctx)
    ps, _, _ = paths_of(ctx, "is_dunder_name")
    deciding = [p for p in ps if p.outcome[0] == "RETURN"
                and p.outcome[1] not in ("-1", "0", "1")]
    lowered = False
    if not deciding:
        # `return a && b && ...;` is analysed as its atomic tests: the
        # accepting path is the one that returns 1
        deciding = [p for p in ps if p.outcome == ("RETURN", "1")]
        lowered = True
    res.instance("is_dunder_name", facts.loc(facts.func("is_dunder_name")),
                 paths=len(ps))
    if len(deciding) != 1:
        raise AnalysisError(f"is_dunder_name: {len(deciding)} deciding paths "
                            f"(expected one conjunction)")
    p = deciding[0]
    reads = [it for it in p.trace if it[0] == "call"
             and it[1] in ("PyUnicode_READ", "PyUnicode_READ_CHAR",
                           "PyUnicode_ReadChar")]
    lens = {it[3] for it in p.trace if it[0] == "call"
            and it[1] in ("PyUnicode_GET_LENGTH", "PyUnicode_GetLength")}

    def normidx(t):
        for L in sorted(lens, key=len, reverse=True):
            t = t.replace(L, "n")
        return t.replace(" ", "").strip("()")
    idx = sorted(normidx(it[2][-1]) for it in reads)
    want = sorted(["0", "1", "n-2", "n-1"])
    txt = p.outcome[1]
    if lowered:
        # the conjunction, reconstructed from the tests that all hold on the
        # accepting path (a disjunction would give several accepting paths)
        tests = [a for a in p.atoms if isinstance(a[1], bool)
                 and "PyUnicode_READY" not in a[0]
                 and "_PyUnicode_Ready" not in a[0]
                 and not a[0].startswith("(0 >")
                 and ("95" in a[0] or ">=" in a[0])]
        txt = " && ".join(a[0] for a in tests if a[1]) + (
            " || negated" if any(not a[1] for a in tests) else "")
    res.oblige(idx == want, "is_dunder_name:positions",
               facts.loc(facts.func("is_dunder_name")),
               f"is_dunder_name reads the characters at {idx}; a __dunder__ "
               f"name is one whose characters 0, 1, n-2 and n-1 are all '_' "
               f"(with {idx} a name like `_tag__` is treated as special and "
               f"`+_tag__` raises AttributeError instead of matching)")
    res.oblige("||" not in txt and txt.count("95 ==") + txt.count("== 95")
               == 4 and re.search(r">= [24]\)", txt) is not None,
               "is_dunder_name:conjunction",
               facts.loc(facts.func("is_dunder_name")),
               f"the test is not the conjunction of four comparisons with "
               f"'_' and a length bound: `{txt[:120]}`")
    # trait_getattro: non-dunder -> clear and None
    ps, _, _ = paths_of(ctx, "trait_getattro")
    res.instance("trait_getattro", facts.loc(facts.func("trait_getattro")),
                 paths=len(ps))
    n_none = 0
    bad = None
    for p in ps:
        a = {t[1]: t[2] for t in p.trace if t[0] == "atom"}
        dunder = a.get("is_dunder_name(name)")
        if dunder is False:
            n_none += 1
            cleared = any(t[0] == "call" and t[1] == "PyErr_Clear"
                          for t in p.trace)
            if not (cleared and p.outcome == ("RETURN", "&_Py_NoneStruct")):
                bad = p
    if n_none == 0:
        raise AnalysisError("trait_getattro: non-dunder path not found")
    res.oblige(bad is None, "trait_getattro:none-for-undefined",
               facts.loc(facts.func("trait_getattro")),
               "for a name that is not __dunder__ a failed lookup must clear "
               "the AttributeError and return None (undefined metadata reads "
               "as None; MetadataFilter depends on it)")
    res.floor(2)


# ---------------------------------------------------------------------------
# keywords are whole-token matches

@rule("C15.keyword-whole-match", ["C15"],
      "the lexer turns a NAME token into a keyword terminal (`items`) only "
      "when the *whole* token is that keyword: the scanner behind the "
      "keyword callback is built with match_whole bound to True, so that "
      "`itemsize` or `items_changed` stay trait names")
def keyword_whole_match(ctx, res):
    repo = get_pyrepo(ctx)
    rel = "traits/observation/_generated_parser.py"
    mod = repo.module(rel)
    sc = mod.classes.get("Scanner")
    if sc is None or "__init__" not in sc.methods:
        raise AnalysisError("generated parser: class Scanner not found")
    init = sc.methods["__init__"]
    params = [a.arg for a in init.args.args][1:]
    defaults = dict(zip(params[len(params) - len(init.args.defaults):],
                        init.args.defaults))
    if "match_whole" not in params:
        raise AnalysisError("Scanner.__init__ has no match_whole parameter")
    # the parameter must reach the matching code: it selects fullmatch-like
    # behaviour (a `$`-anchored pattern) somewhere in the class
    used = any(isinstance(n, ast.Attribute) and n.attr == "match_whole"
               and isinstance(n.ctx, ast.Load) for n in ast.walk(sc.node))
    res.instance("Scanner", mod.loc(init), params=params)
    res.oblige(used, "Scanner:match_whole-used", mod.loc(init),
               "Scanner never consults match_whole")
    sites = [c for c in ast.walk(mod.tree) if isinstance(c, ast.Call)
             and norm(c.func) == "UnlessCallback" and c.args]
    if not sites:
        raise AnalysisError("generated parser: keyword callback "
                            "(UnlessCallback) construction not found")
    for c in sites:
        inner = c.args[0]
        key = "keyword-callback"
        res.instance(key, mod.loc(c))
        ok = False
        shown = norm(inner)[:70]
        if isinstance(inner, ast.Call) and norm(inner.func) == "Scanner":
            bound = dict(zip(params, inner.args))
            for k in inner.keywords:
                if k.arg:
                    bound[k.arg] = k.value
            v = bound.get("match_whole", defaults.get("match_whole"))
            ok = isinstance(v, ast.Constant) and v.value is True
            shown = f"match_whole={norm(v) if v is not None else None}"
        res.oblige(ok, f"{key}:match-whole", mod.loc(c),
                   f"the scanner that recognises keywords inside NAME tokens "
                   f"is built with {shown}: a name that merely *starts* with "
                   f"a keyword (`itemsize`, `items_changed`) is lexed as the "
                   f"keyword, and the expression observes container items "
                   f"instead of the named trait")
    res.floor(2)
