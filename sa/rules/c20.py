"""C20: sync_trait structural rules (lock window, registration pairing, weak
partner reference)."""
from __future__ import annotations

import ast

from ..core import AnalysisError, rule
from ..pyfacts import get_pyrepo, is_self_call, names_in, norm
from ..pyflow import PyFlow

HT = "traits/has_traits.py"


class LockFlow(PyFlow):
    """state = (lock key or None, facts)"""

    def __init__(self, module, func, qual):
        super().__init__(module, func, qual)
        self.props = []
        self.locks = []
        self.unlocks = []
        self.alias = {}
        for n in ast.walk(func):
            if isinstance(n, ast.Assign) and len(n.targets) == 1 \
                    and isinstance(n.targets[0], ast.Name) \
                    and isinstance(n.value, ast.Name):
                self.alias[n.targets[0].id] = n.value.id

    def canon(self, sub):
        """`name[idx]` with the base name resolved through plain aliases"""
        base = sub.value.id
        for _ in range(5):
            base = self.alias.get(base, base)
        return f"{base}[{norm(sub.slice)}]"

    def classify(self, e, node):
        if isinstance(e, ast.Assign) and len(e.targets) == 1:
            t = e.targets[0]
            if isinstance(t, ast.Subscript) and isinstance(t.value, ast.Name) \
                    and isinstance(e.value, ast.Constant) \
                    and e.value.value is None:
                return [("LOCK", False)]
            # getattr(obj, name)[a:b] = ...   (item propagation)
            if isinstance(t, ast.Subscript) and isinstance(t.value, ast.Call) \
                    and norm(t.value.func) == "getattr":
                return [("PROP", True)]
        if isinstance(e, ast.Delete):
            t = e.targets[0]
            if isinstance(t, ast.Subscript) and isinstance(t.value, ast.Name):
                return [("UNLOCK", False)]
        if isinstance(e, ast.Call) and norm(e.func) == "setattr" \
                and len(e.args) == 3:
            return [("PROP", True)]
        return []

    def step(self, st, ev, e, node):
        lock, facts = st
        if ev == "LOCK":
            k = self.canon(e.targets[0])
            self.locks.append(e)
            return (k, facts)
        if ev == "UNLOCK":
            k = self.canon(e.targets[0])
            self.unlocks.append(e)
            if lock != k:
                self.flag(("unlock-mismatch", k),
                          f"`del {k}` does not release the entry that was "
                          f"locked (`{lock}`)")
            return (None, facts)
        if ev == "PROP":
            self.props.append((e, st, node.id))
            if lock is None:
                self.flag(("unlocked-propagation", norm(e)[:50]),
                          f"`{norm(e)[:70]}` propagates while this side is "
                          f"not marked as locked: the partner's handler will "
                          f"propagate back (ping-pong / unbounded recursion)")
            # a lock table kept in a local stands for its definition
            import re as _re
            ldefs = {}
            for n_ in ast.walk(self.func):
                if isinstance(n_, ast.Assign) and len(n_.targets) == 1 \
                        and isinstance(n_.targets[0], ast.Name):
                    ldefs.setdefault(n_.targets[0].id, []).append(
                        norm(n_.value))
            def _expand(t):
                for nm, ds in ldefs.items():
                    if len(ds) == 1 and "_get_sync_trait_info()" in ds[0]:
                        t = _re.sub(rf"\b{_re.escape(nm)}\b", ds[0], t)
                return t
            facts = frozenset((f[0], _expand(f[1])) if f[0] in ("T", "F")
                              else f for f in facts)
            guard = [f for f in facts if f[0] == "F"
                     and " in " in f[1] and "_get_sync_trait_info()['']" in f[1]]
            guard += [f for f in facts if f[0] == "T" and " not in " in f[1]
                      and "_get_sync_trait_info()['']" in f[1]]
            # the test must be about the very (partner, partner-side name)
            # pair the assignment below it writes to
            if isinstance(e, ast.Call):
                tgt = (norm(e.args[0]), norm(e.args[1]))
            else:
                c = e.targets[0].value
                tgt = (norm(c.args[0]), norm(c.args[1])) \
                    if len(c.args) >= 2 else ("?", "?")
            exact = []
            for f in guard:
                try:
                    t = ast.parse(f[1], mode="eval").body
                except SyntaxError:
                    continue
                if isinstance(t, ast.Compare) and len(t.ops) == 1:
                    recv = [n for n in ast.walk(t.comparators[0])
                            if isinstance(n, ast.Call)
                            and isinstance(n.func, ast.Attribute)
                            and n.func.attr == "_get_sync_trait_info"]
                    if recv and (norm(recv[0].func.value),
                                 norm(t.left)) == tgt:
                        exact.append(f)
            if guard and not exact:
                self.flag(("guard-mismatch", norm(e)[:50]),
                          f"`{norm(e)[:70]}` writes `{tgt[1]}` of `{tgt[0]}` "
                          f"but the dominating lock test is "
                          f"`{guard[0][1][:70]}`: it does not ask whether "
                          f"*that* attribute of the partner is currently "
                          f"propagating (with differently named sides the "
                          f"change bounces back / is not delivered)")
            if not guard:
                self.flag(("unguarded-propagation", norm(e)[:50]),
                          f"`{norm(e)[:70]}` is not dominated by the test "
                          f"that the partner is not itself propagating "
                          f"(`name not in partner._get_sync_trait_info()['']`)")
            return st
        return st

    def assume(self, test, truth, st):
        lock, facts = st
        return (lock, facts | {("T" if truth else "F", norm(test))})

    def on_exit(self, node, st):
        lock, facts = st
        if lock is not None:
            kind = "normally" if node.kind == "exit" else "by an exception"
            self.flag(("lock-leaked", node.kind),
                      f"the function can leave {kind} with `{lock}` still "
                      f"locked: that trait would never synchronise again")


def _enclosing_try(fn, target):
    best = None
    for t in ast.walk(fn):
        if isinstance(t, ast.Try):
            for s in t.body:
                if any(n is target for n in ast.walk(s)):
                    best = t
    return best


@rule("C20.lock-window", ["C20", "C19"],
      "every propagating assignment of sync_trait happens while this side is "
      "locked, only when the partner is not locked, swallows the partner's "
      "errors, and the lock is released on every exit")
def lock_window(ctx, res):
    repo = get_pyrepo(ctx)
    mod = repo.module(HT)
    for qual in ("HasTraits._sync_trait_modified",
                 "HasTraits._sync_trait_items_modified"):
        fn = repo.func(HT, qual)
        fl = LockFlow(mod, fn, qual)

        # exceptions: only the propagating assignments are modelled as
        # raising (user validators / handlers of the partner)
        fl.run((None, frozenset()))
        res.instance(qual, mod.loc(fn), propagations=len(fl.props),
                     locks=len(fl.locks), unlocks=len(fl.unlocks))
        if not fl.props or not fl.locks:
            raise AnalysisError(f"{qual}: lock/propagation idiom not found")
        hits = fl.findings()
        for k, msg, loc, path in hits:
            res.violation(f"{qual}:{k[0]}", loc, msg, path)
        if not hits:
            res.oblige(True, qual, "", "")
        # the lock table is the one the partner reads
        srcs = {n.targets[0].id: norm(n.value) for n in ast.walk(fn)
                if isinstance(n, ast.Assign) and len(n.targets) == 1
                and isinstance(n.targets[0], ast.Name)}
        lockvar = norm(fl.locks[0].targets[0].value)
        for _ in range(5):
            lockvar = fl.alias.get(lockvar, lockvar)
        res.oblige(srcs.get(lockvar, "").endswith("['']"),
                   f"{qual}:lock-table", mod.loc(fl.locks[0]),
                   f"the lock is written to `{lockvar}` = "
                   f"`{srcs.get(lockvar)}`, not to the table "
                   f"(__sync_trait__['']) that the partner tests")
        # the per-name entry of the link table can vanish at any time (the
        # weak-reference callback deletes it when the last partner dies):
        # every read `info[<name>]` is dominated by a membership test
        tables = {v for v, src in srcs.items()
                  if src.endswith(".__sync_trait__")
                  or src.endswith("._get_sync_trait_info()")}

        class R(LockFlow):
            def classify(s, e, node):
                if isinstance(e, ast.Subscript) \
                        and isinstance(e.ctx, ast.Load) \
                        and isinstance(e.value, ast.Name) \
                        and e.value.id in tables \
                        and not (isinstance(e.slice, ast.Constant)):
                    return [("READ", False)]
                return []

            def step(s, st, ev, e, node):
                if ev == "READ":
                    s.reads.append((e, st[1], node.id))
                return st
        rf = R(mod, fn, qual)
        rf.reads = []
        rf.run((None, frozenset()))
        if not rf.reads:
            raise AnalysisError(f"{qual}: link-table read not found")
        for e, facts_, nid in rf.reads:
            k, t = norm(e.slice), norm(e.value)
            ok = ("F", f"{k} not in {t}") in facts_ \
                or ("T", f"{k} in {t}") in facts_
            res.oblige(ok, f"{qual}:table-read", mod.loc(e),
                       f"`{norm(e)}` is read without a dominating "
                       f"`{k} in {t}` test: the entry is deleted by the "
                       f"weak-reference callback when the last partner is "
                       f"garbage-collected while this handler stays "
                       f"registered, so the next change raises KeyError",
                       rf.witness_lines(nid, (None, facts_)))
        # the partner's errors are swallowed
        for e, st, nid in fl.props:
            t = _enclosing_try(fn, e)
            ok = t is not None and any(
                (h.type is None or norm(h.type) in ("Exception",
                                                    "BaseException"))
                and not any(isinstance(s, ast.Raise) for s in h.body)
                for h in t.handlers)
            res.oblige(ok, f"{qual}:swallow", mod.loc(e),
                       "a failure while updating the partner escapes (the "
                       "unlock below would be skipped and the user's "
                       "assignment would raise)")
    res.floor(2)


def _otc_calls(stmts):
    out = []
    for s in stmts:
        for n in ast.walk(s):
            if isinstance(n, ast.Call) and is_self_call(n, "_on_trait_change"):
                kws = {k.arg: norm(k.value) for k in n.keywords}
                out.append((tuple(norm(a) for a in n.args), kws.get("remove"),
                            n))
    return out


@rule("C20.pairing", ["C20"],
      "every handler registration made when a link is added is removed with "
      "the same (handler, name) when the link is removed")
def pairing(ctx, res):
    repo = get_pyrepo(ctx)
    mod = repo.module(HT)
    from ..pyfacts import normalize_guards
    # (helpers the branches were extracted into are inlined, their early
    # returns becoming nested conditionals)
    fn = repo.inlined(HT, "HasTraits.sync_trait")
    ps = [a.arg for a in fn.args.args]      # self, trait_name, object, alias, mutual, remove
    rm_if = [s for s in fn.body if isinstance(s, ast.If)
             and norm(s.test) == ps[5]]
    if len(rm_if) != 1:
        raise AnalysisError("sync_trait: `if remove:` block not found")
    removes = _otc_calls(rm_if[0].body)
    after = fn.body[fn.body.index(rm_if[0]) + 1:]
    adds = _otc_calls(after)
    res.instance("sync_trait", mod.loc(fn), adds=len(adds),
                 removes=len(removes))
    if len(adds) < 2:
        raise AnalysisError("sync_trait: registrations not found")
    addset = {a for a, rm, n in adds}
    rmset = {a for a, rm, n in removes}
    for a, rm, n in adds:
        res.oblige(rm in (None, "False"), f"sync_trait:add:{a[0]}", mod.loc(n),
                   "registration in the add branch passes remove=")
        res.oblige(a in rmset, f"sync_trait:unpaired-add:{a[0]}", mod.loc(n),
                   f"`_on_trait_change{a}` is registered when a link is "
                   f"added but never removed: after unsynchronising, changes "
                   f"would still propagate")
    for a, rm, n in removes:
        res.oblige(rm == "True", f"sync_trait:remove-flag:{a[0]}", mod.loc(n),
                   f"`_on_trait_change{a}` in the removal branch lacks "
                   f"remove=True (it registers a second handler)")
        res.oblige(a in addset, f"sync_trait:unpaired-remove:{a[0]}",
                   mod.loc(n), f"removal of `{a}` has no matching add")
    # hooks are per trait name, links are per (partner, alias): a hook is
    # installed with the first link of a name and taken away with the last
    # one - a registration and its removal sit under the same "the link
    # table of this name is empty" test
    par = {}
    for p_ in ast.walk(fn):
        for c in ast.iter_child_nodes(p_):
            par[id(c)] = p_

    def empty_guards(node):
        out = set()
        child, p_ = node, par.get(id(node))
        while p_ is not None and p_ is not fn:
            in_body = isinstance(p_, ast.If) and any(child is s_
                                                     for s_ in p_.body)
            in_else = isinstance(p_, ast.If) and any(child is s_
                                                     for s_ in p_.orelse)
            if in_else:
                t = p_.test
                if isinstance(t, ast.Compare) and len(t.ops) == 1 \
                        and isinstance(t.ops[0], (ast.NotEq, ast.Gt)) \
                        and norm(t.comparators[0]) == "0" \
                        and norm(t.left).startswith("len("):
                    out.add(norm(t.left)[4:-1])
                elif isinstance(t, ast.Name):
                    out.add(t.id)
            if in_body:
                t = p_.test
                if isinstance(t, ast.Compare) and len(t.ops) == 1 \
                        and isinstance(t.ops[0], ast.Eq) \
                        and norm(t.comparators[0]) == "0" \
                        and norm(t.left).startswith("len("):
                    out.add(norm(t.left)[4:-1])
                elif isinstance(t, ast.UnaryOp) and isinstance(t.op, ast.Not) \
                        and isinstance(t.operand, ast.Name):
                    out.add(t.operand.id)
            child, p_ = p_, par.get(id(p_))
        return out
    add_guard = {a: empty_guards(n) for a, rm, n in adds}
    for a, rm, n in removes:
        if a not in add_guard:
            continue
        res.oblige(bool(add_guard[a]) == bool(empty_guards(n)),
                   f"sync_trait:last-link-only:{a[0]}", mod.loc(n),
                   f"`_on_trait_change{a}` is installed "
                   f"{'with the first link of the name (table empty)' if add_guard[a] else 'for every link'} "
                   f"but removed "
                   f"{'only with the last one' if empty_guards(n) else 'whenever any link is removed'}: "
                   f"unlinking one of several partners takes the hook away "
                   f"from the partners that remain")
    # bookkeeping keys agree
    ldefs = {}
    for n in ast.walk(fn):
        if isinstance(n, ast.Assign) and len(n.targets) == 1 \
                and isinstance(n.targets[0], ast.Name):
            ldefs.setdefault(n.targets[0].id, set()).add(norm(n.value))

    def keytexts(e):
        if isinstance(e, ast.Name) and e.id in ldefs:
            return ldefs[e.id]
        return {norm(e)}
    # link removed: `del <table>[K]` inside the remove branch (not the
    # per-name table of the whole info dict, which is keyed by trait name)
    rm_keys = set()
    for d in ast.walk(rm_if[0]):
        if isinstance(d, ast.Delete) and isinstance(d.targets[0],
                                                    ast.Subscript):
            kt = keytexts(d.targets[0].slice)
            if any("id(" in k for k in kt):
                rm_keys |= kt
    # link added: `<table>[K] = (weakref.ref(...), alias)` outside it
    add_keys = set()
    for n in ast.walk(fn):
        if isinstance(n, ast.Assign) and isinstance(n.targets[0],
                                                    ast.Subscript) \
                and not any(n is x for x in ast.walk(rm_if[0])):
            kt = keytexts(n.targets[0].slice)
            if any("id(" in k for k in kt):
                add_keys |= kt
    res.oblige(len(rm_keys) == 1 and rm_keys == add_keys,
               "sync_trait:key", mod.loc(fn),
               f"the add and remove branches identify the link with "
               f"different keys (add {sorted(add_keys)}, remove "
               f"{sorted(rm_keys)})")
    # mutual recursion stops: the nested call passes mutual=False
    rec = [c for c in ast.walk(fn) if isinstance(c, ast.Call)
           and isinstance(c.func, ast.Attribute)
           and c.func.attr == "sync_trait"]
    res.oblige(len(rec) == 2, "sync_trait:mutual-calls", mod.loc(fn),
               f"expected one mutual call per branch, found {len(rec)}")
    for c in rec:
        args = [norm(a) for a in c.args]
        kws = {k.arg: norm(k.value) for k in c.keywords}
        mutual = args[3] if len(args) > 3 else kws.get("mutual")
        res.oblige(mutual == "False", "sync_trait:mutual-false", mod.loc(c),
                   "the reverse link is created with mutual != False: "
                   "unbounded recursion")
        res.oblige(args[:3] == [ps[3], ps[0], ps[1]],
                   "sync_trait:mutual-args", mod.loc(c),
                   f"the reverse link is `{args[:3]}`; expected "
                   f"(alias, self, trait_name)")
        in_remove = any(n is c for n in ast.walk(rm_if[0]))
        rmflag = args[4] if len(args) > 4 else kws.get("remove", "False")
        res.oblige((rmflag == "True") == in_remove,
                   "sync_trait:mutual-remove-flag", mod.loc(c),
                   "the reverse call adds where it should remove (or vice "
                   "versa)")
    # initial synchronisation target := source
    init = [c for c in ast.walk(ast.Module(after, [])) if isinstance(c, ast.Call)
            and norm(c.func) == "setattr"]
    res.oblige(any(norm(c) == f"setattr({ps[2]}, {ps[3]}, getattr({ps[0]}, "
                   f"{ps[1]}))" for c in init), "sync_trait:initial",
               mod.loc(fn),
               "adding a link does not copy this side's value to the partner")
    res.floor(1)


@rule("C20.weak-partner", ["C20", "C09"],
      "the partner of a synchronised trait is held weakly and its death "
      "removes exactly its own entries")
def weak_partner(ctx, res):
    repo = get_pyrepo(ctx)
    mod = repo.module(HT)
    fn = repo.func(HT, "HasTraits.sync_trait")
    ps = [a.arg for a in fn.args.args]
    # the per-trait link table: the local bound to
    # `<info>.setdefault(trait_name, {})` / `<info>[trait_name]`; the store
    # of a link is a subscript assignment into it
    tables = set()
    for a in ast.walk(fn):
        if isinstance(a, ast.Assign) and len(a.targets) == 1 \
                and isinstance(a.targets[0], ast.Name):
            t = norm(a.value)
            if (".setdefault(" in t or ".get(" in t or "[" in t) \
                    and ps[1] in names_in(a.value) \
                    and "_get_sync_trait_info" not in t.split("(")[0]:
                tables.add(a.targets[0].id)
    stores = [n for n in ast.walk(fn) if isinstance(n, ast.Assign)
              and len(n.targets) == 1
              and isinstance(n.targets[0], ast.Subscript)
              and isinstance(n.targets[0].value, ast.Name)
              and n.targets[0].value.id in tables]
    res.instance("sync_trait:partner-store", mod.loc(fn), stores=len(stores))
    if not stores:
        raise AnalysisError("sync_trait: the store of a link into the "
                            "per-trait table was not found")
    for s in stores:
        v = s.value
        defs = [n.value for n in ast.walk(fn) if isinstance(n, ast.Assign)
                and isinstance(v, ast.Name)
                and any(isinstance(t, ast.Name) and t.id == v.id
                        for t in n.targets)]
        exprs = defs or [v]
        ok = all(ps[2] not in (names_in(x) - _weak_args(x, ps[2]))
                 for x in exprs)
        res.oblige(ok, "sync_trait:strong-partner", mod.loc(s),
                   f"the link table stores `{norm(exprs[0])}`, which keeps "
                   f"the partner object alive")
        res.oblige(any("weakref.ref(" + ps[2] in norm(x) for x in exprs),
                   "sync_trait:weakref", mod.loc(s),
                   "the partner is not stored as weakref.ref(object, callback)")
    # the callback removes entries whose ref is the dead one
    cb = [n for n in ast.walk(fn) if isinstance(n, ast.FunctionDef)]
    ok = False
    for c in cb:
        cps = [a.arg for a in c.args.args]
        tests = [norm(n.test) for n in ast.walk(c) if isinstance(n, ast.If)]
        dels = [norm(d.targets[0]) for d in ast.walk(c)
                if isinstance(d, ast.Delete)]
        if any(t.startswith(f"{cps[0]} is ") for t in tests) and dels:
            ok = True
    res.oblige(ok, "sync_trait:death-callback", mod.loc(fn),
               "the weakref callback does not delete the dead partner's "
               "entries by identity of the reference")
    # a weakly held partner may be gone by the time a propagation handler
    # gets to it (the handlers walk a snapshot of the links, and an earlier
    # partner's handler can drop the last reference): the dereferenced
    # partner is compared with None before anything is done with it
    from ..pyfacts import normalize_guards
    n_deref = 0
    for meth in ("_sync_trait_modified", "_sync_trait_items_modified"):
        hf = normalize_guards(repo.inlined(HT, f"HasTraits.{meth}"))
        par = {}
        for p_ in ast.walk(hf):
            for c in ast.iter_child_nodes(p_):
                par[id(c)] = p_
        for loop in [n for n in ast.walk(hf) if isinstance(n, ast.For)]:
            lvars = set(names_in(loop.target))
            derefs = [a for a in ast.walk(loop) if isinstance(a, ast.Assign)
                      and isinstance(a.value, ast.Call) and not a.value.args
                      and isinstance(a.value.func, ast.Name)
                      and a.value.func.id in lvars
                      and isinstance(a.targets[0], ast.Name)]
            for d in derefs:
                v = d.targets[0].id
                n_deref += 1
                res.instance(f"{meth}:deref:{v}", mod.loc(d))
                bad = None
                for u in ast.walk(loop):
                    used = (isinstance(u, ast.Attribute)
                            and isinstance(u.value, ast.Name)
                            and u.value.id == v) or (
                        isinstance(u, ast.Call) and u is not d.value
                        and any(isinstance(a, ast.Name) and a.id == v
                                for a in u.args))
                    if not used or getattr(u, "lineno", 0) < d.lineno:
                        continue
                    ok = False
                    child, p_ = u, par.get(id(u))
                    while p_ is not None and p_ is not loop:
                        if isinstance(p_, ast.If):
                            t = norm(p_.test)
                            inb = any(child is s_ for s_ in p_.body)
                            ine = any(child is s_ for s_ in p_.orelse)
                            if (inb and f"{v} is not None" in t) \
                                    or (ine and t == f"{v} is None"):
                                ok = True
                        child, p_ = p_, par.get(id(p_))
                    if not ok and bad is None:
                        bad = u
                res.oblige(bad is None, f"{meth}:dead-partner", mod.loc(d),
                           f"{meth} dereferences the weakly held partner "
                           f"(`{norm(d)}`) and uses it "
                           f"(`{norm(bad)[:50] if bad is not None else ''}`) "
                           f"without comparing it with None: a partner that "
                           f"died while an earlier partner's handler ran is "
                           f"still in the snapshot of the links - the "
                           f"AttributeError leaves the propagation lock set "
                           f"and every later update from a partner is dropped")
    if n_deref < 2:
        raise AnalysisError("dereference of the weak partner not found in the "
                            "propagation handlers")
    res.floor(1)


def _weak_args(expr, name):
    """names that occur only as the first argument of weakref.ref(...) or
    inside id(...)"""
    ok = set()
    strong = False
    for n in ast.walk(expr):
        if isinstance(n, ast.Name) and n.id == name:
            pass
    # collect occurrences of `name` and check each one's parent
    parents = {}
    for p in ast.walk(expr):
        for c in ast.iter_child_nodes(p):
            parents[id(c)] = p
    for n in ast.walk(expr):
        if isinstance(n, ast.Name) and n.id == name:
            p = parents.get(id(n))
            if isinstance(p, ast.Call) and norm(p.func) in ("weakref.ref",
                                                            "id") \
                    and p.args and p.args[0] is n:
                continue
            strong = True
    return set() if strong else {name}



@rule("C20.mutual-removal", ["C20"],
      "removing a mutual link always removes the partner's half too: inside "
      "the remove branch of sync_trait the reverse call depends on `mutual` "
      "alone, not on what this side's table still contains")
def mutual_removal(ctx, res):
    repo = get_pyrepo(ctx)
    mod = repo.module(HT)
    fn = repo.func(HT, "HasTraits.sync_trait")
    ps = [a.arg for a in fn.args.args]
    rm_ifs = [n for n in fn.body if isinstance(n, ast.If)
              and norm(n.test) == "remove"]
    if not rm_ifs:
        raise AnalysisError("sync_trait: `if remove:` branch not found")
    blk = rm_ifs[0]
    par = {}
    for p_ in ast.walk(blk):
        for c_ in ast.iter_child_nodes(p_):
            par[id(c_)] = p_
    calls = [c for c in ast.walk(blk) if isinstance(c, ast.Call)
             and isinstance(c.func, ast.Attribute)
             and c.func.attr == "sync_trait"]
    res.instance("sync_trait:remove", mod.loc(blk), reverse_calls=len(calls))
    if not res.oblige(len(calls) == 1, "sync_trait:remove:reverse-call",
                      mod.loc(blk), "the remove branch does not call the "
                      "partner's sync_trait(..., remove=True) exactly once"):
        return
    c = calls[0]
    guards = []
    node = c
    while id(node) in par:
        up = par[id(node)]
        if isinstance(up, ast.If) and up is not blk:
            guards.append(norm(up.test))
        node = up
    res.oblige(guards == ["mutual"], "sync_trait:remove:reverse-unconditional",
               mod.loc(c),
               f"the reverse removal is guarded by {guards}: it must depend "
               f"on `mutual` alone - if this side's entry is already gone "
               f"(one-way removal earlier, link created from the partner's "
               f"side) the partner keeps propagating after the link was "
               f"removed")
    args = [norm(a) for a in c.args]
    res.oblige(len(args) >= 5 and args[4] == "True" and args[3] == "False"
               and args[1] == ps[0],
               "sync_trait:remove:reverse-args", mod.loc(c),
               f"reverse call is sync_trait({', '.join(args)}); expected "
               f"(alias, self, trait_name, False, True)")
    res.floor(1)


# ---------------------------------------------------------------------------
# C20.items-index-kinds: the `index` of a list-items event is an int for
# contiguous changes and a `slice` for extended-slice assignments/deletions
# (that is what TraitList.__setitem__/__delitem__ pass to notify, see C05).
# A consumer that replays the event on another list must not do arithmetic on
# the index (or use it as a slice bound) on a path that has not excluded the
# slice kind.

def _producers_emit_slices(repo):
    """the producer side: TraitList normalises keys into int-or-slice
    indices (`_normalize_slice_or_index` builds slices) and notifies"""
    rel = "traits/trait_list_object.py"
    mod = repo.module(rel)
    # some function of the module hands out a freshly built `slice(...)`
    # (whatever the normaliser is called or split into)
    builds = any(
        isinstance(c, ast.Call) and norm(c.func) == "slice"
        for r in ast.walk(mod.tree) if isinstance(r, ast.Return)
        and r.value is not None for c in ast.walk(r.value))
    notifies = any(isinstance(c, ast.Call) and isinstance(c.func, ast.Attribute)
                   and c.func.attr == "notify" for c in ast.walk(mod.tree))
    return builds and notifies


@rule("C20.items-index-kinds", ["C20", "C05"],
      "a handler that replays a list-items event on another list treats both "
      "kinds of `event.index` (int and, for extended slices, slice): no "
      "arithmetic on the index and no use as a slice bound on a path that "
      "has not tested it for being a slice")
def items_index_kinds(ctx, res):
    from ..cfg import enumerate_paths
    from ..pycfg import build_cfg
    repo = get_pyrepo(ctx)
    if not _producers_emit_slices(repo):
        raise AnalysisError("trait_list_object: slice-index producer not found")
    n = 0
    for rel, mod in sorted(repo.modules.items()):
        if "/tests/" in rel or ".index" not in mod.src:
            continue
        for qual, fn in sorted(mod.functions.items()):
            params = [a.arg for a in fn.args.args]
            evs = [p for p in params if p == "event"]
            if not evs or not qual.split(".")[-1].endswith("items_modified"):
                continue
            ev = evs[0]
            # locals holding the index
            holders = {f"{ev}.index"}
            for a in ast.walk(fn):
                if isinstance(a, ast.Assign) and norm(a.value) in holders:
                    for t in a.targets:
                        if isinstance(t, ast.Name):
                            holders.add(t.id)
            from ..pyfacts import lower_ifexp_assign
            fn = lower_ifexp_assign(fn)
            # flag locals: `is_slice = isinstance(index, slice)`
            sflags = {}
            for a in ast.walk(fn):
                if isinstance(a, ast.Assign) and len(a.targets) == 1 \
                        and isinstance(a.targets[0], ast.Name) \
                        and isinstance(a.value, ast.Call) \
                        and norm(a.value.func) == "isinstance" \
                        and norm(a.value.args[0]) in holders \
                        and "slice" in norm(a.value.args[1]):
                    sflags[a.targets[0].id] = True
            g = build_cfg(fn, qual)
            bad = None
            uses = 0
            for path in enumerate_paths(g, max_paths=5000):
                not_slice = False
                for nid, lab in path:
                    nd = g.nodes[nid]
                    a = nd.ast
                    if a is None:
                        continue
                    if nd.kind == "cond":
                        t = a
                        if (isinstance(t, ast.Name) and t.id in sflags) or (
                                isinstance(t, ast.Call) and norm(t.func) ==
                                "isinstance" and norm(t.args[0]) in holders
                                and "slice" in norm(t.args[1])):
                            if lab == "F":
                                not_slice = True
                            elif lab == "T":
                                not_slice = "is-slice"
                        continue
                    for x in ast.walk(a):
                        arith = isinstance(x, ast.BinOp) and (
                            norm(x.left) in holders or norm(x.right) in holders)
                        bound = isinstance(x, ast.Slice) and any(
                            b is not None and norm(b) in holders
                            for b in (x.lower, x.upper))
                        if arith or bound:
                            uses += 1
                            if not_slice is not True and bad is None:
                                bad = x
            if not uses:
                continue
            n += 1
            key = f"{rel.split('/')[-1]}:{qual}"
            res.instance(key, mod.loc(fn))
            res.oblige(bad is None, key + ":slice-index",
                       mod.loc(bad) if bad is not None else mod.loc(fn),
                       f"`{norm(bad)[:60] if bad is not None else ''}` uses "
                       f"the event index as a number on a path that has not "
                       f"excluded a slice: for an extended-slice assignment "
                       f"or deletion (`l[::2] = ...`, `del l[::2]`) the "
                       f"handler raises TypeError and the synchronised lists "
                       f"diverge")
    res.floor(1)


# ---------------------------------------------------------------------------
# C20.link-table-snapshot: the propagation handlers run user code for every
# partner (the partner's validators and handlers).  That code may unlink a
# partner or let one be collected, which deletes entries of the very table
# being walked: the loop must walk a snapshot, or the walk dies with
# RuntimeError after the first partner, the remaining partners never get the
# value and the re-entrancy lock stays set.

@rule("C20.link-table-snapshot", ["C20"],
      "the propagation handlers iterate over a snapshot of the link table: "
      "unlinking or collecting a partner from inside a partner's handler "
      "must not abort the propagation to the remaining partners")
def link_table_snapshot(ctx, res):
    from ..pyfacts import expand_locals
    repo = get_pyrepo(ctx)
    HTREL = "traits/has_traits.py"
    mod = repo.module(HTREL)
    n = 0
    for q in ("HasTraits._sync_trait_modified",
              "HasTraits._sync_trait_items_modified"):
        fn = repo.inlined(HTREL, q)
        # the link table: what sync_trait registers under the trait name
        loops = [l for l in ast.walk(fn) if isinstance(l, ast.For)
                 and any(isinstance(c, ast.Call)
                         and norm(c.func) in ("setattr", "getattr")
                         for c in ast.walk(ast.Module(l.body, [])))]
        if len(loops) != 1:
            raise AnalysisError(f"{q}: propagation loop not recognised")
        lp = loops[0]
        it = expand_locals(fn, lp.iter)
        t = norm(it)
        snap = isinstance(it, ast.Call) and (
            norm(it.func) in ("list", "tuple", "sorted")
            or (isinstance(it.func, ast.Attribute) and it.func.attr == "copy")
            or norm(it.func) == "copy.copy")
        n += 1
        res.instance(q, mod.loc(lp), iterates=t)
        res.oblige(snap, f"{q.split('.')[-1]}:live-iteration", mod.loc(lp),
                   f"the propagation loop walks `{t}` itself while each "
                   f"iteration runs the partner's validators and handlers: "
                   f"when one of them unlinks a partner (or the last "
                   f"reference to one goes away) the table changes size, the "
                   f"walk raises RuntimeError, the remaining partners are "
                   f"skipped and the lock entry is never removed")
    res.floor(2)


# ---------------------------------------------------------------------------
# C20.list-kind-resolved: whether the `_items` handlers are installed is
# decided by `_is_list_trait` on both ends.  The kind that matters is that of
# the trait which finally validates and stores the value, i.e. after
# delegation has been resolved (`base_trait`): `trait()` of a DelegatesTo
# attribute is the deferring trait, whose handler is not a List.

@rule("C20.list-kind-resolved", ["C20"],
      "sync_trait decides on installing the list-items handlers from the "
      "delegation-resolved trait (base_trait) of both ends")
def list_kind_resolved(ctx, res):
    from ..pyfacts import expand_locals
    repo = get_pyrepo(ctx)
    HTREL = "traits/has_traits.py"
    mod = repo.module(HTREL)
    fn = repo.inlined(HTREL, "HasTraits._is_list_trait")
    res.instance("_is_list_trait", mod.loc(fn))
    srcs = []
    for a in ast.walk(fn):
        if isinstance(a, ast.Attribute) and a.attr == "handler" \
                and isinstance(a.ctx, ast.Load):
            srcs.append(expand_locals(fn, a.value))
    if not srcs:
        raise AnalysisError("_is_list_trait: handler read not found")
    okk = all(isinstance(v, ast.Call) and isinstance(v.func, ast.Attribute)
              and v.func.attr == "base_trait" for v in srcs)
    res.oblige(okk, "_is_list_trait:resolved", mod.loc(fn),
               f"the list kind is read from `{norm(srcs[0])[:60]}`: for a "
               f"delegated list attribute that is the deferring trait, the "
               f"items handlers are not installed and in-place mutations do "
               f"not propagate")
    st = repo.inlined(HTREL, "HasTraits.sync_trait")
    ps = [a.arg for a in st.args.args]
    calls = [c for c in ast.walk(st) if isinstance(c, ast.Call)
             and isinstance(c.func, ast.Attribute)
             and c.func.attr in ("_is_list_trait", "base_trait")
             and norm(c.func.value) in (ps[0], ps[2])]
    ends = {norm(c.func.value) for c in calls}
    res.instance("sync_trait:is_list", mod.loc(st), ends=sorted(ends))
    res.oblige(ends == {ps[0], ps[2]}, "sync_trait:both-ends", mod.loc(st),
               f"the list kind is tested on {sorted(ends)} only; both "
               f"`{ps[0]}` and `{ps[2]}` must be list traits for item-wise "
               f"propagation")
    res.floor(2)


# ---------------------------------------------------------------------------
# C20.mutual-always: a mutual link request always reaches the reverse half

@rule("C20.mutual-always", ["C20"],
      "when a link is added with mutual=True, every path of sync_trait that "
      "returns normally has asked the partner for the reverse link: no early "
      "exit ('already linked') may come before it - the forward half can "
      "exist alone (one-way link made mutual later, reverse half removed and "
      "re-added)")
def mutual_always(ctx, res):
    from ..cfg import enumerate_paths
    from ..pycfg import build_cfg
    from ..pyfacts import atomic_facts
    repo = get_pyrepo(ctx)
    mod = repo.module(HT)
    fn = repo.inlined(HT, "HasTraits.sync_trait", keep=("sync_trait",))
    ps = [a.arg for a in fn.args.args]      # self, trait_name, object, alias, mutual, remove
    mutual, remove = ps[4], ps[5]
    g = build_cfg(fn, "sync_trait")
    n_add = 0
    bad = None
    for path in enumerate_paths(g, max_paths=20000):
        if path and g.nodes[path[-1][0]].id == g.raise_exit.id:
            continue
        facts = set()
        reverse = False
        for nid, lab in path:
            nd = g.nodes[nid]
            if nd.ast is None:
                continue
            if nd.kind == "cond" and lab in ("T", "F"):
                facts |= atomic_facts(fn, nd.ast, lab == "T")
                continue
            for c in ast.walk(nd.ast):
                if isinstance(c, ast.Call) and isinstance(c.func, ast.Attribute) \
                        and c.func.attr == "sync_trait" \
                        and norm(c.func.value) != ps[0]:
                    reverse = True
        if ("T", remove) in facts:
            continue
        n_add += 1
        if ("F", mutual) in facts:
            continue
        if not reverse and bad is None:
            bad = [g.nodes[nid].line for nid, lab in path
                   if g.nodes[nid].kind == "cond"]
    res.instance("HasTraits.sync_trait:add", mod.loc(fn), paths=n_add)
    if n_add == 0:
        raise AnalysisError("sync_trait: no add path found")
    res.oblige(bad is None, "sync_trait:add:reverse-link-skipped", mod.loc(fn),
               f"sync_trait(..., mutual=True) can return without asking the "
               f"partner for the reverse link (conditions at lines {bad}): "
               f"when the forward half already exists the pair stays "
               f"one-directional and changes of the partner never come back")
    res.floor(1)
