"""C12 (cached/observed properties), C14 (lifecycle agreement), C19
(notification suppression pairing)."""
from __future__ import annotations

import ast
import re

from ..ccfg import get_ccfg
from ..cfacts import CREL, get_cfacts
from ..core import AnalysisError, rule
from ..csym import feasible_paths
from ..pyfacts import (get_pyrepo, is_self_attr, is_self_call, names_in, norm)
from ..pyflow import PyFlow

HT = "traits/has_traits.py"
TR = "traits/traits.py"


# ---------------------------------------------------------------------------
# C12.key-chain

@rule("C12.key-chain", ["C12"],
      "the cache key written by @cached_property is the key the dependency "
      "observer pops, and the 'cached' flag reaches the observer")
def key_chain(ctx, res):
    repo = get_pyrepo(ctx)
    mod = repo.module(HT)
    # getter prefix used by the metaclass
    prefixes = set()
    for n in ast.walk(mod.tree):
        if isinstance(n, ast.Call) and norm(n.func) == "_property_method" \
                and len(n.args) == 2 and isinstance(n.args[1], ast.BinOp) \
                and isinstance(n.args[1].left, ast.Constant) \
                and str(n.args[1].left.value).startswith("_get"):
            prefixes.add(n.args[1].left.value)
    if len(prefixes) != 1:
        raise AnalysisError(f"getter prefix literal not found ({prefixes})")
    prefix = prefixes.pop()
    # 1. decorators write TraitsCache + function.__name__[len(prefix):]
    n_dec = 0
    from ..pyfacts import inline_nested
    for qual in ("cached_property", "property_depends_on"):
        fn = inline_nested(mod, repo.func(HT, qual))
        for a in ast.walk(fn):
            if isinstance(a, ast.Assign) and isinstance(a.value, ast.BinOp) \
                    and norm(a.value.left) == "TraitsCache" \
                    and isinstance(a.value.right, ast.Subscript):
                n_dec += 1
                sl = a.value.right.slice

                def _const_int(e, depth=0):
                    if isinstance(e, ast.Constant) and isinstance(e.value, int):
                        return e.value
                    if isinstance(e, ast.Call) and norm(e.func) == "len" \
                            and len(e.args) == 1 and isinstance(
                            e.args[0], ast.Constant) and isinstance(
                            e.args[0].value, str):
                        return len(e.args[0].value)
                    if isinstance(e, ast.Name) and depth < 3:
                        ds = [x.value for x in ast.walk(fn)
                              if isinstance(x, ast.Assign)
                              and any(isinstance(t, ast.Name) and t.id == e.id
                                      for t in x.targets)]
                        if len(ds) == 1:
                            return _const_int(ds[0], depth + 1)
                    return None
                start = _const_int(sl.lower) if isinstance(sl, ast.Slice) \
                    else None
                key = f"{qual}:cache-key"
                res.instance(key, mod.loc(a), expr=norm(a.value))
                res.oblige(norm(a.value.right.value).endswith(".__name__")
                           and start == len(prefix) and sl.upper is None,
                           key, mod.loc(a),
                           f"cache key is `{norm(a.value)}`; the getter "
                           f"prefix is {prefix!r} ({len(prefix)} characters), "
                           f"so the key would not be TraitsCache + "
                           f"<property name> and invalidation would pop a "
                           f"different key")
                keyvar = a.targets[0].id
                # the wrapper reads and writes that very key
                uses = [norm(s) for s in ast.walk(fn)
                        if isinstance(s, ast.Subscript)
                        and norm(s.value) == "self.__dict__"]
                gets = [norm(c) for c in ast.walk(fn) if isinstance(c, ast.Call)
                        and norm(c.func) == "self.__dict__.get"]
                res.oblige(any(f"[{keyvar}]" in u for u in uses)
                           and any(g.startswith(f"self.__dict__.get({keyvar},")
                                   for g in gets), f"{qual}:cache-use",
                           mod.loc(a), "the wrapper does not read and write "
                           "the cache under the computed key")
        marks = [s for s in ast.walk(fn) if isinstance(s, ast.Assign)
                 and norm(s.targets[0]).endswith(".cached_property")
                 and norm(s.value) == "True"]
        res.oblige(bool(marks), f"{qual}:mark", mod.loc(fn),
                   "the decorator does not mark the getter with "
                   ".cached_property = True")
    if n_dec < 2:
        raise AnalysisError("cache key assignments in decorators not found")
    # 2. Property() turns the mark into metadata 'cached'
    m2 = repo.module(TR)
    fn = repo.func(TR, "Property")
    ok = False
    for i in ast.walk(fn):
        if isinstance(i, ast.If) and norm(i.test) in (
                "getattr(fget, 'cached_property', False)",):
            for c in ast.walk(ast.Module(i.body, [])):
                if isinstance(c, ast.Call) and norm(c) == \
                        "metadata.setdefault('cached', True)":
                    ok = True
    res.instance("Property:cached-metadata", m2.loc(fn))
    res.oblige(ok, "Property:cached-metadata", m2.loc(fn),
               "Property() does not translate fget.cached_property into "
               "metadata 'cached'")
    # 3. the metaclass passes trait.cached and the trait name
    calls = [c for c in ast.walk(mod.tree) if isinstance(c, ast.Call)
             and norm(c.func) == "_create_property_observe_state"]
    res.instance("metaclass:observe-state", mod.loc(calls[0]) if calls else HT)
    ok = False
    for c in calls:
        kws = {k.arg: norm(k.value) for k in c.keywords}
        ok = kws.get("cached") == "trait.cached" \
            and kws.get("property_name") == "name" \
            and kws.get("observe") == "trait.observe"
    res.oblige(ok, "metaclass:observe-state", HT,
               "the observer state is not created with (observe="
               "trait.observe, property_name=name, cached=trait.cached)")
    # 3b. the state is rebuilt for *every* observed property of the class
    # being defined: whether it is built depends on the (final, possibly
    # migrated) trait alone, never on what a base class already recorded
    upd = repo.func(HT, "update_traits_class_dict")
    par = {}
    for p_ in ast.walk(upd):
        for c_ in ast.iter_child_nodes(p_):
            par[id(c_)] = p_
    for c in calls:
        node, guards, loop = c, [], None
        while id(node) in par:
            up = par[id(node)]
            if isinstance(up, ast.If):
                guards.append((up.test, node in up.body))
            if isinstance(up, (ast.For, ast.While)):
                loop = up
                break
            node = up
        if loop is None:
            continue
        # earlier statements of the loop body that can skip the iteration
        top = node
        for st in loop.body:
            if st is top:
                break
            for i in ast.walk(st):
                if isinstance(i, ast.If) and any(
                        isinstance(x, (ast.Continue, ast.Break, ast.Return))
                        for b in i.body + i.orelse for x in ast.walk(b)):
                    guards.append((i.test, None))
        loopvars = names_in(loop.target)
        tvar = [k.value for k in c.keywords if k.arg == "cached"]
        tname = tvar[0].value.id if tvar and isinstance(
            tvar[0], ast.Attribute) and isinstance(tvar[0].value, ast.Name) \
            else "trait"
        foreign = []
        for test, _ in guards:
            for n in ast.walk(test):
                if isinstance(n, ast.Name) and n.id != tname \
                        and n.id not in ("isinstance", "str", "None"):
                    foreign.append((n.id, norm(test)))
        res.instance("metaclass:observe-state-guard", mod.loc(c),
                     guards=[norm(t) for t, _ in guards])
        res.oblige(not foreign, "metaclass:observe-state-guard", mod.loc(c),
                   f"whether the dependency observer of a property is "
                   f"(re)built depends on `{foreign[0][0] if foreign else ''}`"
                   f" (in `{foreign[0][1][:70] if foreign else ''}`), not on "
                   f"the trait alone: a property whose definition changed in "
                   f"a subclass (getter overridden with @cached_property) "
                   f"keeps the base class's handler, which closes over the "
                   f"old `cached` flag and never pops the cache")
        store = par.get(id(c))
        while store is not None and not isinstance(store, ast.stmt):
            store = par.get(id(store))
        nxt = None
        if store is not None:
            body = par[id(store)].body if hasattr(par[id(store)], "body") \
                else []
            if store in body and body.index(store) + 1 < len(body):
                nxt = body[body.index(store) + 1]
        sv = store.targets[0].id if isinstance(store, ast.Assign) \
            and isinstance(store.targets[0], ast.Name) else None
        ok = nxt is not None and isinstance(nxt, ast.Assign) \
            and norm(nxt.targets[0]) == "observers[name]" \
            and sv is not None and sv in names_in(nxt.value)
        res.oblige(ok, "metaclass:observe-state-stored", mod.loc(c),
                   "the freshly built observer state is not stored as "
                   "observers[name] (replacing the inherited one)")
    # 4. the handler pops TraitsCache + property_name
    fn = repo.func(HT, "_create_property_observe_state")
    h = [f for f in ast.walk(fn) if isinstance(f, ast.FunctionDef)
         and f.name == "handler"]
    if not h:
        raise AnalysisError("_create_property_observe_state.handler missing")
    h = h[0]
    from ..pyfacts import inline_helpers as _inl

    class _Shim0:
        functions = dict(mod.functions)
        local_closures = set()
    for f_ in ast.walk(fn):
        if isinstance(f_, ast.FunctionDef) and f_ is not h and f_ is not fn:
            _Shim0.functions[f_.name] = f_
            _Shim0.local_closures.add(f_.name)
    h = _inl(_Shim0, None, h)
    keydef = [a for a in ast.walk(h) if isinstance(a, ast.Assign)
              and norm(a.value) == "TraitsCache + property_name"]
    if not keydef:
        # ... or written directly as the key of the pop (possibly in a local
        # closure of the factory that the handler calls)
        keydef = [c for c in ast.walk(fn) if isinstance(c, ast.Call)
                  and isinstance(c.func, ast.Attribute)
                  and c.func.attr == "pop"
                  and norm(c.func.value).endswith(".__dict__") and c.args
                  and norm(c.args[0]) == "TraitsCache + property_name"]
    res.instance("observe-handler:key", mod.loc(h))
    res.oblige(bool(keydef), "observe-handler:key", mod.loc(h),
               "the invalidation handler does not compute the key as "
               "TraitsCache + property_name")
    res.floor(5)


@rule("C12.pop-then-notify", ["C12", "C19"],
      "the dependency handler removes the cached value before announcing the "
      "property change and reports the removed value as old")
def pop_then_notify(ctx, res):
    repo = get_pyrepo(ctx)
    mod = repo.module(HT)
    fn = repo.func(HT, "_create_property_observe_state")
    h = [f for f in ast.walk(fn) if isinstance(f, ast.FunctionDef)
         and f.name == "handler"][0]
    # local closures of the factory that the handler calls are analysed in
    # place, and conditional expressions as the two cases they are
    from ..pyfacts import inline_helpers, lower_ifexp_assign

    class _Shim:
        functions = dict(mod.functions)
        local_closures = set()
    for f_ in ast.walk(fn):
        if isinstance(f_, ast.FunctionDef) and f_ is not h and f_ is not fn:
            _Shim.functions[f_.name] = f_
            _Shim.local_closures.add(f_.name)
    h = lower_ifexp_assign(inline_helpers(_Shim, None, h))
    inst = h.args.args[0].arg

    class F(PyFlow):
        def classify(s, e, node):
            if isinstance(e, ast.Call):
                f = norm(e.func)
                if f == f"{inst}.__dict__.pop":
                    return [("POP", False)]
                if f in (f"{inst}.__dict__.get", f"{inst}.__dict__.__getitem__"):
                    return [("GET", False)]
                if f == f"{inst}.trait_property_changed":
                    return [("NOTIFY", False)]
            return []

        def step(s, st, ev, e, node):
            popped, facts = st
            if ev == "POP":
                return (norm(e.args[0]) if e.args else "?", facts)
            if ev == "NOTIFY":
                if ("F", "cached") not in facts and popped is None:
                    s.flag(("notify-without-pop",),
                           "on the cached path trait_property_changed is "
                           "reached without the cache entry having been "
                           "popped: the next read returns the stale value")
                s.notifies.append((e, popped, facts))
            return st

        def assume(s, test, truth, st):
            popped, facts = st
            return (popped, facts | {("T" if truth else "F", norm(test))})
    fl = F(mod, h, "_create_property_observe_state.handler")
    fl.notifies = []
    fl.run((None, frozenset()))
    res.instance("observe-handler", mod.loc(h), notify_sites=len(fl.notifies))
    if not fl.notifies:
        raise AnalysisError("handler: trait_property_changed call not found")
    for k, msg, loc, path in fl.findings():
        res.violation("observe-handler:" + k[0], loc, msg, path)
    for e, popped, facts in fl.notifies:
        args = [norm(a) for a in e.args]
        res.oblige(args[:1] == ["property_name"], "observe-handler:name",
                   mod.loc(e), f"change announced for `{args[:1]}` instead "
                   f"of the property name")
    # the old value passed is what was popped
    pops = [a for a in ast.walk(h) if isinstance(a, ast.Assign)
            and isinstance(a.value, ast.Call)
            and norm(a.value.func) == f"{inst}.__dict__.pop"]
    old_vars = {a.targets[0].id for a in pops if isinstance(a.targets[0],
                                                            ast.Name)}
    res.oblige(bool(pops) and all(
        len(e.args) > 1 and norm(e.args[1]) in old_vars
        for e, _, _ in fl.notifies), "observe-handler:old", mod.loc(h),
        "the old value reported is not the popped cache entry")
    # legacy depends_on: pre_notify (priority) moves cache to ':old', notify
    # pops ':old'
    fn = repo.func(HT, "HasTraits._init_trait_property_listener")
    src = {a.targets[0].id: norm(a.value) for a in ast.walk(fn)
           if isinstance(a, ast.Assign) and isinstance(a.targets[0], ast.Name)}
    res.instance("_init_trait_property_listener", mod.loc(fn))
    res.oblige(src.get("cached_old") == "cached + ':old'",
               "legacy:old-key", mod.loc(fn), "':old' key not derived from "
               "the cache key")
    txt = [norm(s) for s in ast.walk(fn)]
    res.oblige("dict[cached_old] = dict.pop(cached, None)" in txt,
               "legacy:pre-notify", mod.loc(fn),
               "pre_notify must move the cached value to the ':old' key "
               "(pop, not copy)")
    res.oblige(any(t.startswith("old = self.__dict__.pop(cached_old")
                   for t in txt), "legacy:notify-pop", mod.loc(fn),
               "notify must pop the ':old' entry")
    regs = [c for c in ast.walk(fn) if is_self_call(c, "on_trait_change")]
    pre = [c for c in regs if c.args and norm(c.args[0]) == "pre_notify"]
    post = [c for c in regs if c.args and norm(c.args[0]) == "notify"]
    ok = (len(pre) == 1 and len(post) == 1
          and {k.arg: norm(k.value) for k in pre[0].keywords}.get("priority")
          == "True"
          and norm(pre[0].args[1]) == norm(post[0].args[1]))
    res.oblige(ok, "legacy:registration", mod.loc(fn),
               "pre_notify must be registered with priority=True on the same "
               "pattern as notify")
    res.floor(2)


# ---------------------------------------------------------------------------
# lifecycle

SKELETON = ["init-listeners", "init-observers", "state", "post-listeners",
            "post-observers", "traits-init", "inited"]
STEP_OF = {"_init_trait_listeners": "init-listeners",
           "_init_trait_observers": "init-observers",
           "trait_set": "state", "copy_traits": "state",
           "has_traits_setattro": "state",
           "_post_init_trait_listeners": "post-listeners",
           "_post_init_trait_observers": "post-observers",
           "traits_init": "traits-init",
           "_trait_set_inited": "inited"}
MANDATORY = {"init-observers", "post-observers", "traits-init", "inited"}


def _setstate_branches(fn):
    """(versioned, legacy): the statements, in execution order, of the
    fullest normal path of __setstate__ that (re)installs the listeners and
    of the fullest one that does not - whatever the shape of the version
    test (if/else, guard clause with an early return)"""
    from ..cfg import enumerate_paths
    from ..pycfg import build_cfg
    g_ = build_cfg(fn, "__setstate__")
    best = {True: [], False: []}
    for path in enumerate_paths(g_, max_paths=5000):
        if path and g_.nodes[path[-1][0]].id == g_.raise_exit.id:
            continue
        nodes = [g_.nodes[nid].ast for nid, lab in path
                 if g_.nodes[nid].ast is not None
                 and g_.nodes[nid].kind != "cond"
                 and isinstance(g_.nodes[nid].ast, ast.stmt)]
        versioned = any(is_self_call(c, "_init_trait_listeners")
                        for a_ in nodes for c in ast.walk(a_))
        if len(nodes) > len(best[versioned]):
            best[versioned] = nodes
    return best[True], best[False]


def _py_sequence(fn, recv):
    """ordered lifecycle steps called on ``recv`` in a statement list"""
    out = []
    for s in fn:
        for n in ast.walk(s):
            if isinstance(n, ast.Call) and isinstance(n.func, ast.Attribute) \
                    and norm(n.func.value) == recv \
                    and n.func.attr in STEP_OF:
                out.append((STEP_OF[n.func.attr], n))
    return out


def _check_order(res, key, seq, loc, require_state=True):
    names = [s for s, _ in seq]
    idx = [SKELETON.index(s) for s in names]
    res.oblige(idx == sorted(idx), key + ":order", loc,
               f"lifecycle steps run as {names}; the creation sequence is "
               f"{SKELETON} (observers/listeners must be installed before "
               f"state is assigned, post-init ones after)")
    need = set(MANDATORY) | {"init-listeners", "post-listeners"} \
        | ({"state"} if require_state else set())
    res.oblige(need <= set(names), key + ":complete", loc,
               f"lifecycle misses {sorted(need - set(names))}")
    res.oblige(len(names) == len(set(names)), key + ":once", loc,
               f"a lifecycle step is repeated: {names}")


@rule("C14.lifecycle", ["C14", "C12", "C16"],
      "construction (C), unpickling and cloning run the same ordered "
      "lifecycle: init listeners/observers, state, post-init, traits_init, "
      "inited")
def lifecycle(ctx, res):
    repo = get_pyrepo(ctx)
    mod = repo.module(HT)
    # ---- C: has_traits_init ---------------------------------------------
    facts = get_cfacts(ctx)
    g = get_ccfg(ctx, facts, "has_traits_init")
    inited = facts.macro_int("HASTRAITS_INITED")
    n_ok = 0
    longest = []
    for p in feasible_paths(g):
        if p.outcome != ("RETURN", "0"):
            continue
        n_ok += 1
        seq = []
        for e in p.events:
            if e[0] == "PyObject_CallMethod" and len(e[1]) >= 2:
                m = e[1][1].strip('"')
                if m in STEP_OF:
                    seq.append((STEP_OF[m], e[3]))
            elif e[0] == "has_traits_setattro":
                if not seq or seq[-1][0] != "state":
                    seq.append(("state", e[3]))
        flags = [v for k, v in p.env.items() if k.endswith("->flags")]
        if flags and re.search(rf"\| {inited}\)", flags[0]):
            seq.append(("inited", p.lines[-1]))
        names = [s for s, _ in seq]
        if len(names) > len(longest):
            longest = names
        idx = [SKELETON.index(s) for s in names]
        res.oblige(idx == sorted(idx) and MANDATORY <= set(names),
                   "has_traits_init:sequence", f"{CREL}:{p.lines[-1]}",
                   f"a successful construction path runs {names}; expected a "
                   f"subsequence of {SKELETON} containing {sorted(MANDATORY)}",
                   [f"{CREL}:{l}" for l in dict.fromkeys(p.lines) if l])
        # the two halves of the legacy-listener set-up are guarded by the
        # same class-level flag: a path that runs one runs the other
        res.oblige(("init-listeners" in names) == ("post-listeners" in names),
                   "has_traits_init:listener-halves", f"{CREL}:{p.lines[-1]}",
                   f"a successful construction path runs {names}: "
                   f"_init_trait_listeners and _post_init_trait_listeners "
                   f"must run together (post_init=True handlers of "
                   f"on_trait_change would never be hooked up / be hooked up "
                   f"without their pre-init half)",
                   [f"{CREL}:{l}" for l in dict.fromkeys(p.lines) if l])
    res.instance("has_traits_init", facts.loc(facts.func("has_traits_init")),
                 successful_paths=n_ok, fullest=longest)
    if n_ok == 0 or (longest != SKELETON and not res.findings):
        raise AnalysisError(f"has_traits_init: full sequence not recognised "
                            f"({longest})")
    # ---- Python: __setstate__ (versioned branch) ---------------------------
    fn = repo.func(HT, "HasTraits.__setstate__")
    selfn = fn.args.args[0].arg
    new_style, legacy = _setstate_branches(fn)
    if not new_style or not legacy:
        raise AnalysisError("__setstate__: version branch missing")
    seq = _py_sequence(new_style, selfn)
    res.instance("HasTraits.__setstate__", mod.loc(fn),
                 steps=[s for s, _ in seq])
    _check_order(res, "HasTraits.__setstate__", seq, mod.loc(fn))
    old_style = _py_sequence(legacy, selfn)
    res.oblige("inited" in [s for s, _ in old_style],
               "HasTraits.__setstate__:legacy-inited", mod.loc(fn),
               "the pre-3.0 branch does not mark the object as inited")
    # ---- Python: clone_traits ----------------------------------------------
    fn = repo.func(HT, "HasTraits.clone_traits")
    news = [a.targets[0].id for a in ast.walk(fn) if isinstance(a, ast.Assign)
            and isinstance(a.value, ast.Call)
            and norm(a.value.func).endswith(".__new__")]
    if len(news) != 1:
        raise AnalysisError("clone_traits: `new = self.__new__(...)` missing")
    seq = _py_sequence(fn.body, news[0])
    res.instance("HasTraits.clone_traits", mod.loc(fn),
                 steps=[s for s, _ in seq])
    _check_order(res, "HasTraits.clone_traits", seq, mod.loc(fn))
    rets = [r for r in ast.walk(fn) if isinstance(r, ast.Return)]
    res.oblige(bool(rets) and all(norm(r.value) == news[0] for r in rets),
               "HasTraits.clone_traits:returns-new", mod.loc(fn),
               "clone_traits does not return the new object")
    # property observers are not post_init (they must see the state arrive)
    st = repo.func(HT, "_create_property_observe_state")
    d = [n for n in ast.walk(st) if isinstance(n, ast.Call)
         and norm(n.func) == "dict"]
    kws = {k.arg: norm(k.value) for c in d for k in c.keywords}
    for n in ast.walk(st):
        if isinstance(n, ast.Dict):
            for k, v in zip(n.keys, n.values):
                if isinstance(k, ast.Constant) and isinstance(k.value, str):
                    kws.setdefault(k.value, norm(v))
    res.instance("_create_property_observe_state", mod.loc(st))
    res.oblige(kws.get("post_init") == "False",
               "property-observers:pre-state", mod.loc(st),
               "property dependency observers must be installed before state "
               "is assigned (post_init=False), otherwise a cache filled "
               "during state restoration is never invalidated")
    # _init_trait_observers handles exactly the not-post_init states
    for meth, want in (("_init_trait_observers", "not state['post_init']"),
                       ("_post_init_trait_observers", "state['post_init']")):
        f2 = repo.inlined(HT, f"HasTraits.{meth}")
        from ..cfg import enumerate_paths
        from ..pycfg import build_cfg
        g2 = build_cfg(f2, meth)
        want_true = not want.startswith("not ")
        seen_pol = set()
        for path in enumerate_paths(g2, max_paths=5000):
            pol = None
            for nid, lab in path:
                nd = g2.nodes[nid]
                a = nd.ast
                if a is None:
                    continue
                if nd.kind == "cond":
                    if lab in ("T", "F") and "post_init" in norm(a):
                        vt, vf = _post_init_test(a, True), _post_init_test(a, False)
                        if vt is not None and vf is not None and vt != vf:
                            pol = True if vt == (lab == "T") else False
                    continue
                if nd.kind in ("fornext", "foriter"):
                    if nd.kind == "fornext":
                        pol = None      # next state: nothing tested yet
                    continue
                if any(isinstance(c, ast.Call) and norm(c.func).endswith(
                        "apply_observers") for c in ast.walk(a)):
                    seen_pol.add(pol)
        if not seen_pol:
            raise AnalysisError(f"{meth}: apply_observers not reached")
        res.oblige(seen_pol == {want_true}, f"{meth}:selector", mod.loc(f2),
                   f"{meth} installs observers for states whose "
                   f"`post_init` is {sorted(map(str, seen_pol))} (None = "
                   f"untested); expected exactly [{want}]")
    res.floor(4)


def _post_init_test(e, p):
    """truth value of a test over `state['post_init']` when that entry is
    truthy (p=True) / falsy (p=False); None when not determined"""
    if isinstance(e, ast.Subscript) and norm(e).endswith("['post_init']"):
        return p
    if isinstance(e, ast.Constant) and isinstance(e.value, bool):
        return e.value
    if isinstance(e, ast.Call) and norm(e.func) == "bool" and len(e.args) == 1:
        return _post_init_test(e.args[0], p)
    if isinstance(e, ast.UnaryOp) and isinstance(e.op, ast.Not):
        v = _post_init_test(e.operand, p)
        return None if v is None else not v
    if isinstance(e, ast.Compare) and len(e.ops) == 1 and isinstance(
            e.ops[0], (ast.Is, ast.IsNot, ast.Eq, ast.NotEq)):
        l = _post_init_test(e.left, p)
        r = _post_init_test(e.comparators[0], p)
        if l is None or r is None:
            return None
        # identity with a bool constant is only meaningful for bool(...)
        same = (l == r)
        return same if isinstance(e.ops[0], (ast.Is, ast.Eq)) else not same
    return None


@rule("C14.through-traits", ["C14"],
      "restored and copied state is assigned through the trait machinery "
      "(validated, containers re-wrapped and bound to the new owner)")
def through_traits(ctx, res):
    repo = get_pyrepo(ctx)
    mod = repo.module(HT)
    fn = repo.func(HT, "HasTraits.__setstate__")
    # the versioned restore path is the one that (re)installs the listeners,
    # whatever the shape of the version test (if/else, guard clause)
    from ..cfg import enumerate_paths
    from ..pycfg import build_cfg
    g_ = build_cfg(fn, "__setstate__")
    stmts = []
    for path in enumerate_paths(g_, max_paths=5000):
        if path and g_.nodes[path[-1][0]].id == g_.raise_exit.id:
            continue
        nodes = [g_.nodes[nid].ast for nid, lab in path
                 if g_.nodes[nid].ast is not None
                 and g_.nodes[nid].kind != "cond"]
        if any(is_self_call(c, "_init_trait_listeners")
               for a_ in nodes for c in ast.walk(a_)):
            for a_ in nodes:
                if isinstance(a_, ast.stmt) and not any(a_ is x for x in stmts):
                    stmts.append(a_)
    if not stmts:
        raise AnalysisError("__setstate__: versioned restore path not found")
    new_style = ast.Module(stmts, [])
    raw = [n for n in ast.walk(new_style) if isinstance(n, ast.Call)
           and norm(n.func).endswith("__dict__.update")]
    sets = [n for n in ast.walk(new_style) if is_self_call(n, "trait_set")]
    res.instance("HasTraits.__setstate__:state", mod.loc(fn))
    res.oblige(not raw, "__setstate__:raw-update", mod.loc(fn),
               "the versioned restore path writes the state straight into "
               "__dict__: values are not validated and containers stay bound "
               "to the pickled owner")
    ok = len(sets) == 1 and any(k.arg is None and norm(k.value) == "state"
                                for k in sets[0].keywords)
    res.oblige(ok, "__setstate__:trait_set", mod.loc(fn),
               "the versioned restore path must assign the state with "
               "self.trait_set(**state)")
    # ... with change notification on when called the way pickle calls it
    # (`obj.__setstate__(state)`): observers that reach *through* a restored
    # value (child.value, items) are hooked by these very change events
    defaults = {}
    pos = fn.args.args
    for a, d in zip(pos[len(pos) - len(fn.args.defaults):], fn.args.defaults):
        defaults[a.arg] = d
    for c in [n for n in ast.walk(fn) if is_self_call(n, "trait_set")]:
        for k in c.keywords:
            if k.arg != "trait_change_notify":
                continue
            v = k.value
            if isinstance(v, ast.Name) and v.id in defaults:
                v = defaults[v.id]
            res.oblige(isinstance(v, ast.Constant) and v.value is True,
                       "__setstate__:notify-on-restore", mod.loc(c),
                       f"__setstate__(state) restores the values with "
                       f"trait_change_notify={norm(v)}: the assignments are "
                       f"silent, so observers / property dependencies that "
                       f"reach through a restored value (`child.value`, "
                       f"`items`) are never hooked on the unpickled object")
    # copy_traits assigns with setattr(self, name, value)
    from ..pyfacts import inline_helpers
    fn = inline_helpers(mod, repo.cls(HT, "HasTraits"),
                        repo.func(HT, "HasTraits.copy_traits"))
    sets = [c for c in ast.walk(fn) if isinstance(c, ast.Call)
            and norm(c.func) == "setattr"]
    res.instance("HasTraits.copy_traits", mod.loc(fn), assignments=len(sets))
    res.oblige(len(sets) >= 2 and all(
        [norm(a) for a in c.args] == ["self", "name", "value"] for c in sets),
        "copy_traits:setattr", mod.loc(fn),
        "copy_traits must assign with setattr(self, name, value)")
    raw = [n for n in ast.walk(fn) if isinstance(n, ast.Subscript)
           and isinstance(n.ctx, ast.Store)
           and norm(n.value) == "self.__dict__"]
    res.oblige(not raw, "copy_traits:raw", mod.loc(fn),
               "copy_traits writes into self.__dict__ directly")
    # delegates and properties are copied last (their targets first): the
    # deferral is decided on the trait *as declared* - `.trait(name)` - not
    # on base_trait(), which resolves a delegate to its target's trait
    dtests = [n for n in ast.walk(fn) if isinstance(n, ast.Compare)
              and len(n.ops) == 1 and isinstance(n.ops[0], ast.In)
              and norm(n.comparators[0]) == "DeferredCopy"]
    if not dtests:
        raise AnalysisError("copy_traits: DeferredCopy test not found")
    ldefs = {}
    for a in ast.walk(fn):
        if isinstance(a, ast.Assign) and len(a.targets) == 1 \
                and isinstance(a.targets[0], ast.Name):
            ldefs.setdefault(a.targets[0].id, []).append(a.value)
    for t in dtests:
        e = t.left
        chain = norm(e)
        for _ in range(4):
            names = [x.id for x in ast.walk(e) if isinstance(x, ast.Name)
                     and x.id in ldefs]
            if not names:
                break
            e = ldefs[names[0]][0]
            chain += " <- " + norm(e)
        res.oblige(".trait(" in chain and ".base_trait(" not in chain,
                   "copy_traits:deferred-on-declared-trait", mod.loc(t),
                   f"the deferred-copy decision is taken on `{chain[:90]}`: "
                   f"it must look at the declared trait (`.trait(name).type`)"
                   f"; base_trait() resolves a delegate to its target, so "
                   f"delegates are copied before their targets and a locally "
                   f"overridden PrototypedFrom value is silently lost")
    # deep copy mode honoured: value passes through copy_module.deepcopy on
    # the deep path
    deep = [c for c in ast.walk(fn) if isinstance(c, ast.Call)
            and norm(c.func) == "copy_module.deepcopy"]
    # ... including through private module-level helpers it calls
    for c in ast.walk(fn):
        if isinstance(c, ast.Call) and isinstance(c.func, ast.Name) \
                and c.func.id.startswith("_") and c.func.id in mod.functions:
            deep += [d for d in ast.walk(mod.functions[c.func.id])
                     if isinstance(d, ast.Call)
                     and norm(d.func) == "copy_module.deepcopy"]
    res.oblige(len(deep) >= 2, "copy_traits:deepcopy", mod.loc(fn),
               "copy_traits lost a deepcopy path")
    # __getstate__ drops transient traits; __reduce_ex__ uses __getstate__
    fn = repo.func(HT, "HasTraits.__getstate__")
    gets = [c for c in ast.walk(fn) if is_self_call(c, "trait_get")]
    res.instance("HasTraits.__getstate__", mod.loc(fn))
    res.oblige(any({k.arg: norm(k.value) for k in c.keywords}.get("transient")
                   == "is_none" for c in gets), "__getstate__:transient",
               mod.loc(fn), "__getstate__ does not filter out transient "
               "traits (transient=is_none)")
    # __setstate__ replays the state in dictionary order through trait_set:
    # locally overridden delegate values must come after the ordinary traits
    # (the delegate object they are assigned through is one of those).
    # Forward taint over the statement list: what derives from the
    # `type='delegate'` query, and where it is merged into the state.
    def _is_delegate_query(n):
        return isinstance(n, ast.Call) and any(
            k.arg == "type" and norm(k.value) == "'delegate'"
            for k in n.keywords)

    def _idx(pred):
        for i, st in enumerate(fn.body):
            if any(pred(n) for n in ast.walk(st)):
                return i
        return None
    i_get = _idx(lambda n: is_self_call(n, "trait_get")
                 and not _is_delegate_query(n))
    i_q = _idx(_is_delegate_query)
    if i_get is None or i_q is None:
        raise AnalysisError("__getstate__: trait_get / delegate sources "
                            "not found")
    base = fn.body[i_get]
    rvar = base.targets[0].id if isinstance(base, ast.Assign) and isinstance(
        base.targets[0], ast.Name) else None
    if rvar is None and isinstance(base, ast.Expr) and isinstance(
            base.value, ast.Call) and isinstance(base.value.func,
                                                 ast.Attribute) \
            and base.value.func.attr == "update" \
            and isinstance(base.value.func.value, ast.Name):
        rvar = base.value.func.value.id
    dict_vars = {a.targets[0].id for a in ast.walk(fn)
                 if isinstance(a, ast.Assign) and len(a.targets) == 1
                 and isinstance(a.targets[0], ast.Name)
                 and norm(a.value).endswith(".__dict__")}
    tainted = set()
    region = []          # statements that handle delegate-derived data
    i_merge = None
    single_expr = False
    for i, st in enumerate(fn.body):
        mentions = any(_is_delegate_query(n) for n in ast.walk(st)) or any(
            isinstance(n, ast.Name) and n.id in tainted for n in ast.walk(st))
        if not mentions:
            continue
        region.append(st)
        for n in ast.walk(st):
            if isinstance(n, ast.Assign):
                for t in n.targets:
                    for x in ast.walk(t):
                        if isinstance(x, ast.Name) and x.id != rvar:
                            tainted.add(x.id)
            if isinstance(n, (ast.For, ast.comprehension)):
                tainted |= {x for x in names_in(n.target)}
        merged_here = rvar is not None and any(
            (isinstance(n, ast.Call) and norm(n.func) == f"{rvar}.update")
            or (isinstance(n, ast.Subscript) and isinstance(n.ctx, ast.Store)
                and norm(n.value) == rvar) for n in ast.walk(st))
        if st is base and any(_is_delegate_query(n) for n in ast.walk(st)):
            # one expression ({**a, **b} / dict(a, **b)): insertion order is
            # source order
            def _pos(pred):
                return min((n.lineno, n.col_offset) for n in ast.walk(base)
                           if pred(n))
            single_expr = True
            if _pos(lambda n: is_self_call(n, "trait_get")
                    and not _is_delegate_query(n)) < _pos(_is_delegate_query):
                i_merge = i + 0.5
            else:
                i_merge = i - 0.5
        elif (merged_here or (rvar is not None and isinstance(st, ast.Assign)
                              and any(isinstance(t, ast.Name) and t.id == rvar
                                      for t in st.targets))) \
                and i_merge is None:
            i_merge = i
    dst = region[0] if region else fn.body[i_q]
    res.oblige(i_merge is not None and i_merge > i_get,
               "__getstate__:delegates-last", mod.loc(dst),
               "the state dictionary lists locally overridden delegate "
               "values before the ordinary traits: __setstate__ replays it in "
               "order, so a PrototypedFrom override is assigned before the "
               "Instance trait holding its prototype and unpickling raises "
               "DelegationError")
    # only *locally overridden* delegate values are state: they are read
    # from the instance dictionary under a membership test, never through
    # the delegation (a value read through it would be written back by
    # __setstate__ as a local override and stop following its prototype)
    dcalls = [n for st in region for n in ast.walk(st)
              if _is_delegate_query(n)]
    reads_dict = any(isinstance(n, ast.Subscript) and (
        norm(n.value).endswith(".__dict__") or norm(n.value) in dict_vars)
        for st in region for n in ast.walk(st))
    filtered = any(isinstance(n, ast.Compare) and len(n.ops) == 1
                   and isinstance(n.ops[0], ast.In) and (
                       norm(n.comparators[0]).endswith(".__dict__")
                       or norm(n.comparators[0]) in dict_vars)
                   for st in region for n in ast.walk(st))
    names_only = all(isinstance(c.func, ast.Attribute)
                     and c.func.attr == "trait_names" for c in dcalls)
    through = any(isinstance(n, ast.Call) and (
        norm(n.func) == "getattr" or (isinstance(n.func, ast.Attribute)
                                      and n.func.attr == "trait_get"
                                      and n is not None
                                      and _is_delegate_query(n)))
        for st in region for n in ast.walk(st))
    res.oblige(names_only and reads_dict and filtered and not through,
               "__getstate__:delegates-local-only", mod.loc(dst),
               "delegate values must be taken from self.__dict__ for the "
               "names that are in it (local overrides); reading them with "
               "trait_get()/getattr goes through the delegation, and "
               "__setstate__ then freezes the prototype's value as a local "
               "override - the unpickled object no longer follows its "
               "prototype")
    fn = repo.func(HT, "HasTraits.__reduce_ex__")
    res.oblige(any(is_self_call(c, "__getstate__") for c in ast.walk(fn)),
               "__reduce_ex__:getstate", mod.loc(fn),
               "__reduce_ex__ bypasses __getstate__")
    res.floor(3)


# ---------------------------------------------------------------------------
# C19.notify-suppression-pairing

class SuppressFlow(PyFlow):
    def classify(self, e, node):
        if isinstance(e, ast.Call) and isinstance(e.func, ast.Attribute) \
                and e.func.attr == "_trait_change_notify" and e.args:
            return [("OFF" if norm(e.args[0]) == "False" else "ON", False)]
        if isinstance(e, ast.Call):
            return [("CALL", True)]
        return []

    def step(self, st, ev, e, node):
        if ev == "OFF":
            self.offs += 1
            return "off"
        if ev == "ON":
            return "on"
        return st

    def on_exit(self, node, st):
        if st == "off":
            how = "returns" if node.kind == "exit" else "raises"
            self.flag(("suppression-leaked", node.kind),
                      f"the function {how} with change notification still "
                      f"switched off: the object would stay silent for good")


@rule("C19.notify-suppression-pairing", ["C19", "C02"],
      "notification suppression (_trait_change_notify(False)) is undone on "
      "every exit, including when an assignment raises")
def suppression(ctx, res):
    repo = get_pyrepo(ctx)
    n = 0
    for rel in ("traits/has_traits.py", "traits/trait_types.py",
                "traits/traits_listener.py", "traits/trait_base.py"):
        if rel not in repo.modules:
            continue
        mod = repo.modules[rel]
        for qual, fn in mod.functions.items():
            if not any(isinstance(c, ast.Call) and isinstance(c.func, ast.Attribute)
                       and c.func.attr == "_trait_change_notify"
                       and c.args and norm(c.args[0]) == "False"
                       for c in ast.walk(fn)):
                continue
            fl = SuppressFlow(mod, fn, qual)
            fl.offs = 0
            fl.run("on")
            n += 1
            res.instance(f"{rel}:{qual}", mod.loc(fn), suppressions=fl.offs)
            hits = fl.findings()
            for k, msg, loc, path in hits:
                res.violation(f"{qual}:{k[0]}:{k[1]}", loc, msg, path)
            if not hits:
                res.oblige(True, qual, "", "")
    res.floor(1)


# ---------------------------------------------------------------------------
# C14.copy-metadata-resolved: copy_traits (the worker of clone_traits and
# __deepcopy__) decides per name between reference, shallow and deep copy
# from the `copy` metadata.  For a deferred attribute that metadata lives on
# the trait the value is finally stored in (`base_trait`), not on the
# deferring trait: both loops of copy_traits must read it there.

@rule("C14.copy-metadata-resolved", ["C14"],
      "copy_traits reads the `copy` metadata from the delegation-resolved "
      "trait of the source object (base_trait) in both its loops")
def copy_metadata_resolved(ctx, res):
    from ..pyfacts import expand_locals
    repo = get_pyrepo(ctx)
    rel = "traits/has_traits.py"
    mod = repo.module(rel)
    fn = repo.inlined(rel, "HasTraits.copy_traits")
    ps = [a.arg for a in fn.args.args]
    otherp = ps[1]
    reads = [a for a in ast.walk(fn) if isinstance(a, ast.Attribute)
             and a.attr == "copy" and isinstance(a.ctx, ast.Load)
             and not (isinstance(a.value, ast.Name)
                      and a.value.id in ("copy_module", "copy"))]
    if len(reads) < 1:
        raise AnalysisError("copy_traits: no read of the copy metadata")
    for i, a in enumerate(reads):
        v = a.value
        # a local bound once inside the loop (`base_trait = other.base_trait(name)`)
        if isinstance(v, ast.Name):
            defs = [x.value for x in ast.walk(fn) if isinstance(x, ast.Assign)
                    and len(x.targets) == 1
                    and isinstance(x.targets[0], ast.Name)
                    and x.targets[0].id == v.id]
            if len(defs) == 1:
                v = defs[0]
        okk = isinstance(v, ast.Call) and isinstance(v.func, ast.Attribute) \
            and v.func.attr == "base_trait" \
            and norm(v.func.value) == otherp
        key = f"copy_traits:copy-metadata[{i}]"
        res.instance(key, mod.loc(a))
        res.oblige(okk, key + ":resolved", mod.loc(a),
                   f"the copy mode is read from `{norm(v)[:60]}`: for a "
                   f"deferred attribute the `copy` metadata of the trait "
                   f"that holds the value (`{otherp}.base_trait(name)`) is "
                   f"ignored - a delegated List/Instance with copy='deep' is "
                   f"shared between the original and the clone")
    res.floor(2)
